"""C23 — refinement and extrusion preserve measure and nesting."""
from fractions import Fraction

import numpy as np
import scipy.sparse as sps

from harness.core import Prop, clist

import porepy as pp
from porepy.grids import refinement as rf
from porepy.grids import grid_extrusion as ge


def q(x):
    fr = Fraction(float(x))
    return f"({fr.numerator}#{fr.denominator})"


def v3(p):
    return f"({q(p[0])},{q(p[1])},{q(p[2])})"


def pts(nodes):
    """3 x N array -> Coq list of v3 (Q_scope open in the preamble)."""
    a = np.asarray(nodes, dtype=float).reshape(3, -1)
    return clist([a[:, i] for i in range(a.shape[1])], v3)


def nats(l):
    return clist(l, lambda x: f"{int(x)}%nat")


def zs(l):
    return clist(l, lambda x: f"({int(x)})%Z")


TOL = 1e-9


# ------------------------------------------------------------------------------------
# grid recipes
# ------------------------------------------------------------------------------------
def renumbered_grid(g, ren):
    """The same grid with nodes, faces and cells renumbered (node i -> pn[i], face -> pf, cell ->
    pc), built with the public pp.Grid constructor: nodes, face_nodes and cell_faces are
    permuted consistently, so face_nodes is in general NOT the identity for 1-D grids."""
    pn, pf, pc = (np.array(ren[k], dtype=int) for k in ("pn", "pf", "pc"))
    nn, nf, nc = g.num_nodes, g.num_faces, g.num_cells
    Pn = sps.csc_matrix((np.ones(nn, dtype=int), (pn, np.arange(nn))), shape=(nn, nn))
    Pf = sps.csc_matrix((np.ones(nf, dtype=int), (pf, np.arange(nf))), shape=(nf, nf))
    Pc = sps.csc_matrix((np.ones(nc, dtype=int), (pc, np.arange(nc))), shape=(nc, nc))
    nodes = np.zeros_like(g.nodes)
    nodes[:, pn] = g.nodes
    fn = (Pn @ g.face_nodes.astype(int) @ Pf.T).tocsc().astype(bool)
    cf = (Pf @ g.cell_faces.astype(int) @ Pc.T).tocsc()
    fn.sort_indices()
    cf.sort_indices()
    h = pp.Grid(g.dim, nodes, fn, cf, "renumbered")
    h.compute_geometry()
    return h


def gen_renum(rng, g, same_nf=False):
    pn = list(range(g.num_nodes))
    rng.shuffle(pn)
    pf = list(range(g.num_faces))
    rng.shuffle(pf)
    pc = list(range(g.num_cells))
    rng.shuffle(pc)
    if same_nf and g.dim == 1:
        pf = list(pn)
    return {"pn": pn, "pf": pf, "pc": pc}


def build_1d(rec):
    """1-D grid from increasing abscissae xs, optional embedding (y = sy*x, z = sz*x) and
    optional renumbering of nodes and cells (so that start+1 != end)."""
    xs = np.array(rec["xs"], dtype=float)
    n = xs.size
    nodes = np.vstack((xs, rec.get("sy", 0) * xs, rec.get("sz", 0) * xs))
    perm = rec.get("perm")
    if perm is None:
        g = pp.TensorGrid(xs)
        g.nodes = nodes
    else:
        # node i of the line gets number perm[i]; cells in the order given by cperm
        pos = np.array(perm)
        new_nodes = np.zeros((3, n))
        new_nodes[:, pos] = nodes
        cperm = rec["cperm"]
        rows, cols, data = [], [], []
        for j, c in enumerate(cperm):
            rows += [pos[c], pos[c + 1]]
            cols += [j, j]
            data += [-1, 1]
        cf = sps.csc_matrix((data, (rows, cols)), shape=(n, n - 1))
        g = pp.Grid(1, new_nodes, sps.identity(n, format="csc"), cf, "renumbered 1d")
    g.compute_geometry()
    if rec.get("renum"):
        g = renumbered_grid(g, rec["renum"])
    return g


def gen_affine(rng):
    """Exact dyadic change of units: x -> (x + shift) * 2**k (a third of the grids)."""
    if rng.random() < 0.67:
        return 0.0, 1.0
    return rng.choice([-64.0, -2.5, 0.0, 0.25, 32.0]), 2.0 ** rng.choice([-12, -3, 3, 10, 20])


def gen_1d(rng, tier, embed=True, renumber=True, affine=None):
    n = rng.randint(1, 6 if tier == "quick" else 9)
    xs = [rng.choice([-2.0, -0.5, 0.0, 1.0])]
    for _ in range(n):
        xs.append(xs[-1] + rng.choice([0.25, 0.5, 1.0, 1.5, 2.0, 3.0]))
    sh, sc = affine if affine is not None else gen_affine(rng)
    xs2 = [(x + sh) * sc for x in xs]
    try:
        build_1d({"xs": xs2})
        xs = xs2
    except Exception:
        pass   # compute_geometry refuses these units (absolute tolerances of the geometry code)
    rec = {"xs": xs}
    if embed and rng.random() < 0.4:
        rec["sy"] = rng.choice([0.5, 1.0, -2.0])
        rec["sz"] = rng.choice([0.0, 0.0, 0.25])
    if renumber:
        u = rng.random()
        if u < 0.25:
            perm = list(range(n + 1))
            rng.shuffle(perm)
            cperm = list(range(n))
            rng.shuffle(cperm)
            rec["perm"], rec["cperm"] = perm, cperm
        elif u < 0.6:
            # nodes, faces and cells permuted independently: face_nodes is not the identity
            rec["renum"] = gen_renum(rng, build_1d(rec), same_nf=rng.random() < 0.3)
    return rec


def build_tri(rec):
    if rec["kind"] == "struct":
        g = pp.StructuredTriangleGrid(np.array(rec["dims"]))
        pert = rec.get("perturb")
        if pert:
            nn = g.num_nodes
            for d in range(2):
                for i in range(nn):
                    g.nodes[d, i] += pert[(d * nn + i) % len(pert)] / 16.0
    else:
        p = np.array(rec["pts"], dtype=float).T
        g = pp.TriangleGrid(np.vstack((p, np.zeros(p.shape[1]))), np.array(rec["tri"]).T)
    if rec.get("affine"):
        sh, sc = rec["affine"]
        g.nodes[:2] = (g.nodes[:2] + sh) * sc
    g.compute_geometry()
    if rec.get("renum"):
        g = renumbered_grid(g, rec["renum"])
    return g


def gen_tri(rng, tier, affine=None):
    rec = _gen_tri(rng, tier)
    sh, sc = affine if affine is not None else gen_affine(rng)
    if sc != 1.0 or sh != 0.0:
        rec["affine"] = [sh, sc]
        try:
            build_tri(rec)
        except Exception:
            del rec["affine"]   # compute_geometry refuses these units (absolute tolerances)
    if rng.random() < 0.35:
        # same triangles with permuted node / face / cell numbering (a plain pp.Grid)
        rec["renum"] = gen_renum(rng, build_tri(rec))
    return rec


def _gen_tri(rng, tier):
    r = rng.random()
    if r < 0.6:
        rec = {"kind": "struct", "dims": [rng.randint(1, 3), rng.randint(1, 3 if tier != "quick" else 2)]}
        if rng.random() < 0.6:
            rec["perturb"] = [rng.randint(-3, 3) for _ in range(rng.randint(3, 13))]
        return rec
    # random Delaunay triangulation of dyadic points
    from scipy.spatial import Delaunay
    while True:
        npt = rng.randint(3, 8)
        p = sorted({(rng.randint(0, 16) / 4.0, rng.randint(0, 16) / 4.0) for _ in range(npt)})
        if len(p) < 3:
            continue
        try:
            t = Delaunay(np.array(p)).simplices
        except Exception:
            continue
        if len(t) == 0:
            continue
        return {"kind": "free", "pts": [list(x) for x in p], "tri": [[int(i) for i in s] for s in t]}


def build_base(rec):
    g = _build_base(rec)
    if rec.get("int_nodes") and g.dim > 0 and np.all(g.nodes == np.round(g.nodes)):
        # the same grid with an INTEGER node array (pp.Grid keeps the dtype it is given, as in
        # the library's own extrusion tests)
        g = pp.Grid(g.dim, g.nodes.astype(int), g.face_nodes, g.cell_faces, "integer nodes")
        g.compute_geometry()
    return g


def _build_base(rec):
    k = rec["kind"]
    if k == "point":
        g = pp.PointGrid(np.array(rec["p"], dtype=float))
        g.compute_geometry()
        return g
    if k == "line":
        return build_1d(rec["rec"])
    if k == "cart2":
        g = pp.CartGrid(np.array(rec["dims"]))
        if rec.get("affine"):
            sh, sc = rec["affine"]
            g.nodes[:2] = (g.nodes[:2] + sh) * sc
        g.compute_geometry()
        if rec.get("renum"):
            g = renumbered_grid(g, rec["renum"])
        return g
    if k == "frac":
        # a subdomain of a real fractured md-grid (crossing fractures: the 1-D grids have
        # split faces and face_nodes is not the identity; the 2-D grid has split faces/nodes)
        fracs = [np.array(f, dtype=float) for f in rec["fracs"]]
        mdg = pp.meshing.cart_grid(fracs, np.array(rec["dims"]))
        sds = [sd for sd in mdg.subdomains() if sd.dim == rec["dim"]]
        g = sds[rec["pick"] % len(sds)]
        g.compute_geometry()
        return g
    return build_tri(rec["rec"])


def _cells_1d(g):
    cn = g.cell_nodes().tocsc()
    return [[int(cn.indices[cn.indptr[c]]), int(cn.indices[cn.indptr[c] + 1])] for c in range(g.num_cells)]


def _bary(p, a, b, c):
    t = np.array([b - a, c - a]).T
    l = np.linalg.solve(t, p - a)
    return min(l[0], l[1], 1 - l.sum())


class C23(Prop):
    id = "C23"
    props_file = "Props/C23.v"
    preamble = ("From Coq Require Import List ZArith QArith.\nImport ListNotations.\n"
                "From PP Require Import Model.C23.\nOpen Scope Q_scope.\n")
    n_cases = (200, 2400)
    design_ref = "DESIGN.md §5 C23"
    level_text = (
        "Coq theorems over exact-rational transcriptions of refine_grid_1d (incl. its node "
        "bookkeeping), remesh_1d (node placement), refine_triangle_grid, the 1-D branch of "
        "structured_refinement and the layer structure / cell maps of extrude_grid: children of a "
        "1-D cell tile it (consecutive, first starts and last ends at the parent's ends, each is "
        "1/ratio of the parent vector, all nodes are convex combinations of the parent's ends); "
        "remeshed nodes are equally spaced convex combinations spanning exactly the old domain; the "
        "four children of ANY triangle (any face order, any node numbering) each have a quarter of "
        "its signed area and consist of vertices and edge midpoints of the parent; cell maps are total "
        "functions onto the parents (j -> j/ratio, j -> j/4, j -> j mod nc); structured refinement "
        "puts every fine cell into the first coarse cell (lo,hi] containing its centre, the unique one "
        "for nested grids; extruded layer measures v*|dz_k| sum to v*|z_last-z_0| for monotone z. "
        "Tied to the code on every run in Q (dyadic coordinates, float results within 1e-9 relative).")
    level_note = (
        "Proved about the models (refine_grid_1d: for all inputs the decoded output cells are the "
        "children, C23_refine_1d_grid; its sign array is +1 exactly at first occurrences, C23_refine_1d_signs). NOT proved: compute_geometry of the "
        "new grids (C19) - that a prism cell's measure is base*|dz| is checked per case in the tie; "
        "the topology built by _extrude_1d/_extrude_2d (face-node/cell-face matrices, tags) is not "
        "modelled (validity of the grid is oracle-only); structured_refinement in 2-D/3-D "
        "(point_in_polygon/polyhedron) is oracle-only; remesh_1d's tag transfer is not covered; float "
        "rounding. Trusted: Coq kernel + vm_compute, the harness, g.face_centers of a 2-D grid = edge "
        "midpoints (checked in the tie), get_all_boundary_nodes (only for the tie; the remesh oracle finds "
        "the old end points geometrically). The models do not assume any node/face/cell numbering: "
        "renumbered grids and real fracture grids go through the same tie (node layers, cell map, "
        "per-child measures) and the per-parent measure + node-by-node prism nesting oracle.")
    technique = ("Coq proof (field/ring identities over Q, list induction, lia on div/mod) + vm_compute "
                 "execution correspondence in Q + brute-force oracles on real grids")
    rule = ("kinds: ref1d 25% (1-D grids with unequal dyadic spacing, 40% embedded in 3-D, 25% with "
            "shuffled node/cell numbering, 35% with independently permuted node, face and cell numbering "
            "(face_nodes not the identity), ratios 1-5), remesh 12% (same grids, a third of them after "
            "refine_grid_1d), reftri 25% (structured triangle grids, "
            "perturbed, and Delaunay triangulations of random dyadic points), sr 15% (1-D nested, shifted, 80% of the coarse and half of the fine grids with permuted node/face/cell numbering, "
            "non-nested and 2-D nested pairs), extrude 23% (0/1/2-D bases incl. integer-dtype node arrays, permuted numberings and subdomains of real md-grids with "
            "crossing fractures, 1-4 layers, increasing "
            "non-negative or decreasing non-positive z, mixed-sign error inputs). non-trivial = more than "
            "one parent cell or ratio/layers > 1; a third of all grids in other units: coordinates "
            "(x + shift) * 2^k with k in -12..20, layer heights times 2^k")
    trusted = ["float outputs compared with the exact model within 1e-9*(1+|x|) on dyadic inputs (the oracle uses purely relative bands, so grids in any units are judged at their own scale)",
               "g.face_centers = edge midpoints for 2-D grids (tie-checked)",
               "get_all_boundary_nodes / cell_nodes() of the input grids"]
    assumptions = ["ratio >= 1, num_nodes >= 2, z monotone (documented precondition of extrude_grid)",
                   "triangle theorem: the three faces of the cell are the three edges of a triangle"]

    # -------------------------------------------------------------------------------
    def generate(self, rng, n, tier):
        for _ in range(n):
            r = rng.random()
            if r < 0.25:
                yield {"kind": "ref1d", "grid": gen_1d(rng, tier), "ratio": rng.choice([1, 2, 2, 3, 4, 5])}
            elif r < 0.37:
                yield {"kind": "remesh", "grid": gen_1d(rng, tier), "m": rng.randint(2, 9),
                       "pre_refine": rng.choice([None, None, 2, 3])}
            elif r < 0.62:
                yield {"kind": "reftri", "grid": gen_tri(rng, tier)}
            elif r < 0.77:
                yield self._gen_sr(rng, tier)
            else:
                yield self._gen_extrude(rng, tier)

    def _gen_sr(self, rng, tier):
        r = rng.random()
        if r < 0.7:
            rec = gen_1d(rng, tier, embed=False, renumber=rng.random() < 0.8)
            mode = rng.choice(["nested", "nested", "nested", "shifted", "same"])
            case = {"kind": "sr1d", "grid": rec, "ratio": rng.choice([2, 3, 4]), "mode": mode}
            if rng.random() < 0.5:
                case["fine_renum_seed"] = rng.randint(0, 10**6)   # permuted numbering of the fine grid
            return case
        return {"kind": "sr2d", "grid": gen_tri(rng, tier)}

    def _gen_extrude(self, rng, tier):
        # one change of units for the base grid and the layer heights (independent units give
        # aspect ratios of 1e6 and more, which compute_normal rejects as collinear point sets)
        aff = gen_affine(rng)
        r = rng.random()
        if r < 0.15:
            base = {"kind": "point", "p": [rng.randint(-4, 4) / 2.0, rng.randint(-4, 4) / 2.0, 0.0]}
        elif r < 0.4:
            rec = gen_1d(rng, tier, embed=False, renumber=True, affine=aff)
            if rng.random() < 0.5:
                rec["sy"] = rng.choice([0.5, 1.0, -1.0])
                if rec.get("renum"):
                    rec["renum"] = gen_renum(rng, build_1d({k: v for k, v in rec.items() if k != "renum"}))
            base = {"kind": "line", "rec": rec}
        elif r < 0.55:
            # real fracture grids of an md-grid with an X- or T-intersection
            nx, ny = rng.randint(2, 3), rng.randint(2, 3)
            y0 = rng.randint(1, ny - 1)
            x0 = rng.randint(1, nx - 1)
            f1 = [[0, nx], [y0, y0]]
            f2 = [[x0, x0], [0 if rng.random() < 0.6 else y0, ny]]
            base = {"kind": "frac", "fracs": [f1, f2], "dims": [nx, ny],
                    "dim": rng.choice([1, 1, 1, 2, 0]), "pick": rng.randint(0, 3)}
        elif r < 0.68:
            base = {"kind": "cart2", "dims": [rng.randint(1, 3), rng.randint(1, 2)]}
            sh, sc = aff
            if sc != 1.0 or sh != 0.0:
                base["affine"] = [sh, sc]
                try:
                    build_base(base)
                except Exception:
                    del base["affine"]
            if rng.random() < 0.5:
                base["renum"] = gen_renum(rng, build_base(base))
        else:
            base = {"kind": "tri", "rec": gen_tri(rng, tier, affine=aff)}
        if rng.random() < 0.5:
            # integer-dtype node arrays (effective when the coordinates are integral) with
            # fractional layer heights
            base["int_nodes"] = True
        k = rng.randint(1, 4)
        z = [rng.choice([0.0, 0.0, 0.5, 1.0])]
        for _ in range(k):
            z.append(z[-1] + rng.choice([0.25, 0.5, 1.0, 2.0]))
        if base["kind"] not in ("frac", "point"):
            zf = aff[1] * 2.0 ** rng.choice([-2, 0, 0, 1])
            z = [x * zf for x in z]
        s = rng.random()
        if s < 0.3:
            z = [-x for x in z]
        elif s < 0.4:
            z = [x - (z[0] + z[-1]) / 2 for x in z]        # mixed signs: ValueError
        return {"kind": "extrude", "base": base, "z": z}

    # -------------------------------------------------------------------------------
    def _fine_1d(self, case):
        g, h = self._fine_1d_plain(case)
        if case.get("fine_renum_seed") is not None and case["mode"] != "same":
            import random
            h = renumbered_grid(h, gen_renum(random.Random(case["fine_renum_seed"]), h))
        return g, h

    def _fine_1d_plain(self, case):
        g = build_1d(case["grid"])
        if case["mode"] == "nested":
            return g, rf.refine_grid_1d(g, case["ratio"])
        if case["mode"] == "same":
            return g, build_1d(case["grid"])
        xs = np.array(case["grid"]["xs"])
        # not nested: equally spaced cells over the same interval
        m = (xs.size - 1) * case["ratio"] + 2
        h = pp.TensorGrid(np.linspace(xs[0], xs[-1], m))
        h.compute_geometry()
        return g, h

    def _remesh_input(self, case):
        g = build_1d(case["grid"])
        if case.get("pre_refine"):
            # the output of refine_grid_1d numbers its nodes cell by cell, not along the line
            g = rf.refine_grid_1d(g, case["pre_refine"])
        return g

    def run_impl(self, case):
        k = case["kind"]
        if k == "ref1d":
            g = build_1d(case["grid"])
            h = rf.refine_grid_1d(g, case["ratio"])
            cf = h.cell_faces
            return {"nodes": h.nodes.tolist(), "ind": [int(i) for i in cf.indices],
                    "data": [int(v) for v in cf.data], "indptr": [int(i) for i in cf.indptr],
                    "vol": h.cell_volumes.tolist(), "pvol": g.cell_volumes.tolist(),
                    "dim": int(h.dim), "nfaces": int(h.num_faces)}
        if k == "remesh":
            g = self._remesh_input(case)
            h = rf.remesh_1d(g, case["m"])
            s, e = g.get_all_boundary_nodes()
            return {"nodes": h.nodes.tolist(), "start": g.nodes[:, s].tolist(), "end": g.nodes[:, e].tolist(),
                    "vol": h.cell_volumes.tolist(), "pvol": g.cell_volumes.tolist(),
                    "ncells": int(h.num_cells)}
        if k == "reftri":
            g = build_tri(case["grid"])
            h, parent = rf.refine_triangle_grid(g)
            h.compute_geometry()
            cn = h.cell_nodes().tocsc()
            assert np.all(np.diff(cn.indptr) == 3)
            return {"nodes": h.nodes.tolist(), "tris": cn.indices.reshape(-1, 3).tolist(),
                    "parent": [int(p) for p in parent], "vol": h.cell_volumes.tolist(),
                    "pvol": g.cell_volumes.tolist()}
        if k == "sr1d":
            g, h = self._fine_1d(case)
            try:
                m = rf.structured_refinement(g, h)
            except AssertionError:
                return {"err": "AssertErr"}
            m = m.tocsc()
            return {"cols": [[int(i) for i in m.indices[m.indptr[j]:m.indptr[j + 1]]]
                             for j in range(m.shape[1])], "shape": list(m.shape)}
        if k == "sr2d":
            g = build_tri(case["grid"])
            h, parent = rf.refine_triangle_grid(g)
            h.compute_geometry()
            m = rf.structured_refinement(g, h).tocsc()
            return {"cols": [[int(i) for i in m.indices[m.indptr[j]:m.indptr[j + 1]]]
                             for j in range(m.shape[1])], "shape": list(m.shape)}
        if k == "extrude":
            g = build_base(case["base"])
            try:
                h, cm, fm = ge.extrude_grid(g, np.array(case["z"], dtype=float))
            except ValueError as e:
                if "positive or negative" not in str(e):
                    # raising on a valid grid is a violation, not a broken tie
                    return {"err": "Other", "what": f"ValueError: {e}"}
                return {"err": "ValueErr"}
            cn = h.cell_nodes().tocsc()
            pn = g.cell_nodes().tocsc() if g.dim > 0 else None
            return {"nodes": h.nodes.tolist(), "cmap": [[int(i) for i in np.asarray(c)] for c in cm],
                    "cnodes": [[int(i) for i in cn.indices[cn.indptr[j]:cn.indptr[j + 1]]]
                               for j in range(h.num_cells)],
                    "pnodes": ([[int(i) for i in pn.indices[pn.indptr[j]:pn.indptr[j + 1]]]
                                for j in range(g.num_cells)] if pn is not None else None),
                    "pxy": (g.nodes[:2].T.tolist() if g.dim > 0 else g.cell_centers[:2].T.tolist()),
                    "vol": h.cell_volumes.tolist(), "pvol": g.cell_volumes.tolist(),
                    "cc": h.cell_centers.tolist(), "pcc": g.cell_centers.tolist(),
                    "dim": int(h.dim), "ncells": int(h.num_cells)}
        raise ValueError(k)

    # -------------------------------------------------------------------------------
    def oracle(self, case, res):
        k = case["kind"]
        if k == "ref1d":
            g = build_1d(case["grid"])
            r = case["ratio"]
            vol, pvol = np.array(res["vol"]), np.array(res["pvol"])
            if vol.size != r * g.num_cells or res["dim"] != 1:
                return f"{vol.size} cells after refining {g.num_cells} cells by {r}"
            if np.any(vol <= 0):
                return "non-positive cell volume in the refined grid"
            if abs(vol.sum() - pvol.sum()) > TOL * (pvol.sum()):
                return f"total length {pvol.sum()} -> {vol.sum()}"
            # valid grid: a face belongs to one or two cells, with opposite signs if two
            occ = {}
            for f, sgn in zip(res["ind"], res["data"]):
                occ.setdefault(f, []).append(sgn)
            for f, sg in occ.items():
                if sorted(sg) not in ([-1], [1], [-1, 1]):
                    return f"face {f} of the refined grid has cell-face signs {sg}"
            x = np.array(res["nodes"]).reshape(3, -1)
            cells = _cells_1d(g)
            for c in range(g.num_cells):
                a, b = g.nodes[:, cells[c][0]], g.nodes[:, cells[c][1]]
                ch = range(c * r, (c + 1) * r)
                if abs(vol[list(ch)].sum() - pvol[c]) > TOL * (pvol[c]):
                    return f"children of cell {c} have total length {vol[list(ch)].sum()} != {pvol[c]}"
                for j in ch:
                    for n in res["ind"][res["indptr"][j]:res["indptr"][j + 1]]:
                        p = x[:, n]
                        t = np.dot(p - a, b - a) / np.dot(b - a, b - a)
                        if t < -TOL or t > 1 + TOL or np.linalg.norm(a + t * (b - a) - p) > TOL * np.linalg.norm(b - a):
                            return f"node {n} of child {j} is outside parent cell {c}"
            return None
        if k == "remesh":
            vol, pvol = np.array(res["vol"]), np.array(res["pvol"])
            if res["ncells"] != case["m"] - 1:
                return f"{res['ncells']} cells for {case['m']} nodes"
            if np.any(vol <= 0):
                return "non-positive cell volume"
            if abs(vol.sum() - pvol.sum()) > TOL * (pvol.sum()):
                return f"total length {pvol.sum()} -> {vol.sum()}"
            # the old domain, found geometrically (independent of any node numbering and of
            # get_all_boundary_nodes): the two extreme old nodes along the line
            g = self._remesh_input(case)
            far = int(np.argmax(np.linalg.norm(g.nodes - g.nodes[:, [0]], axis=0)))
            d = g.nodes[:, far] - g.nodes[:, 0]
            par = d @ (g.nodes - g.nodes[:, [0]]) / (d @ d)
            a, b = g.nodes[:, int(np.argmin(par))], g.nodes[:, int(np.argmax(par))]
            if abs(np.linalg.norm(b - a) - pvol.sum()) > TOL * (pvol.sum()):
                return None   # the old grid is not one straight connected line: outside the domain
            x = np.array(res["nodes"]).reshape(3, -1)
            ts = []
            for i in range(x.shape[1]):
                t = np.dot(x[:, i] - a, b - a) / np.dot(b - a, b - a)
                ts.append(t)
                if t < -TOL or t > 1 + TOL or np.linalg.norm(a + t * (b - a) - x[:, i]) > TOL * np.linalg.norm(b - a):
                    return f"node {i} outside the old domain"
            if min(ts) > TOL or max(ts) < 1 - TOL:
                return (f"the remeshed grid covers only [{min(ts):.6g}, {max(ts):.6g}] of the old "
                        "domain (parametrised 0..1)")
            return None
        if k == "reftri":
            g = build_tri(case["grid"])
            vol, pvol = np.array(res["vol"]), np.array(res["pvol"])
            parent = res["parent"]
            if vol.size != 4 * g.num_cells or len(parent) != vol.size:
                return f"{vol.size} cells / {len(parent)} parents for {g.num_cells} triangles"
            if any(p < 0 or p >= g.num_cells for p in parent):
                return "parent index out of range"
            if abs(vol.sum() - pvol.sum()) > TOL * (pvol.sum()):
                return f"total area {pvol.sum()} -> {vol.sum()}"
            x = np.array(res["nodes"]).reshape(3, -1)
            cn = g.cell_nodes().tocsc()
            for c in range(g.num_cells):
                ch = [j for j, p in enumerate(parent) if p == c]
                if len(ch) != 4:
                    return f"cell {c} has {len(ch)} children"
                if abs(vol[ch].sum() - pvol[c]) > TOL * (pvol[c]):
                    return f"children of cell {c} have total area {vol[ch].sum()} != {pvol[c]}"
                A, B, C = (g.nodes[:2, n] for n in cn.indices[cn.indptr[c]:cn.indptr[c + 1]])
                for j in ch:
                    for n in res["tris"][j]:
                        if _bary(x[:2, n], A, B, C) < -TOL:
                            return f"node {n} of child {j} lies outside parent triangle {c}"
            return None
        if k in ("sr1d", "sr2d"):
            if k == "sr1d":
                g, h = self._fine_1d(case)
                lo = [min(g.nodes[0, a], g.nodes[0, b]) for a, b in _cells_1d(g)]
                hi = [max(g.nodes[0, a], g.nodes[0, b]) for a, b in _cells_1d(g)]
                cont = [[c for c in range(g.num_cells) if lo[c] < x < hi[c]] for x in h.cell_centers[0]]
                if h.num_cells <= g.num_cells:
                    return None if "err" in res else "grids in the wrong order accepted"
            else:
                g = build_tri(case["grid"])
                h, parent = rf.refine_triangle_grid(g)
                h.compute_geometry()
                cn = g.cell_nodes().tocsc()
                cont = []
                for j in range(h.num_cells):
                    cont.append([c for c in range(g.num_cells)
                                 if _bary(h.cell_centers[:2, j], *(g.nodes[:2, n] for n in
                                          cn.indices[cn.indptr[c]:cn.indptr[c + 1]])) > 1e-9])
            nested = all(len(c) == 1 for c in cont)
            if "err" in res:
                return "nested grids rejected" if nested else None
            if not nested:
                return None    # the property speaks about refinements by splitting only
            where = {}
            for c, col in enumerate(res["cols"]):
                for j in col:
                    if j in where:
                        return f"fine cell {j} mapped to two coarse cells"
                    where[j] = c
            for j in range(h.num_cells):
                if where.get(j) != cont[j][0]:
                    return f"fine cell {j} mapped to coarse cell {where.get(j)}, contained in {cont[j][0]}"
            return None
        if k == "extrude":
            z = case["z"]
            mixed = not (all(x >= 0 for x in z) or all(x <= 0 for x in z))
            if res.get("err") == "Other":
                return None if mixed else f"valid grid and layer sequence raised {res['what'][:80]}"
            if "err" in res:
                return None if mixed else "valid layer sequence rejected"
            if mixed:
                return "mixed-sign layer sequence accepted"
            g = build_base(case["base"])
            vol, pvol = np.array(res["vol"]), np.array(res["pvol"])
            height = abs(z[-1] - z[0])
            if res["dim"] != g.dim + 1:
                return "dimension not increased by one"
            if np.any(vol <= 0):
                return "non-positive cell volume in the extruded grid"
            if abs(vol.sum() - pvol.sum() * height) > TOL * (pvol.sum() * height):
                return f"total measure {vol.sum()} != {pvol.sum()} * {height}"
            seen = sorted(j for row in res["cmap"] for j in row)
            if seen != list(range(res["ncells"])) or len(res["cmap"]) != g.num_cells:
                return "cell map does not assign every new cell to exactly one parent"
            cc, pcc = np.array(res["cc"]).reshape(3, -1), np.array(res["pcc"]).reshape(3, -1)
            S = max(float(np.max(np.abs(np.array(res["nodes"])))), np.finfo(float).tiny)   # length scale
            dz = np.abs(np.diff(z))
            for c, row in enumerate(res["cmap"]):
                if abs(vol[row].sum() - pvol[c] * height) > TOL * (pvol[c] * height):
                    return f"children of cell {c}: measure {vol[row].sum()} != {pvol[c]} * {height}"
                if len(row) != len(dz) or np.any(np.abs(vol[row] - pvol[c] * dz) > TOL * (pvol[c] * dz)):
                    return f"children of cell {c} are not the layers of its prism"
                for kk, j in enumerate(row):
                    if np.linalg.norm(cc[:2, j] - pcc[:2, c]) > 1e-9 * S or not (
                            min(z[kk], z[kk + 1]) < cc[2, j] < max(z[kk], z[kk + 1])):
                        return f"child {j} of cell {c} is not inside its prism layer"
            # nesting, node by node: child k of cell c is the prism over c between z[k] and
            # z[k+1]: each of its nodes sits over a node of c at one of the two heights, and
            # every node of c occurs at both heights
            x = np.array(res["nodes"]).reshape(3, -1)
            pxy = np.array(res["pxy"]).reshape(-1, 2)
            for c, row in enumerate(res["cmap"]):
                corners = pxy[res["pnodes"][c]] if res["pnodes"] is not None else pxy[[c]]
                for kk, j in enumerate(row):
                    want = {(i, lev) for i in range(len(corners)) for lev in (0, 1)}
                    for n in res["cnodes"][j]:
                        hit = [i for i in range(len(corners))
                               if np.linalg.norm(corners[i] - x[:2, n]) <= 1e-9 * S]
                        lev = [l for l in (0, 1) if abs(x[2, n] - z[kk + l]) <= 1e-9 * S]
                        if not hit or not lev:
                            return (f"node {n} of child {j} (layer {kk}) is not a corner of the prism "
                                    f"over parent cell {c}")
                        want.discard((hit[0], lev[0]))
                    if want:
                        return f"child {j} (layer {kk}) does not span the whole prism over parent cell {c}"
            return None
        return None

    # -------------------------------------------------------------------------------
    def coq_case(self, case, res):
        k = case["kind"]
        if k == "ref1d":
            g = build_1d(case["grid"])
            cells = clist(_cells_1d(g), lambda p: f"({p[0]}%nat,{p[1]}%nat)")
            return (f"agree_refine1d {pts(g.nodes)} {cells} {case['ratio']}%nat {pts(res['nodes'])} "
                    f"{nats(res['ind'])} {zs(res['data'])}")
        if k == "remesh":
            return (f"agree_remesh {v3(res['start'])} {v3(res['end'])} {case['m']}%nat "
                    f"{pts(res['nodes'])}")
        if k == "reftri":
            g = build_tri(case["grid"])
            fn = g.face_nodes.indices.reshape((2, g.num_faces), order="F").T
            cf = g.cell_faces.indices.reshape((3, g.num_cells), order="F").T
            t3 = lambda t: f"({int(t[0])}%nat,{int(t[1])}%nat,{int(t[2])}%nat)"
            return (f"agree_refine_tri {pts(g.nodes)} "
                    f"{clist(fn, lambda p: f'({int(p[0])}%nat,{int(p[1])}%nat)')} {clist(cf, t3)} "
                    f"{pts(res['nodes'])} {clist(res['tris'], t3)} {nats(res['parent'])}")
        if k == "sr1d":
            g, h = self._fine_1d(case)
            coarse = [sorted((g.nodes[0, a], g.nodes[0, b])) for a, b in _cells_1d(g)]
            cs = clist(coarse, lambda p: f"({q(p[0])},{q(p[1])})")
            out = "(Err AssertErr)" if "err" in res else f"(Ok {clist(res['cols'], nats)})"
            return f"agree_sr1d {cs} {clist(h.cell_centers[0], q)} {out}"
        if k == "extrude":
            g = build_base(case["base"])
            nodes = g.nodes if g.dim > 0 else g.cell_centers
            if res.get("err") == "Other":
                return None
            if "err" in res:
                out, vols, newvols = "(Err ValueErr)", "[]", "[]"
            else:
                out = f"(Ok ({pts(res['nodes'])}, {clist(res['cmap'], nats)}))"
                vols, newvols = clist(res["pvol"], q), clist(res["vol"], q)
            return (f"agree_extrude {pts(nodes)} {g.num_cells}%nat {clist(case['z'], q)} {out} "
                    f"{vols} {newvols}")
        return None

    def nontrivial(self, case, res):
        k = case["kind"]
        if k == "ref1d":
            return case["ratio"] > 1
        if k == "extrude":
            return "err" not in res
        return True

    def finding_key(self, case, res, why):
        return case["kind"] + ": " + " ".join(why.split(" ")[:4])


PROP = C23()
