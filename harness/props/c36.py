"""C36 — ArraySlicer acts exactly like its projection matrix (histories of slicer objects)."""
import numpy as np
import scipy.sparse as sps

from harness.core import Prop, cz, cnat, cbool, clist, coption

import porepy as pp
from porepy.numerics.linalg.matrix_operations import ArraySlicer

OPS = ["@", "*", "/", "**", "+", "-"]
OPNAME = {"@": "PMatmul", "*": "PMul", "/": "PDiv", "**": "PPow", "+": "PAdd", "-": "PSub"}
KNOWN_KEY = "pending-overwritten"


# ---------------------------------------------------------------------------- Coq emission
def _nats(l):
    return clist(l, cnat)


def _zs(l):
    return clist(l, cz)


def _crows(rows):
    return clist(rows, lambda r: clist(r, lambda p: f"({cnat(p[0])}, {cz(p[1])})"))


class NonInteger(Exception):
    pass


def _int(x):
    f = float(x)
    if f != f or f in (float("inf"), float("-inf")) or f != int(f):
        raise NonInteger()
    return int(f)


def _value(v):
    k = v[0]
    if k == "vec":
        return f"(VVec {_zs([_int(x) for x in v[1]])})"
    if k == "arr":
        return f"(VArr {cnat(v[1])} {clist(v[2], lambda r: _zs([_int(x) for x in r]))})"
    if k == "csr":
        return f"(VCsr {cnat(v[1])} {_crows([[(p[0], _int(p[1])) for p in r] for r in v[2]])})"
    if k == "ad":
        return (f"(VAd {_zs([_int(x) for x in v[1]])} {cnat(v[2])} "
                f"{_crows([[(p[0], _int(p[1])) for p in r] for r in v[3]])})")
    if k == "num":
        return f"(VNum {cz(_int(v[1]))})"
    raise ValueError(k)


def _operand(o):
    if o[0] == "scalar":
        return f"(OScalar {cz(o[1])})"
    if o[0] == "ad":
        return f"(OAd {_zs(o[1])} {cnat(o[2])} {_crows(o[3])})"
    return f"(OMat {cnat(o[1])} {_crows(o[2])})"


def _stmt(s):
    k = s[0]
    if k == "new":
        return (f"SNew {coption(s[1], _nats)} {coption(s[2], _nats)} "
                f"{coption(s[3], cnat)} {coption(s[4], cnat)}")
    if k == "T":
        return f"STranspose {cnat(s[1])}"
    if k == "copy":
        return f"SCopy {cnat(s[1])}"
    if k == "mm":
        return f"SMatSS {cnat(s[1])} {cnat(s[2])}"
    if k == "rop":
        return f"SROp {_operand(s[1])} {OPNAME[s[2]]} {cnat(s[3])}"
    if k == "apply":
        return f"SApply {cnat(s[1])} {_value(s[2])}"
    raise ValueError(k)


def _out(o):
    if o[0] == "new":
        return f"ONew {cnat(o[1])}"
    if o[0] == "val":
        return f"(OVal {_value(o[1])})"
    return f"(OErr {o[1]})"


def _dump(d):
    pend = clist(d["pend"], lambda t: f"({cnat(t[0])}, {cnat(t[1])}, {cnat(t[2])})")
    return (f"(mkD {_nats(d['dom'])} {_nats(d['rng'])} {cnat(d['rsize'])} {cnat(d['dsize'])} "
            f"{cbool(d['onto'])} {cbool(d['transposed'])} {pend})")


# ---------------------------------------------------------------------------- python values
def _csr(nc, rows):
    indptr = np.cumsum([0] + [len(r) for r in rows]).astype(np.int32)
    indices = np.array([p[0] for r in rows for p in r], dtype=np.int32)
    data = np.array([p[1] for r in rows for p in r], dtype=float)
    return sps.csr_matrix((data, indices, indptr), shape=(len(rows), nc))


def _py_value(v, opts=None):
    """The operand as handed to the implementation.  opts: scale = power-of-two exponent
    applied to all data (divided out of the results again, exactly), dtype of dense
    operands, storage format of sparse operands, memory order of 2-D arrays."""
    opts = opts or {}
    sc = 2.0 ** opts.get("scale", 0)
    dt = {"float": float, "int": np.int64, "bool": bool}[opts.get("dtype", "float")]
    k = v[0]
    if k == "vec":
        return (np.array(v[1], dtype=float) * sc).astype(dt)
    if k == "arr":
        a = (np.array(v[2], dtype=float).reshape(len(v[2]), v[1]) * sc).astype(dt)
        return np.asfortranarray(a) if opts.get("order") == "F" else a
    if k == "csr":
        A = _csr(v[1], v[2]) * sc if sc != 1.0 else _csr(v[1], v[2])
        fmt = opts.get("fmt", "csr")
        return A.tocsc() if fmt == "csc" else A.tocoo() if fmt == "coo" else A
    if k == "ad":
        J = _csr(v[2], v[3])
        return pp.ad.AdArray(np.array(v[1], dtype=float) * sc, J * sc if sc != 1.0 else J)
    if k == "num":
        return int(v[1]) if sc == 1.0 else float(v[1]) * sc
    raise ValueError(k)


def _parts(x):
    """The numpy buffers of an operand."""
    if isinstance(x, pp.ad.AdArray):
        return [x.val] + _parts(x.jac)
    if sps.issparse(x):
        if x.format == "coo":
            return [x.data, x.row, x.col]
        return [x.data, x.indices, x.indptr]
    if isinstance(x, np.ndarray):
        return [x]
    return []


def _csr_rows(A):
    if not sps.issparse(A):
        raise TypeError("expected a sparse matrix")
    A = A.tocsr()
    ip = [int(i) for i in A.indptr]
    if len(A.data) != ip[-1] or len(A.indices) != ip[-1] or len(ip) != A.shape[0] + 1:
        raise AssertionError("implementation returned an inconsistent CSR triple")
    return [[[int(A.indices[k]), float(A.data[k])] for k in range(ip[i], ip[i + 1])]
            for i in range(A.shape[0])]


def _canon(r, scale=0):
    inv = 2.0 ** (-scale)      # exact: power of two
    if isinstance(r, pp.ad.AdArray):
        return ["ad", [float(x) * inv for x in r.val], int(r.jac.shape[1]),
                [[[c, v * inv] for c, v in row] for row in _csr_rows(r.jac)]]
    if sps.issparse(r):
        return ["csr", int(r.shape[1]), [[[c, v * inv] for c, v in row] for row in _csr_rows(r)]]
    if isinstance(r, np.ndarray):
        if r.ndim == 1:
            return ["vec", [float(x) * inv for x in r]]
        if r.ndim == 2:
            return ["arr", int(r.shape[1]), [[float(x) * inv for x in row] for row in r]]
    raise TypeError(f"unexpected result type {type(r)}")


# ---------------------------------------------------------------------------- oracle helpers
class NoDemand(Exception):
    """The property does not say anything about this application."""


def _dense_in(v, n):
    k = v[0]
    if k == "vec":
        return ("vec", np.array(v[1], dtype=float))
    if k == "arr":
        return ("arr", np.array(v[2], dtype=float).reshape(len(v[2]), v[1]))
    if k == "csr":
        return ("mat", _csr(v[1], v[2]).toarray())
    if k == "ad":
        return ("ad", np.array(v[1], dtype=float), _csr(v[2], v[3]).toarray())
    return ("vec", np.full(n, float(v[1])))


def _dense_out(v):
    k = v[0]
    if k == "vec":
        return ("vec", np.array(v[1], dtype=float))
    if k == "arr":
        return ("arr", np.array(v[2], dtype=float).reshape(len(v[2]), v[1]))
    if k == "csr":
        return ("mat", _csr(v[1], [[(p[0], p[1]) for p in r] for r in v[2]]).toarray())
    return ("ad", np.array(v[1], dtype=float),
            _csr(v[2], [[(p[0], p[1]) for p in r] for r in v[3]]).toarray())


def _nrows(d):
    return d[1].shape[0]


def _mat_times(P, d):
    if _nrows(d) != P.shape[1] or (d[0] == "ad" and d[2].shape[0] != P.shape[1]):
        raise NoDemand()
    if d[0] == "ad":
        return ("ad", P @ d[1], P @ d[2])
    return (d[0], P @ d[1])


def _scalar_op(c, op, d):
    f = {"*": lambda a: c * a, "+": lambda a: c + a, "-": lambda a: c - a,
         "/": lambda a: c / a, "**": lambda a: float(c) ** a}
    if op == "@":
        raise NoDemand()
    with np.errstate(all="ignore"):
        if d[0] in ("vec", "arr"):
            return (d[0], f[op](d[1]))
        if d[0] == "mat":
            if op != "*":
                raise NoDemand()     # scipy does not define it for sparse matrices
            return ("mat", c * d[1])
        if op == "*":
            return ("ad", c * d[1], c * d[2])
        if op == "+":
            return ("ad", c + d[1], d[2])
        if op == "-":
            return ("ad", c - d[1], -d[2])
    raise NoDemand()


def _ad_op(v, J, op, d):
    """AdArray(v, J) op d  (only the elementwise product stays integral)."""
    if op != "*":
        raise NoDemand()
    if d[0] == "vec" and d[1].shape == v.shape:
        return ("ad", v * d[1], d[1][:, None] * J)
    if d[0] == "ad" and d[1].shape == v.shape and d[2].shape == J.shape:
        return ("ad", v * d[1], d[1][:, None] * J + v[:, None] * d[2])
    raise NoDemand()


class _Sem:
    """Reference meaning of one slicer object: explicit matrices and plain arithmetic."""

    def __init__(self, fn, dsize, haspend, overw, plain=None):
        self.fn, self.dsize, self.haspend, self.overw, self.plain = fn, dsize, haspend, overw, plain


def _projection(d, r, rs, ds):
    """Explicit matrix of ArraySlicer(d, r, rs, ds); None where the property's guard
    (valid, equally long index arrays, distinct range indices) does not hold."""
    if d is None and r is None:
        return None
    if d is None:
        d = list(range(len(r)))
    if r is None:
        r = list(range(len(d)))
    if rs is None:
        if not r:
            return None
        rs = max(r) + 1
    if ds is None:
        if not d:
            return None
        ds = max(d) + 1
    if len(d) != len(r) or len(set(r)) != len(r):
        return None
    if any(i >= ds for i in d) or any(i >= rs for i in r):
        return None
    P = np.zeros((rs, ds))
    for a, b in zip(r, d):
        P[a, b] = 1.0
    return P


def _reference(prog):
    """For every statement the expected dense result of an application (or None)."""
    sems = []
    expected = []

    def undefined(_):
        raise NoDemand()

    for s in prog:
        k = s[0]
        exp = None
        if k == "new":
            bad = (s[1] is None and s[2] is None) or \
                  (s[3] is None and (s[2] == [] or (s[2] is None and s[1] == []))) or \
                  (s[4] is None and (s[1] == [] or (s[1] is None and s[2] == [])))
            if not bad:
                P = _projection(s[1], s[2], s[3], s[4])
                if P is None:
                    sems.append(_Sem(undefined, None, False, False))
                else:
                    sems.append(_Sem(lambda d, P=P: _mat_times(P, d), P.shape[1], False, False, P))
        elif k == "T":
            a = sems[s[1]]
            if a.plain is None or a.haspend or (a.plain.sum(axis=0) > 1).any():
                # (a transposed slicer with repeated domain indices has repeated range
                # indices: outside the property's index SETS)
                sems.append(_Sem(undefined, None, False, False))
            else:
                P = a.plain.T.copy()
                sems.append(_Sem(lambda d, P=P: _mat_times(P, d), P.shape[1], False, False, P))
        elif k == "copy":
            a = sems[s[1]]
            sems.append(_Sem(a.fn, a.dsize, a.haspend, a.overw, a.plain))
        elif k == "mm":
            a, b = sems[s[1]], sems[s[2]]
            sems.append(_Sem(lambda d, a=a, b=b: a.fn(b.fn(d)), b.dsize, True,
                             a.overw or b.overw or b.haspend, b.plain))
        elif k == "rop":
            b = sems[s[3]]
            o, op = s[1], s[2]
            if o[0] == "scalar":
                fn = lambda d, c=o[1], op=op, b=b: _scalar_op(c, op, b.fn(d))
            elif o[0] == "ad":
                fn = lambda d, v=np.array(o[1], dtype=float), J=_csr(o[2], o[3]).toarray(), op=op, b=b: \
                    _ad_op(v, J, op, b.fn(d))
            else:
                A = _csr(o[1], o[2]).toarray()
                if op != "@":
                    fn = undefined
                else:
                    fn = lambda d, A=A, b=b: _mat_times(A, b.fn(d))
            sems.append(_Sem(fn, b.dsize, True, b.overw or b.haspend, b.plain))
        elif k == "apply":
            a = sems[s[1]]
            try:
                if a.dsize is None:
                    raise NoDemand()
                exp = (a.fn(_dense_in(s[2], a.dsize)), a.overw)
            except NoDemand:
                exp = None
        expected.append(exp)
    return expected


def _same(a, b):
    if a[0] != b[0]:
        return False
    return all(x.shape == y.shape and np.array_equal(x, y) for x, y in zip(a[1:], b[1:]))


def _all_integral(d):
    return all(np.all(np.isfinite(x)) and np.all(x == np.round(x)) and np.all(np.abs(x) < 2.0 ** 40)
               for x in d[1:])


# ---------------------------------------------------------------------------- generator helpers
def _vec(rng, n, lo=-9, hi=9):
    return [rng.randint(lo, hi) for _ in range(n)]


def _rows(rng, n, nc, messy=False):
    rows = []
    for _ in range(n):
        k = rng.randint(0, nc)
        cols = rng.sample(range(nc), k)
        if not messy:
            cols.sort()
        row = [[c, rng.choice([0, 1, 2, 3, -1, -4, 5, 7])] if messy else [c, rng.randint(1, 9) * rng.choice([1, -1])]
               for c in cols]
        if messy and nc > 0 and rng.random() < 0.3:
            row.append([rng.randrange(nc), rng.randint(-3, 3)])   # duplicate column
        rows.append(row)
    return rows


def _operand_value(rng, n, kind=None):
    kind = kind or rng.choice(["vec", "vec", "arr", "csr", "ad", "num"])
    if kind == "vec":
        return ["vec", _vec(rng, n)]
    if kind == "arr":
        nc = rng.randint(1, 3)
        return ["arr", nc, [_vec(rng, nc) for _ in range(n)]]
    if kind == "csr":
        nc = rng.randint(1, 4)
        return ["csr", nc, _rows(rng, n, nc, messy=rng.random() < 0.4)]
    if kind == "ad":
        nc = rng.randint(1, 4)
        return ["ad", _vec(rng, n), nc, _rows(rng, n, nc, messy=rng.random() < 0.3)]
    return ["num", rng.randint(-9, 9)]


def _slicer_args(rng, n, m=None, style=None):
    """Constructor arguments of a slicer R^n -> R^m (n >= 1)."""
    style = style or rng.choice(["restrict", "restrict_rs", "prolong", "perm", "inject", "both",
                                 "both_nosize"])
    if style == "restrict":          # domain indices only: the onto fast path
        k = rng.randint(1, n)
        d = [rng.randrange(n) for _ in range(k)] if rng.random() < 0.3 else rng.sample(range(n), k)
        return ["new", d, None, None, rng.choice([None, n])]
    if style == "restrict_rs":       # domain indices + range size
        k = rng.randint(0, n)
        d = rng.sample(range(n), k)
        return ["new", d, None, k + rng.randint(0, 2), n]
    if style == "prolong":           # range indices only
        mm = m or n + rng.randint(0, 3)
        r = rng.sample(range(mm), n)
        return ["new", None, r, rng.choice([None, mm]), rng.choice([None, n])]
    if style == "perm":
        d = list(range(n)); rng.shuffle(d)
        r = list(range(n)); rng.shuffle(r)
        return ["new", d, r, rng.choice([None, n]), rng.choice([None, n])]
    if style == "inject":
        mm = m or n + rng.randint(0, 3)
        k = rng.randint(0, min(n, mm))
        return ["new", rng.sample(range(n), k), rng.sample(range(mm), k), mm, n]
    if style == "both":
        mm = m or rng.randint(1, n + 2)
        k = rng.randint(1, mm)
        d = [rng.randrange(n) for _ in range(k)]
        r = rng.sample(range(mm), k)
        return ["new", d, r, mm, n]
    mm = rng.randint(1, n + 2)
    k = rng.randint(1, min(n, mm))
    return ["new", rng.sample(range(n), k), rng.sample(range(mm), k), None, None]


def _sizes(s):
    """(dsize, rsize) the constructor will store, or None when it raises."""
    d, r, rs, ds = s[1], s[2], s[3], s[4]
    if d is None and r is None:
        return None
    dd = d if d is not None else list(range(len(r)))
    rr = r if r is not None else list(range(len(d)))
    if rs is None:
        if not rr:
            return None
        rs = max(rr) + 1
    if ds is None:
        if not dd:
            return None
        ds = max(dd) + 1
    return ds, rs


class C36(Prop):
    id = "C36"
    props_file = "Props/C36.v"
    preamble = ("From Coq Require Import List ZArith.\nImport ListNotations.\n"
                "From PP Require Import Lib.Csr Model.C36 Model.C36_flat.\n")
    n_cases = (500, 12000)
    design_ref = "DESIGN.md §5 C36, §6 row C36"
    level_text = (
        "Coq theorems over an executable transcription of ArraySlicer (constructor, transpose, copy, "
        "@ on vectors / 2-D arrays / sparse matrices / AdArrays / scalars, slicer @ slicer, the six "
        "right-operand methods, the ordered list of pending operations) with python objects in an "
        "explicit heap: for every well-formed slicer with distinct range indices S @ x equals the "
        "explicit 0/1 projection matrix times x for all five operand types (C36_apply_is_matrix); the "
        "index-pointer arithmetic of _slice_matrix (argsort, counts, cumsum, range expansion, take) on "
        "the flat CSR record yields exactly those stored rows (C36_slice_matrix_index_arithmetic); the "
        "transposed slicer denotes the transposed matrix; for ANY two objects (S_i @ S_j) @ x = "
        "S_i @ (S_j @ x) and (A op S_j) @ x = A op (S_j @ x), pending operations of the operands "
        "included, no guard (C36_matmul_composes, C36_rop_composes — true only after the second "
        "repair commit); chains of ANY length compose (C36_chain_general) and equal the iterated "
        "matrix products (C36_chain); and for EVERY history objects that existed before are never "
        "modified (C36_reuse — true only after the first repair commit). Both pre-fix variants are "
        "refuted in Coq. Tie on every run: random histories executed by porepy and by the model inside "
        "Coq, which compares every result, the raw indptr/indices/data of sliced matrices against the "
        "flat transcription, and the final state (incl. the pending list) of every object.")
    level_note = (
        "Trusted/abstracted: the numpy/scipy/AdArray arithmetic of a pending operation is an "
        "uninterpreted function in the theorems and a small integer instance in the tie; "
        "expand_index_pointers enters the flat model as the flat_map of ranges (its own theorem is "
        "C35's); indices are naturals (numpy's negative-index wrap-around is outside the model; on "
        "sparse operands the code does not support it); numpy arrays as LEFT operand of a pending "
        "operation never reach ArraySlicer (numpy broadcasts over the object) and are not modelled. "
        "NOT proved: anything for repeated range indices on sparse operands (the code builds an "
        "inconsistent CSR triple there: excluded by the guard NoDup, not generated); the onto fast "
        "path on sparse operands is scipy's A[idx] (tie only). The constructor keeps references to "
        "the index arrays it is given (by design, no copy): a caller overwriting them afterwards "
        "changes the slicer; the probe therefore overwrites operands and results, not index arrays.")
    technique = ("Coq proof (heap model of slicer objects, frame invariant by induction over histories, "
                 "matrix semantics by list induction, CSR index arithmetic via sorted scatter) + "
                 "vm_compute execution correspondence")
    rule = ("random histories over a heap of slicer objects: constructor argument patterns (domain only "
            "/ range only / both / with and without sizes; permutations, injections, restrictions, "
            "repeated domain indices, repeated range indices on dense operands, empty index arrays; "
            "int32/int64 index arrays), transposes, copies, chains of length 2-6, scalar, sparse-matrix "
            "and AdArray pending operands with @ * / ** + -, nested pending operations X op (Y op S) "
            "and (S0 @ S1) @ (S2 @ (c - S0)), applications to vectors, 2-D arrays (C and Fortran order), "
            "sparse matrices (csr incl. unsorted rows, explicit zeros, duplicate columns; csc; coo), "
            "AdArrays and scalars; float / int64 / bool data; all data scaled by exact powers of two "
            "from 2^-60 to 2^70 where the history is linear; every operand is checked to come back "
            "unmodified and is overwritten in place before the result is read (aliasing probe); "
            "re-application of every operand slicer after the chain (reuse); error inputs (no indices, "
            "empty indices without size, indices out of range, length mismatch); non-trivial = at least "
            "one application returned a value; distinct by (history, outputs)")
    trusted = [
        "integer-valued data (exact in binary64, also after power-of-two scaling); pending-operation "
        "arithmetic: integer instance ext_scalarZ/ext_matZ/ext_adZ in the tie, uninterpreted in the theorems",
        "expand_index_pointers = flat_map of ranges (C35 theorem) inside the flat _slice_matrix model",
    ]
    assumptions = [
        "indices and sizes are non-negative",
        "theorem guards of the matrix statements: equally long index arrays within the stated sizes, "
        "distinct range indices, operand with domain_size rows (the composition / reuse theorems have none)",
        "pending operands are python ints, scipy sparse matrices, AdArrays or slicers",
    ]

    # ------------------------------------------------------------------ generation
    def generate(self, rng, n, tier):
        made = 0
        while made < n:
            r = rng.random()
            if r < 0.30:
                c = self._gen_single(rng)
            elif r < 0.60:
                c = self._gen_chain(rng)
            elif r < 0.80:
                c = self._gen_pending(rng)
            elif r < 0.88:
                c = self._gen_errors(rng)
            elif r < 0.91:
                c = self._gen_ad_left(rng)
            elif r < 0.95:
                c = self._gen_overwrite(rng)
            else:
                c = self._gen_random(rng)
            if c is None or not self._vet(c):
                continue
            self._options(rng, c)
            made += 1
            yield c

    def _options(self, rng, case):
        """Representation corners that must not change the result: exact power-of-two scaling
        over many orders of magnitude, dtypes, sparse storage formats, memory order, index
        dtype."""
        prog = case["prog"]
        opts = {}
        rops = [s for s in prog if s[0] == "rop"]
        linear = all(s[2] in ("*", "@") for s in rops)
        vals = [s[2] for s in prog if s[0] == "apply"]
        if linear and rng.random() < 0.35:
            opts["scale"] = rng.choice([-60, -30, -10, -1, 1, 8, 20, 40, 70])
        elif not rops and rng.random() < 0.3:
            if rng.random() < 0.35:
                for v in vals:           # boolean dense operands: data reduced to 0/1
                    if v[0] == "vec":
                        v[1] = [abs(x) % 2 for x in v[1]]
                    elif v[0] == "arr":
                        v[2] = [[abs(x) % 2 for x in r] for r in v[2]]
                opts["dtype"] = "bool"
            else:
                opts["dtype"] = "int"
        clean = all(all(r[i][0] < r[i + 1][0] for i in range(len(r) - 1))
                    for v in vals if v[0] == "csr" for r in v[2])
        if clean and rng.random() < 0.4:
            opts["fmt"] = rng.choice(["csc", "coo"])
        if rng.random() < 0.3:
            opts["order"] = "F"
        if rng.random() < 0.3:
            opts["idx"] = "int32"
        if opts:
            case["opts"] = opts

    def _vet(self, case):
        """Keep the arithmetic inside the integer model: every expected value integral."""
        try:
            for e in _reference(case["prog"]):
                if e is not None and not _all_integral(e[0]):
                    return False
        except Exception:
            return False
        return True

    def _gen_single(self, rng):
        n = rng.randint(1, 6)
        prog = [_slicer_args(rng, n)]
        if rng.random() < 0.15:      # repeated range indices (dense operands only)
            m = rng.randint(1, 4)
            k = rng.randint(2, 5)
            prog = [["new", [rng.randrange(n) for _ in range(k)], [rng.randrange(m) for _ in range(k)], m, n]]
            kinds = ["vec", "arr", "num"]
        else:
            kinds = ["vec", "arr", "csr", "ad", "num"]
        sz = _sizes(prog[0])
        if sz is None:
            return None
        d0 = prog[0][1] if prog[0][1] is not None else list(range(len(prog[0][2])))
        r0 = prog[0][2] if prog[0][2] is not None else list(range(len(prog[0][1])))
        # per object: (domain size, range indices)
        info = [(sz[0], r0)]
        if rng.random() < 0.5:
            prog.append(["T", 0]); info.append((sz[1], d0))
            if rng.random() < 0.4:
                prog.append(["T", 1]); info.append((sz[0], r0))
        if rng.random() < 0.2:
            i = rng.randrange(len(info))
            prog.append(["copy", i]); info.append(info[i])
        for _ in range(rng.randint(1, 4)):
            i = rng.randrange(len(info))
            rows = info[i][0]
            if i == 0 and rng.random() < 0.5:
                rows = max(n, rows)
            if rng.random() < 0.1:
                rows += rng.randint(1, 2)    # longer than domain_size
            ks = kinds if len(set(info[i][1])) == len(info[i][1]) else ["vec", "arr", "num"]
            prog.append(["apply", i, _operand_value(rng, rows, rng.choice(ks))])
        return {"prog": prog}

    def _gen_chain(self, rng):
        L = rng.randint(2, 4) if rng.random() < 0.8 else rng.randint(2, 6)
        dims = [rng.randint(1, 5) for _ in range(L + 1)]     # S_k : R^dims[k+1] -> R^dims[k]
        square = rng.random() < 0.25
        if square:
            dims = [dims[0]] * (L + 1)
        prog = []
        for k in range(L):
            n, m = dims[k + 1], dims[k]
            st = rng.choice(["inject", "both", "perm"] if n == m else ["inject", "both"])
            prog.append(_slicer_args(rng, n, m, st))
            if prog[-1][3] is None or prog[-1][4] is None:
                prog[-1][3], prog[-1][4] = m, n
        nobj = L
        kinds = ["vec", "vec", "arr", "csr", "ad", "num"]
        x = _operand_value(rng, dims[L], rng.choice(kinds))
        # left-associated chain ((S0 @ S1) @ S2) ... ; then apply; then reuse
        cur = 0
        chain_ids = []
        for k in range(1, L):
            prog.append(["mm", cur, k]); cur = nobj; nobj += 1
            chain_ids.append(cur)
            if rng.random() < 0.3:   # use the partial chain as well
                prog.append(["apply", cur, _operand_value(rng, dims[k + 1], rng.choice(kinds))])
        prog.append(["apply", cur, x])
        # reuse of the operands after the chain
        for k in rng.sample(range(L), rng.randint(1, L)):
            prog.append(["apply", k, _operand_value(rng, dims[k + 1], rng.choice(kinds))])
        if rng.random() < 0.5 and L >= 2:
            # a second chain sharing operands
            a = rng.randrange(L - 1)
            prog.append(["mm", a, a + 1]); nobj += 1
            prog.append(["apply", nobj - 1, _operand_value(rng, dims[a + 2], rng.choice(kinds))])
            prog.append(["apply", a + 1, _operand_value(rng, dims[a + 2], rng.choice(kinds))])
        if square and rng.random() < 0.5:
            a = rng.randrange(L)
            prog.append(["mm", a, a]); nobj += 1       # S @ S
            prog.append(["apply", nobj - 1, _operand_value(rng, dims[0], rng.choice(kinds))])
            prog.append(["apply", a, _operand_value(rng, dims[0], rng.choice(kinds))])
        prog.append(["apply", cur, x])
        return {"prog": prog}

    def _gen_ad_left(self, rng):
        """AdArray * S @ x : AdArray.__mul__ hands over to ArraySlicer.__rmul__."""
        n = rng.randint(1, 5)
        prog = [_slicer_args(rng, n, None, rng.choice(["restrict", "perm", "inject", "both", "prolong"]))]
        sz = _sizes(prog[0])
        if sz is None:
            return None
        nc = rng.randint(1, 3)
        m = sz[1]
        operand = ["ad", _vec(rng, m, -4, 4), nc, _rows(rng, m, nc)]
        prog.append(["rop", operand, "*", 0])
        x = ["vec", _vec(rng, sz[0])] if rng.random() < 0.5 else ["ad", _vec(rng, sz[0]), nc, _rows(rng, sz[0], nc)]
        prog += [["apply", 1, x], ["apply", 0, x]]
        if rng.random() < 0.4:      # nested: 2 * (ad * S), S' @ (ad * S)
            prog.append(["rop", ["scalar", rng.choice([2, -3])], rng.choice(["*", "+", "-"]), 1])
            prog.append(["apply", 2, x])
        return {"prog": prog}

    def _gen_pending(self, rng):
        n = rng.randint(1, 5)
        op = rng.choice(OPS)
        prog = []
        if op == "@":
            m = rng.randint(1, 5)
            prog.append(_slicer_args(rng, n, m, rng.choice(["inject", "both"])))
            nr = rng.randint(1, 4)
            operand = ["mat", m, _rows(rng, nr, m, messy=rng.random() < 0.3)]
            kinds = ["vec", "arr", "csr", "ad", "num"]
            x = _operand_value(rng, n, rng.choice(kinds))
        elif op in ("/", "**"):
            # results must stay integral: slicer without zero rows, small exponents / divisors
            d = [rng.randrange(n) for _ in range(rng.randint(1, n + 1))]
            prog.append(["new", d, None, None, n])
            if op == "/":
                c = rng.choice([12, -12, 60, 24, 0])
                x = ["vec", [rng.choice([1, -1, 2, 3, 4, -6, 12]) for _ in range(n)]]
            else:
                c = rng.choice([2, -2, 3, 1, 0, -1])
                x = ["vec", [rng.randint(0, 6) for _ in range(n)]]
            if rng.random() < 0.3:
                x = ["arr", 2, [[v, v] for v in x[1]]]
            operand = ["scalar", c]
        else:
            prog.append(_slicer_args(rng, n))
            operand = ["scalar", rng.choice([2, 3, -1, -4, 5, 1])]
            x = _operand_value(rng, n, rng.choice(["vec", "arr", "csr", "ad", "num"]))
            if op in ("+", "-") and x[0] == "csr" and rng.random() < 0.7:
                x = _operand_value(rng, n, "vec")
        sz = _sizes(prog[0])
        if sz is None:
            return None
        prog.append(["rop", operand, op, 0])
        prog.append(["apply", 1, x])
        prog.append(["apply", 0, x])                          # the original is unchanged
        if rng.random() < 0.5 and op in ("*", "+", "-", "@"):
            # A op S0 @ S1 @ x  (python evaluates ((A op S0) @ S1) @ x)
            k = rng.randint(1, 5)
            prog.append(_slicer_args(rng, k, sz[0], rng.choice(["inject", "both"])))
            prog.append(["mm", 1, 2])
            y = _operand_value(rng, k, rng.choice(["vec", "arr", "ad", "num"]))
            prog.append(["apply", 3, y])
            prog.append(["apply", 2, y])
            prog.append(["apply", 1, x])
        return {"prog": prog}

    def _gen_errors(self, rng):
        n = rng.randint(1, 4)
        kind = rng.choice(["none", "empty", "dom_oob", "rng_oob", "len", "bcast", "short", "empty_ok"])
        if kind == "none":
            return {"prog": [["new", None, None, rng.choice([None, 2]), rng.choice([None, 3])],
                             _slicer_args(rng, n), ["apply", 0, _operand_value(rng, n, "vec")]]}
        if kind == "empty":
            s = rng.choice([["new", [], None, None, 3], ["new", None, [], None, None],
                            ["new", [], [], 2, None], ["new", [], [], None, 2]])
            return {"prog": [s]}
        if kind == "empty_ok":
            s = rng.choice([["new", [], None, 2, 3], ["new", None, [], 2, 3], ["new", [], [], 0, 3]])
            return {"prog": [s, ["apply", 0, _operand_value(rng, 3)], ["T", 0],
                             ["apply", 1, _operand_value(rng, s[3], rng.choice(["vec", "arr", "num"]))]]}
        if kind == "dom_oob":
            s = ["new", [0, n + 1], rng.choice([None, [1, 0]]), None, None]
            return {"prog": [s, ["apply", 0, _operand_value(rng, n + 1)]]}
        if kind == "rng_oob":
            s = ["new", [0, n - 1], [0, 3], 3, n]
            return {"prog": [s, ["apply", 0, _operand_value(rng, n)]]}
        if kind == "len":
            s = ["new", [0, 0, 0][:rng.randint(2, 3)], [0, 1, 2, 3][:rng.choice([1, 4])], 4, n]
            return {"prog": [s, ["apply", 0, _operand_value(rng, n, rng.choice(["vec", "arr", "num"]))]]}
        if kind == "bcast":
            s = ["new", [n - 1], [2, 0, 1], rng.choice([3, 5]), n]
            return {"prog": [s, ["apply", 0, _operand_value(rng, n, rng.choice(["vec", "arr", "num"]))]]}
        s = _slicer_args(rng, n + 1, None, "perm")
        return {"prog": [s, ["apply", 0, _operand_value(rng, n, rng.choice(["vec", "arr", "csr", "ad"]))]]}

    def _gen_overwrite(self, rng):
        """X op (Y op' S): S already carries a pending operand (open finding)."""
        n = rng.randint(2, 4)
        prog = [_slicer_args(rng, n, n, "perm"), _slicer_args(rng, n, n, "perm"),
                _slicer_args(rng, n, n, "perm")]
        for s in prog:
            s[3], s[4] = n, n
        x = ["vec", [10 * (i + 1) for i in range(n)]]
        if rng.random() < 0.5:
            prog += [["mm", 1, 2], ["mm", 0, 3], ["apply", 4, x]]          # S0 @ (S1 @ S2)
        elif rng.random() < 0.5:
            prog += [["rop", ["scalar", 3], "*", 2], ["mm", 0, 3], ["apply", 4, x]]   # S0 @ (3 * S2)
        elif rng.random() < 0.5:
            prog += [["rop", ["scalar", 3], "+", 2], ["rop", ["scalar", 2], "*", 3], ["apply", 4, x]]
        else:
            # (S0 @ S1) @ (S2 @ (2 - S0)) and reuse of every intermediate
            prog += [["mm", 0, 1], ["rop", ["scalar", 2], "-", 0], ["mm", 2, 4], ["mm", 3, 5],
                     ["apply", 6, x], ["apply", 5, x], ["apply", 4, x], ["apply", 3, x], ["apply", 6, x]]
        if rng.random() < 0.5:
            prog += [["copy", len([q for q in prog if q[0] != "apply"]) - 1]]
            prog += [["apply", len([q for q in prog if q[0] != "apply"]) - 1, x]]
        return {"prog": prog}

    def _gen_random(self, rng):
        n = rng.randint(1, 4)
        prog = []
        nobj = 0
        dd, dr = [], []       # repeated domain / range indices somewhere in the object's chain
        for _ in range(rng.randint(2, 3)):
            prog.append(_slicer_args(rng, n, n, rng.choice(["perm", "inject", "both"])))
            prog[-1][3], prog[-1][4] = n, n
            dd.append(len(set(prog[-1][1])) != len(prog[-1][1])); dr.append(False)
            nobj += 1
        pend = [False] * nobj
        for _ in range(rng.randint(2, 8)):
            r = rng.random()
            if r < 0.15:
                i = rng.randrange(nobj)
                if pend[i]:
                    continue
                prog.append(["T", i]); pend.append(False); nobj += 1
                dd.append(dr[i]); dr.append(dd[i])
            elif r < 0.25:
                i = rng.randrange(nobj)
                prog.append(["copy", i]); pend.append(pend[i]); nobj += 1
                dd.append(dd[i]); dr.append(dr[i])
            elif r < 0.5:
                i, j = rng.randrange(nobj), rng.randrange(nobj)
                prog.append(["mm", i, j]); pend.append(True); nobj += 1
                dd.append(dd[i] or dd[j]); dr.append(dr[i] or dr[j])
            elif r < 0.6:
                j = rng.randrange(nobj)
                prog.append(["rop", ["scalar", rng.choice([2, -1, 3])], rng.choice(["*", "+", "-"]), j])
                pend.append(True); nobj += 1
                dd.append(dd[j]); dr.append(dr[j])
            else:
                i = rng.randrange(nobj)
                kinds = ["vec", "arr", "num"] if dr[i] else ["vec", "arr", "csr", "ad", "num"]
                prog.append(["apply", i, _operand_value(rng, n, rng.choice(kinds))])
        prog.append(["apply", rng.randrange(nobj), _operand_value(rng, n, "vec")])
        return {"prog": prog}

    # ------------------------------------------------------------------ implementation
    def run_impl(self, case):
        opts = case.get("opts") or {}
        alias = None
        flat = []
        idt = {"int32": np.int32, "int64": np.int64}[opts.get("idx", "int64")]
        objs = []     # distinct python objects, in order of first appearance
        refs = []     # refs[k] = object returned by the k-th successful slicer-valued call
        outs = []
        arr = lambda l: np.array(l, dtype=idt)
        for kst, s in enumerate(case["prog"]):
            k = s[0]
            try:
                if k == "new":
                    o = ArraySlicer(
                        domain_indices=None if s[1] is None else arr(s[1]),
                        range_indices=None if s[2] is None else arr(s[2]),
                        range_size=s[3], domain_size=s[4])
                elif k == "T":
                    o = refs[s[1]].T
                elif k == "copy":
                    o = refs[s[1]].copy()
                elif k == "mm":
                    o = refs[s[1]] @ refs[s[2]]
                elif k == "rop":
                    if s[1][0] == "scalar":
                        A = int(s[1][1])
                    elif s[1][0] == "ad":
                        A = pp.ad.AdArray(np.array(s[1][1], dtype=float), _csr(s[1][2], s[1][3]))
                    else:
                        A = _csr(s[1][1], s[1][2])
                    S = refs[s[3]]  # noqa: F841
                    o = eval(f"A {s[2]} S")
                else:
                    S = refs[s[1]]
                    x = _py_value(s[2], opts)
                    before = [b.copy() for b in _parts(x)]
                    try:
                        with np.errstate(all="ignore"):
                            r = S @ x
                    finally:
                        # aliasing probe: the operand must come back untouched ...
                        after = _parts(x)
                        if any(not np.array_equal(a, b) for a, b in zip(before, after)) and alias is None:
                            alias = f"statement {kst}: S @ x modified its operand"
                        # ... and the result must not share memory with it
                        for b in after:
                            if b.dtype == bool:
                                b[...] = ~b
                            else:
                                b[...] = b * 3 + 7
                    outs.append(["val", _canon(r, opts.get("scale", 0))])
                    # raw storage of a sliced sparse matrix (general path of _slice_matrix)
                    if sps.issparse(r) and not S._is_onto and not getattr(S, "_pending", [1]) \
                            and opts.get("fmt", "csr") == "csr":
                        inv = 2.0 ** (-opts.get("scale", 0))
                        flat.append([kst, [i for i, q in enumerate(objs) if q is S][0],
                                     [int(i) for i in r.indptr], [int(i) for i in r.indices],
                                     [float(v) * inv for v in r.data]])
                    continue
                if not isinstance(o, ArraySlicer):
                    raise TypeError(f"{k} returned {type(o)}")
                refs.append(o)
                # a returned object that already exists (in-place variant) keeps its id
                for i, q in enumerate(objs):
                    if q is o:
                        outs.append(["new", i])
                        break
                else:
                    objs.append(o)
                    outs.append(["new", len(objs) - 1])
            except ValueError:
                outs.append(["err", "ValueErr"])
            except IndexError:
                outs.append(["err", "IndexErr"])
            except (NotImplementedError, TypeError):
                if k != "apply":
                    raise
                outs.append(["err", "Unsupported"])
            except RecursionError:
                outs.append(["err", "FuelErr"])
        dump = []
        for o in objs:
            if hasattr(o, "_pending"):
                pairs = list(o._pending)
            else:   # trees before the pending list: a single (operand, operation) pair
                pairs = [] if o._pending_operand is None else [(o._pending_operand, o._pending_operation)]
            pend = []
            for operand, operation in pairs:
                pk, pid = 1, 0
                if isinstance(operand, ArraySlicer):
                    pk = 3
                    pid = [i for i, q in enumerate(objs) if q is operand][0]
                elif sps.issparse(operand):
                    pk = 2
                elif isinstance(operand, pp.ad.AdArray):
                    pk = 4
                pend.append([pk, pid, OPS.index(operation)])
            dump.append({
                "dom": [int(i) for i in o._domain_indices], "rng": [int(i) for i in o._range_indices],
                "rsize": int(o._range_size), "dsize": int(o._domain_size),
                "onto": bool(o._is_onto), "transposed": bool(o._is_transposed), "pend": pend})
        return {"outs": outs, "dump": dump, "alias": alias, "flat": flat}

    # ------------------------------------------------------------------ oracle
    def _verdicts(self, case, res):
        bad = []
        exp = _reference(case["prog"])
        for k, (s, e, o) in enumerate(zip(case["prog"], exp, res["outs"])):
            if e is None:
                continue
            e, overw = e
            tag = KNOWN_KEY if overw else "slicer-mismatch"
            if o[0] != "val":
                bad.append((tag, f"{tag}: statement {k} {s[:2]} raised {o} but the explicit "
                                 f"matrices give {[x.tolist() for x in e[1:]]}"))
                continue
            got = _dense_out(o[1])
            if not _same(got, e):
                bad.append((tag, f"{tag}: statement {k} (apply object {s[1]}) returned "
                                 f"{[x.tolist() for x in got[1:]]}, the explicit projection matrices "
                                 f"give {[x.tolist() for x in e[1:]]}"))
        return bad

    def oracle(self, case, res):
        if res.get("alias"):
            return "aliasing: " + res["alias"]
        bad = self._verdicts(case, res)
        if not bad:
            return None
        for tag, why in bad:
            if tag != KNOWN_KEY:
                return why
        return bad[0][1]

    def finding_key(self, case, res, why):
        if why.startswith("aliasing"):
            return "aliasing"
        return KNOWN_KEY if why.startswith(KNOWN_KEY) else "slicer-mismatch"

    # ------------------------------------------------------------------ tie
    def coq_case(self, case, res):
        strict = not any(s[0] == "rop" for s in case["prog"])
        try:
            extra = ""
            for kst, oid, ip, ind, dat in res.get("flat", []):
                d = res["dump"][oid]
                if len(set(d["rng"])) != len(d["rng"]) or len(d["rng"]) != len(d["dom"]):
                    continue
                v = case["prog"][kst][2]
                rows = v[2]
                A = (f"(mkcsr {cnat(len(rows))} {cnat(v[1])} "
                     f"{_nats(list(np.cumsum([0] + [len(r) for r in rows])))} "
                     f"{_nats([p[0] for r in rows for p in r])} {_zs([p[1] for r in rows for p in r])})")
                S = (f"(mkS {_nats(d['dom'])} {_nats(d['rng'])} {cnat(d['rsize'])} {cnat(d['dsize'])} "
                     f"{cbool(d['onto'])} {cbool(d['transposed'])} [])")
                extra += f" && agree_flat {S} {A} {_nats(ip)} {_nats(ind)} {_zs([_int(x) for x in dat])}"
            return (f"(agree {cbool(strict)} {clist(case['prog'], _stmt)} "
                    f"{clist(res['outs'], _out)} {clist(res['dump'], _dump)}{extra})%bool")
        except NonInteger:
            return "false"

    def coq_diag(self, case, res):
        try:
            return f"run ext_scalarZ ext_matZ [] {clist(case['prog'], _stmt)}"
        except NonInteger:
            return None

    def nontrivial(self, case, res):
        return any(o[0] == "val" for o in res["outs"])

    def shrink(self, case, still_fails):
        prog = list(case["prog"])
        changed = True
        while changed:
            changed = False
            for i in range(len(prog) - 1, -1, -1):
                if prog[i][0] != "apply" and i != len(prog) - 1:
                    continue
                c = {"prog": prog[:i] + prog[i + 1:]}
                if c["prog"] and still_fails(c):
                    prog = c["prog"]
                    changed = True
                    break
        return {"prog": prog}


PROP = C36()
