"""C34 — uniquify_point_set (norm-clustered uniquification), ismember_columns, intersect_sets."""
import itertools

import numpy as np

from harness.core import Prop, cz, cnat, cbool, clist

import porepy as pp
from porepy.utils import array_operations as ao


def _layout(arr, layout):
    """C-contiguous, Fortran-ordered, or a non-contiguous strided view holding the same data."""
    if layout == "F":
        return np.asfortranarray(arr)
    if layout == "view" and arr.ndim == 2:
        big = np.zeros((2 * arr.shape[0] + 1, 2 * arr.shape[1] + 1), dtype=arr.dtype)
        big[1::2, 1::2] = arr
        return big[1::2, 1::2]
    if layout == "view":
        big = np.zeros(2 * arr.shape[0] + 1, dtype=arr.dtype)
        big[1::2] = arr
        return big[1::2]
    return np.ascontiguousarray(arr)


def _pt(p):
    return clist(p, cz)


def _d2(a, b):
    return sum((x - y) ** 2 for x, y in zip(a, b))


def _close_matrix(pts, t):
    n = len(pts)
    return [[_d2(pts[i], pts[j]) < t * t for j in range(n)] for i in range(n)]


def _is_equivalence(cl):
    n = len(cl)
    for i in range(n):
        for j in range(n):
            if cl[i][j]:
                for k in range(n):
                    if cl[j][k] and not cl[i][k]:
                        return False
    return True


def _expected(pts, t):
    """Brute force: first-occurring member of each cluster, in order of first occurrence."""
    n = len(pts)
    rep = [min(j for j in range(n) if _d2(pts[j], pts[i]) < t * t) for i in range(n)]
    n2o = sorted(set(rep))
    pos = {m: k for k, m in enumerate(n2o)}
    return [list(pts[m]) for m in n2o], n2o, [pos[r] for r in rep]


class C34(Prop):
    id = "C34"
    props_file = "Props/C34.v"
    preamble = ("From Coq Require Import List ZArith Bool.\nImport ListNotations.\n"
                "From PP Require Import Model.C34 Model.C34b.\n")
    n_cases = (400, 12000)
    design_ref = "DESIGN.md §5 C34"
    level_text = (
        "Coq theorems over faithful executable transcriptions (exact integer arithmetic, sqrt "
        "eliminated by squaring).  uniquify_point_set / _unique_points_in_cluster: the norm-boundary "
        "lemma (reverse triangle inequality via Cauchy-Schwarz); C34_one_per_cluster_partial(_own_sort) "
        "= the whole property (points at new_2_old, new_2_old increasing, every kept index the first "
        "member of its cluster, old_2_new linking every point to its cluster) for every "
        "well-separated input, tol, dimension and norm-sorting permutation (also for the model's own "
        "stable argsort, whose sortedness is proved) UNDER THE GUARD that no norm-cluster boundary "
        "separates two close points; C34_one_per_cluster_refuted = without the guard the code "
        "violates the property (open known finding); C34_one_per_cluster_chained(_own_sort) = for the "
        "chained variant of the clustering the guard is a theorem.  ismember_columns: for any integer "
        "columns (negative entries included), both values of sort and ANY admissible result of the "
        "internal np.argsort, membership equals brute-force column comparison and every returned "
        "index points to an equal column of b (C34_ismember_bruteforce).  intersect_sets: for any "
        "ball query meeting its contract, a_in_b / ia / ib equal brute-force comparison of all column "
        "pairs and are sorted and duplicate free (C34_intersect_bruteforce); under the well-separated "
        "guard (columns of b more than 2 tol apart) every column of a has at most one match "
        "(C34_intersect_single_match).  All three models are tied to the code on every run (Coq "
        "compares every output; for ismember_columns the argsort result captured from numpy is "
        "checked against its contract inside Coq); the property is also evaluated on the "
        "implementation's outputs by an exact brute-force oracle.")
    level_note = (
        "Trusted: Coq kernel + vm_compute; harness; float evaluation of the comparisons equals "
        "their exact value on the generated data (coordinates integer/2^k: |x| <= 640*2^-k, or "
        "38-bit integers * 2^-26 near 2^10 with tol 2^-20 where coordinate differences and their "
        "squares are exact and every norm comparison has a margin >= 2^20 ulp); numba's argsort in "
        "uniquify_point_set is some norm-sorting permutation (theorems hold for every such "
        "permutation; correspondence compared where the result does not depend on the order of "
        "equal norms); scipy's KD-tree ball query meets query_contract (exactly the columns within "
        "tol, each once; tol is a half-integer on integer columns so no distance equals tol); "
        "np.unique(axis=1) = duplicate-free lexicographically sorted columns (only duplicate "
        "freeness/same members enter the theorems).  The code violates the uniquify property on "
        "the unchanged tree (open finding).")
    technique = ("Coq proof (reverse triangle inequality in squared form via Cauchy-Schwarz, chained "
                 "clustering never separates close points, loop invariants of the in-cluster merge "
                 "and of the cluster assembly, sortedness of the stable argsort; injectivity of the "
                 "np.unique inverse index + searchsorted on a sorted permutation; set "
                 "characterisation of the intersection vectors) + vm_compute execution "
                 "correspondence + exact brute-force oracle")
    rule = ("uniquify: point sets built from clusters (diameter <= t/2) placed along the 2*dim axis "
            "directions and on lattice directions at norms R + m*t +- small, so that cluster norms "
            "are within a few tol of each other and clusters straddle the norm-cluster boundaries; "
            "20% LARGE-coordinate sets (integers*2^-26 near 2^10, tol 2^-20, near-duplicates 1..18 "
            "units apart that are not bit-identical, equal-norm clusters in different directions, "
            "clusters 2^-10..2^-6 apart); members shuffled; unconstrained small-integer point sets "
            "(chains allowed, tie only); dims 1-3; the point array is float64, float32 (only sets "
            "whose norm comparisons are decided with >= 20% of tol to spare), int64 or int32 LATTICE "
            "points with tol = t/2^k both below (k > 0) and far above (k = 0, t up to 64) the lattice "
            "spacing, in C order, Fortran order or as a non-contiguous strided view; ismember_columns "
            "(int64/int32) and intersect_sets (float64/float32/int64/int32) in the same three "
            "layouts; ismember_columns: SIGNED integer columns (ranges "
            "such as [-3,3], [-7,-2], [-1,5]), deliberate pairs of different columns that collide "
            "under positional encodings with base max+1 / max-min+1 in either digit order, repeated "
            "columns in b, sort True/False, 1-d arrays; intersect_sets: signed integer columns, "
            "half-integer tolerance, exact copies across the sets, empty b; non-trivial = at least "
            "two points merged and two clusters / some but not all members; distinct by (case, output)")
    trusted = ["exactness of the float comparisons on dyadic data of bounded size (see level_note)",
               "sqrt device: |n1-n2| > t  <=>  L > 0 and L^2 > 4 t^2 n1^2, L = n2^2 - n1^2 - t^2",
               "np.argsort(ind_b) inside ismember_columns: its captured result is checked in Coq "
               "against sort_contract on every case (boolean checker sort_ind_ok, not proved "
               "equivalent to the Prop contract)",
               "scipy KDTree.query_ball_tree meets query_contract"]
    assumptions = ["tol > 0 passed as a Python float; all points / columns of one call have the same "
                   "dimension; integer / float32 arrays hold values that are exact in their dtype",
                   "oracle demands the cluster property only when every cluster has diameter <= tol/2 "
                   "and different clusters are >= 2 tol apart (the theorems need only < tol / >= tol)"]

    # ------------------------------------------------------------------ generation
    def _gen_large(self, rng):
        """Near-duplicates (not bit-identical) at coordinates ~2^10 with tol = 2^-20:
        coordinates are integers * 2^-26 (38 significant bits: exact in binary64, as are all
        coordinate differences and their squares).  Cluster centres have either exactly the
        same norm (axis directions / sign flips) or norms >= 2^-3 apart, so that every norm
        comparison of the code is decided with a margin >= 2^20 ulp."""
        dim = rng.choice([1, 2, 2, 3, 3])
        k, t, r = 26, 64, 9          # diameter <= 2*9*sqrt(3) < t/2
        unit = 1 << 26
        R = rng.choice([1 << 36, 3 << 35, 1000 * unit, 1023 * unit + 12345])
        dirs = [(ax, sg) for ax in range(dim) for sg in (1, -1)]
        rng.shuffle(dirs)
        centres = []
        for (ax, sg) in dirs[:rng.randint(1, len(dirs))]:
            c = [0] * dim
            c[ax] = sg * (R + rng.choice([0, 0, 0, 1, 2, 5]) * (unit >> 3))
            centres.append(c)
        if dim >= 2 and rng.random() < 0.5:
            s = R // 5 + (unit >> 2)
            c = [0] * dim
            c[0], c[1] = 3 * s * rng.choice([1, -1]), 4 * s
            centres.append(c)
        if rng.random() < 0.5:      # a second cluster 2^-10 .. 2^-6 away from the first centre
            c = list(centres[0])
            c[rng.randrange(dim)] += rng.choice([1 << 16, 1 << 18, -(1 << 20)])
            centres.append(c)
        pts = []
        for c in centres:
            for _ in range(rng.randint(1, 4)):
                pts.append([x + rng.randint(-r, r) for x in c])
            if rng.random() < 0.3:
                pts.append(list(pts[-1]))       # a bit-identical twin as well
        rng.shuffle(pts)
        return {"kind": "uniq", "dim": dim, "k": k, "t": t, "pts": pts}

    def _gen_uniq(self, rng, tier):
        if rng.random() < 0.2:
            return self._gen_large(rng)
        dim = rng.choice([1, 2, 2, 3, 3])
        k = rng.choice([0, 0, 3, 10])
        mode = rng.random()
        if mode < 0.75:
            t = rng.choice([4, 8, 16, 16, 32, 64])
            r = max(1, t // 4) if dim == 1 else max(1, int(t / (4 * dim ** 0.5)))
            R = rng.randint(3 * t, 8 * t)
            dirs = []
            for ax in range(dim):
                for sg in (1, -1):
                    dirs.append((ax, sg))
            rng.shuffle(dirs)
            ncl = rng.randint(1, len(dirs))
            pts = []
            centres = []
            for (ax, sg) in dirs[:ncl]:
                m = rng.choice([0, 0, 1, 1, 1, 2, 3])
                c = [0] * dim
                c[ax] = sg * (R + m * t + rng.choice([-1, 0, 0, 1]))
                if dim > 1 and rng.random() < 0.3:
                    c[(ax + 1) % dim] = rng.randint(-t, t)
                centres.append(c)
            # optional lattice directions with the same norm as an axis point (3-4-5 style)
            if dim >= 2 and rng.random() < 0.4:
                a, b = rng.choice([(3, 4), (5, 12), (8, 15)])
                s = max(1, (R + t) // int((a * a + b * b) ** 0.5))
                c = [0] * dim
                c[0], c[1] = a * s, b * s
                centres.append(c)
            for c in centres:
                for _ in range(rng.randint(1, 4)):
                    p = list(c)
                    style = rng.random()
                    for ax in range(dim):
                        if style < 0.5:
                            p[ax] += rng.randint(-r // 2, r // 2) if r >= 2 else 0
                        elif c[ax] != 0:
                            p[ax] += rng.choice([-1, 1]) * rng.randint(0, max(1, r // 2))
                    pts.append(p)
                if rng.random() < 0.3:
                    pts.append(list(c))
            rng.shuffle(pts)
        else:
            t = rng.choice([1, 2, 3, 5])
            n = rng.randint(0, 9)
            hi = rng.choice([2, 4, 8])
            pts = [[rng.randint(-hi, hi) for _ in range(dim)] for _ in range(n)]
        return {"kind": "uniq", "dim": dim, "k": k, "t": t, "pts": pts}

    def generate(self, rng, n, tier):
        for _ in range(n):
            r = rng.random()
            if r < 0.7:
                yield self._dress_uniq(rng, self._gen_uniq(rng, tier))
            elif r < 0.85:
                c = self._gen_ismember(rng)
                c["dtype"] = rng.choice(["int64", "int64", "int32"])
                c["layout"] = rng.choice(["C", "F", "view"])
                yield c
            else:
                nd = rng.choice([1, 2, 3])
                lo, hi = rng.choice([(0, 2), (0, 3), (-2, 2), (-3, 3), (-5, 1)])
                a = [[rng.randint(lo, hi) for _ in range(nd)] for _ in range(rng.randint(1, 7))]
                b = [[rng.randint(lo, hi) for _ in range(nd)] for _ in range(rng.randint(0, 7))]
                if b and rng.random() < 0.4:       # exact copies across the two sets
                    a[rng.randrange(len(a))] = list(rng.choice(b))
                yield {"kind": "intersect", "nd": nd, "a": a, "b": b,
                       "tol2": rng.choice([1, 1, 3, 5]),   # tol = tol2 / 2  (never a distance)
                       "dtype": rng.choice(["float64", "float64", "float32", "int64", "int32"]),
                       "layout": rng.choice(["C", "F", "view"])}

    @staticmethod
    def _float32_robust(pts, t):
        """No norm comparison of the code is decided within 20% of tol (float32 norms carry a
        relative error of ~1e-7, the exact model none)."""
        ns = sorted(sum(x * x for x in p) ** 0.5 for p in pts)
        for i in range(len(ns)):
            for j in range(i + 1, len(ns)):
                d = ns[j] - ns[i]
                if 0.8 * t <= d <= 1.2 * t:
                    return False
        return True

    def _dress_uniq(self, rng, case):
        """Choose the dtype / memory layout of the point array.  Integer dtypes: the array
        holds the lattice points pts / 2^k exactly and tol = t / 2^k, i.e. tolerances below
        (k > 0, small t) and well above (k = 0) the lattice spacing."""
        case["dtype"], case["layout"] = "float64", rng.choice(["C", "F", "view"])
        if case["k"] == 26:
            return case
        r = rng.random()
        if r < 0.35:
            return case
        if r < 0.75:
            case["dtype"] = "int64" if r < 0.6 else "int32"
            case["layout"] = rng.choice(["C", "F"] if r < 0.6 else ["C", "view"])
            kk = rng.choice([0, 0, 0, 1, 3])
            case["k"] = kk
            case["pts"] = [[x << kk if x >= 0 else -((-x) << kk) for x in p] for p in case["pts"]]
            return case
        if self._float32_robust(case["pts"], case["t"]):
            case["dtype"] = "float32"
            case["layout"] = rng.choice(["C", "F"])
        return case

    def _gen_ismember(self, rng):
        """Signed integer columns; deliberate pairs of DIFFERENT columns that collide under
        positional encodings sum(c[i] * B**i) / sum(c[i] * B**(nd-1-i)) with B = max+1 or
        B = max-min+1 (only injective for entries in [0, B))."""
        nd = rng.choice([1, 2, 2, 3, 3])
        lo, hi = rng.choice([(0, 1), (0, 3), (-1, 1), (-2, 2), (-3, 3), (-4, 1), (-1, 5), (-7, -2)])
        one_d = nd == 1 and rng.random() < 0.5
        col = lambda: [rng.randint(lo, hi) for _ in range(nd)]
        a = [col() for _ in range(rng.randint(1, 8))]
        b = [col() for _ in range(rng.randint(1, 10))]
        if nd >= 2 and rng.random() < 0.6:
            allv = [x for c in a + b for x in c]
            for B in {max(allv) + 1, max(allv) - min(allv) + 1}:
                if B <= 0:
                    continue
                src = list(rng.choice(a + b))
                i = rng.randrange(nd - 1)
                for (d0, d1) in ((B, -1), (-B, 1)):
                    for (p, q) in ((i, i + 1), (i + 1, i)):
                        tw = list(src)
                        tw[p] += d0
                        tw[q] += d1
                        if rng.random() < 0.5:
                            # keep the twin inside the value range so that B is unchanged
                            if not all(min(allv) <= x <= max(allv) for x in tw):
                                continue
                        (a if rng.random() < 0.5 else b).insert(0, tw)
                        (b if src in a else a).append(list(src))
            a, b = a[:10], b[:12]
        if rng.random() < 0.3:
            a[rng.randrange(len(a))] = list(rng.choice(b))
        return {"kind": "ismember", "nd": nd, "one_d": one_d, "a": a, "b": b,
                "sort": rng.random() < 0.5}

    # ------------------------------------------------------------------ implementation
    def run_impl(self, case):
        kind = case["kind"]
        if kind == "uniq":
            sc = 2.0 ** (-case["k"])
            dim = case["dim"]
            dt = np.dtype(case.get("dtype", "float64"))
            base = np.array(case["pts"], dtype=np.int64).reshape((-1, dim)).T
            if dt.kind == "i":
                assert np.all(base % (1 << case["k"]) == 0)
                arr = (base // (1 << case["k"])).astype(dt)
                assert np.all(arr.astype(np.int64) * (1 << case["k"]) == base)
            else:
                arr = (base.astype(np.float64) * sc).astype(dt)
                assert np.all(arr.astype(np.float64) / sc == base), "not representable"
            arr = _layout(arr, case.get("layout", "C"))
            u, n2o, o2n = pp.array_operations.uniquify_point_set(arr, float(case["t"] * sc))
            ui = np.asarray(u).astype(np.float64) / sc
            assert np.all(ui == np.round(ui))
            return {"u": [[int(x) for x in ui[:, j]] for j in range(ui.shape[1])],
                    "n2o": [int(x) for x in n2o], "o2n": [int(x) for x in o2n]}
        if kind == "ismember":
            dt = np.dtype(case.get("dtype", "int64"))
            if case["one_d"]:
                a = np.array([c[0] for c in case["a"]], dtype=dt)
                b = np.array([c[0] for c in case["b"]], dtype=dt)
            else:
                a = np.array(case["a"], dtype=dt).T
                b = np.array(case["b"], dtype=dt).T
            a = _layout(a, case.get("layout", "C"))
            b = _layout(b, case.get("layout", "C"))
            # capture what np.argsort returns inside the call (numpy's default sort is not
            # stable: which twin of a repeated column of b is found is not specified)
            calls = []
            orig = np.argsort

            def spy(*args, **kw):
                r = orig(*args, **kw)
                calls.append(r)
                return r

            np.argsort = spy
            try:
                ismem, ia = ao.ismember_columns(a, b, sort=case["sort"])
            finally:
                np.argsort = orig
            assert calls and len(calls[-1]) == len(case["b"]), "np.argsort call not captured"
            return {"ismem": [bool(x) for x in ismem], "ia": [int(x) for x in ia],
                    "sort_ind": [int(x) for x in calls[-1]]}
        nd = case["nd"]
        dt = np.dtype(case.get("dtype", "float64"))
        a = _layout(np.array(case["a"], dtype=dt).reshape((-1, nd)).T, case.get("layout", "C"))
        b = _layout(np.array(case["b"], dtype=dt).reshape((-1, nd)).T, case.get("layout", "C"))
        ia, ib, a_in_b, inter = ao.intersect_sets(a, b, tol=case["tol2"] / 2.0)
        return {"ia": [int(x) for x in ia], "ib": [int(x) for x in ib],
                "a_in_b": [bool(x) for x in a_in_b],
                "inter": [sorted(int(x) for x in l) for l in inter]}

    # ------------------------------------------------------------------ property oracle
    def _well_separated(self, case, margin=True):
        pts, t = case["pts"], case["t"]
        n = len(pts)
        cl = _close_matrix(pts, t)
        if not _is_equivalence(cl):
            return False
        if margin:
            for i in range(n):
                for j in range(n):
                    d2 = _d2(pts[i], pts[j])
                    if cl[i][j] and 4 * d2 > t * t:
                        return False
                    if not cl[i][j] and d2 < 4 * t * t:
                        return False
        return True

    def oracle(self, case, res):
        kind = case["kind"]
        if kind == "uniq":
            if not case["pts"] or not self._well_separated(case):
                return None
            u, n2o, o2n = _expected(case["pts"], case["t"])
            if res["n2o"] != n2o:
                return (f"representatives {res['n2o']} are not the first members of the "
                        f"clusters in order of first occurrence {n2o}")
            if res["u"] != u:
                return f"unique points {res['u']} are not the points at {n2o}"
            if res["o2n"] != o2n:
                return f"old_2_new {res['o2n']} does not link every point to its cluster {o2n}"
            return None
        if kind == "ismember":
            key = (lambda c: tuple(sorted(c))) if (case["sort"] and not case["one_d"]) else tuple
            bk = [key(c) for c in case["b"]]
            exp = [key(c) in bk for c in case["a"]]
            if res["ismem"] != exp:
                return f"ismember_columns membership {res['ismem']} differs from brute force {exp}"
            mem = [key(c) for c, m in zip(case["a"], exp) if m]
            if len(res["ia"]) != len(mem):
                return f"ismember_columns returned {len(res['ia'])} indices for {len(mem)} members"
            for kk, j in zip(mem, res["ia"]):
                if not (0 <= j < len(bk)) or bk[j] != kk:
                    return f"ismember_columns index {j} does not point to a twin of {list(kk)}"
            return None
        tol2 = case["tol2"]
        inter = [[j for j, q in enumerate(case["b"]) if 4 * _d2(p, q) <= tol2 * tol2]
                 for p in case["a"]]
        if res["inter"] != inter:
            return f"intersect_sets matches {res['inter']} differ from brute force {inter}"
        a_in_b = [bool(l) for l in inter]
        if res["a_in_b"] != a_in_b:
            return f"intersect_sets a_in_b {res['a_in_b']} differs from brute force {a_in_b}"
        if res["ia"] != [i for i, m in enumerate(a_in_b) if m]:
            return f"intersect_sets ia {res['ia']} differs from brute force"
        if res["ib"] != sorted({j for l in inter for j in l}):
            return f"intersect_sets ib {res['ib']} differs from brute force"
        return None

    # ------------------------------------------------------------------ tie
    def coq_case(self, case, res):
        if case["kind"] == "ismember":
            return (f"agree_ismember {cbool(case['sort'] and not case['one_d'])} "
                    f"{clist(case['a'], _pt)} {clist(case['b'], _pt)} "
                    f"{clist(res['sort_ind'], cnat)} "
                    f"{clist(res['ismem'], cbool)} {clist(res['ia'], cnat)}")
        if case["kind"] == "intersect":
            return (f"agree_intersect {cz(case['tol2'])} {clist(case['a'], _pt)} "
                    f"{clist(case['b'], _pt)} {clist(res['ia'], cnat)} {clist(res['ib'], cnat)} "
                    f"{clist(res['a_in_b'], cbool)} "
                    f"{clist(res['inter'], lambda l: clist(l, cnat))}")
        pts = case["pts"]
        norms = [sum(x * x for x in p) for p in pts]
        if len(set(norms)) != len(norms) and not self._well_separated(case, margin=False):
            return None     # result may depend on how argsort orders equal norms
        return (f"agree {cz(case['t'])} {clist(pts, _pt)} {clist(res['u'], _pt)} "
                f"{clist(res['n2o'], cnat)} {clist(res['o2n'], cnat)}")

    def coq_diag(self, case, res):
        if case["kind"] == "ismember":
            return (f"ismember_with {cbool(case['sort'] and not case['one_d'])} "
                    f"{clist(case['a'], _pt)} {clist(case['b'], _pt)} "
                    f"{clist(res['sort_ind'], cnat)}")
        if case["kind"] == "intersect":
            return (f"intersect (bf_query {cz(case['tol2'])}) {clist(case['a'], _pt)} "
                    f"{clist(case['b'], _pt)}")
        return f"uniquify {cz(case['t'])} {clist(case['pts'], _pt)}"

    def nontrivial(self, case, res):
        if case["kind"] == "uniq":
            return 2 <= len(res["n2o"]) < len(case["pts"])
        if case["kind"] == "ismember":
            return any(res["ismem"]) and not all(res["ismem"])
        return any(res["a_in_b"])

    @staticmethod
    def _norm_cluster_of(pts, t):
        """Norm clusters of the code (first-norm rule), exact: index -> cluster number."""
        s = sorted(range(len(pts)), key=lambda i: (sum(x * x for x in pts[i]), i))
        out, cur, cn = {}, 0, None
        for i in s:
            n2 = sum(x * x for x in pts[i])
            if cn is None:
                cn = n2
            L = n2 - cn - t * t
            if L > 0 and L * L > 4 * t * t * cn:
                cur += 1
                cn = n2
            out[i] = cur
        return out

    def finding_key(self, case, res, why):
        if case["kind"] == "ismember":
            return "ismember-bruteforce"
        if case["kind"] == "intersect":
            return "intersect-bruteforce"
        # the open finding: two kept representatives are closer than tol and lie in
        # different norm clusters (cluster_norm = first norm of the cluster)
        pts, t = case["pts"], case["t"]
        nc = self._norm_cluster_of(pts, t)
        kept = res["n2o"]
        for a, b in itertools.combinations(kept, 2):
            if 0 <= a < len(pts) and 0 <= b < len(pts) and _d2(pts[a], pts[b]) < t * t \
                    and nc[a] != nc[b]:
                return "uniquify-close-points-split-by-first-norm-clustering"
        return "uniquify-cluster-property"

    def shrink(self, case, still_fails):
        if case["kind"] != "uniq":
            return case
        pts = list(case["pts"])
        changed = True
        while changed and len(pts) > 1:
            changed = False
            for i in range(len(pts)):
                c = dict(case, pts=pts[:i] + pts[i + 1:])
                if still_fails(c):
                    pts = c["pts"]
                    changed = True
                    break
        return dict(case, pts=pts)


PROP = C34()
