"""C08 — sliding-window storage (pp.set/get/shift_solution_values)."""
import numpy as np

from harness.core import Prop, cz, clist, coption

import porepy as pp


def _vec(v):
    return clist(v, cz)


def _op(o):
    k = o[0]
    if k == "set":
        return f"OpSet {cz(o[1])} {_vec(o[2])}"
    if k == "add":
        return f"OpAdd {cz(o[1])} {_vec(o[2])}"
    if k == "get":
        return f"OpGet {cz(o[1])}"
    if k == "shift":
        return f"OpShift {coption(o[1], cz)}"
    raise ValueError(k)


def _out(o):
    if o[0] == "done":
        return "ODone"
    if o[0] == "val":
        return f"(OVal {_vec(o[1])})"
    return f"(OErr {o[1]})"


class C08(Prop):
    id = "C08"
    props_file = "Props/C08.v"
    preamble = "From Coq Require Import List ZArith.\nImport ListNotations.\nFrom PP Require Import Model.C08.\n"
    n_cases = (600, 12000)
    design_ref = "DESIGN.md §5 C08"
    level_text = ("Coq theorems over an executable transcription of set/get/shift_solution_values: "
                  "for every value type, depth d>=1 and every history of index-0 writes, reads and "
                  "depth-d shifts the stored slot equals the first d entries of the history view and "
                  "every call answers as the window specification says (C08_window); for shifts whose depth is "
                  "arbitrary and changes from call to call (any max_index >= 0 or None) the slot stays a "
                  "contiguous dictionary equal to the abstract window wrun (C08_contiguous_any_depths), "
                  "indices below the smallest depth used hold the i-th most recent value "
                  "(C08_window_varying_depths) and a shift leaves indices >= its depth untouched "
                  "(C08_shift_leaves_deep_indices); reads are pure, "
                  "additive writes to empty slots are rejected, overwrites are exact map updates (any "
                  "state/index). The model is tied to the code on every run by executing both on "
                  "random histories (incl. arbitrary indices, negative indices, non-contiguous keys, "
                  "varying depths, aliasing probes) and letting Coq compare all outputs and the final "
                  "dictionary.")
    level_note = ("Trusted: Coq kernel + vm_compute; the harness (generator, literal emission); "
                  "integer-valued vectors stand for float arrays; equal-length vectors. The theorem is "
                  "about the model; the implementation is covered on the generated histories only. "
                  "One third of the histories go through the EquationSystem wrappers "
                  "(set/get_variable_values, shift_time_step_values, shift_iterate_values) on a "
                  "one-variable system.")
    technique = "Coq proof (window refinement by induction over histories) + vm_compute execution correspondence"
    rule = ("random histories of set/add/get/shift on one (location,name) slot, through the pp.*_solution_values helpers or the EquationSystem wrappers (one variable), plus 1/8 multi-slot cases: selective set/add/shift/get on 4 (name, grid) variables of one fractured-domain EquationSystem, every slot compared with its own window; 60% "
            "'disciplined' (writes at index 0; fixed depth, or for a third of them a depth that changes from shift to shift but never drops below d, checked by the oracle against the history view below d), 40% arbitrary indices incl. "
            "negative, non-contiguous keys, changing depths; every array handed to or "
            "returned by the implementation is overwritten afterwards (aliasing probe); "
            "non-trivial = at least one shift and one write; distinct by (case, output)")
    trusted = ["vectors of multiples of 1/4 (exact in binary64; float64 or integer dtype) stand for the stored arrays, the model holds them as integers in units of 1/4; "
               "numpy += on equal-length vectors = elementwise Z addition"]
    assumptions = ["all vectors of one history have the same length (numpy would raise "
                   "on a shape mismatch, not modelled)"]

    def generate(self, rng, n, tier):
        maxops = 40 if tier == "quick" else 120
        for k in range(n):
            if k % 8 == 7:
                yield self._gen_multi(rng, maxops)
                continue
            size = rng.randint(1, 3)
            loc = rng.choice(["ts", "it"])
            via = rng.choice(["helpers", "helpers", "eqsys"])
            nops = rng.randint(1, maxops)
            ops = []
            # values are stored in units of 1/4 (exact in binary64); "int" vectors are
            # whole numbers handed over as integer-dtype arrays (e.g. np.zeros(n, dtype=int)
            # initial values), the others as float64 arrays
            vec = lambda: [rng.randint(-200, 200) for _ in range(size)]
            ivec = lambda: [4 * rng.randint(-50, 50) for _ in range(size)]
            if rng.random() < 0.6:
                d = rng.randint(1, 5)
                # a third of the disciplined histories change the depth from shift to shift
                # (never below d): C08_window_varying_depths says indices < d stay fresh
                varying = rng.random() < 0.35
                cur_int = False
                int_phase = rng.random() < 0.4  # start with integer-dtype writes
                for _ in range(nops):
                    r = rng.random()
                    if int_phase and rng.random() < 0.15:
                        int_phase = False
                    if r < 0.35:
                        if int_phase:
                            ops.append(["set", 0, ivec(), "int"])
                            cur_int = True
                        else:
                            ops.append(["set", 0, vec()])
                            cur_int = False
                    elif r < 0.55:
                        # int += float raises a numpy casting error (not part of the
                        # modelled behaviour): add integer vectors to integer slots
                        if cur_int:
                            ops.append(["add", 0, ivec(), "int"])
                        else:
                            ops.append(["add", 0, vec()])
                    elif r < 0.8:
                        ops.append(["shift", rng.choice([d, d, d + 1, d + 2, d + 4, None])
                                    if varying else d])
                    else:
                        ops.append(["get", rng.randint(0, d + (2 if varying else 0))])
                yield {"size": size, "loc": loc, "via": via, "ops": ops, "disciplined": d,
                       "varying": varying}
            else:
                for _ in range(nops):
                    r = rng.random()
                    idx = rng.choice([0, 0, 0, 1, 1, 2, 3, 4, -1])
                    if r < 0.3:
                        ops.append(["set", idx, vec()])
                    elif r < 0.5:
                        ops.append(["add", idx, vec()])
                    elif r < 0.75:
                        ops.append(["shift", rng.choice([None, None, 0, 1, 2, 3, 4, 6, -1])])
                    else:
                        ops.append(["get", idx])
                yield {"size": size, "loc": loc, "via": via, "ops": ops, "disciplined": None}

    # ---- several variables on several grids through the EquationSystem wrappers -------
    SLOTS = [("x", 0), ("y", 0), ("x", 1), ("y", 1)]  # (name, subdomain index)

    def _gen_multi(self, rng, maxops):
        """Selective writes / shifts / reads on 4 (name, grid) slots of one system: every
        slot must behave as its own window; slots not named in a call must not move."""
        loc = rng.choice(["ts", "it"])
        nops = rng.randint(3, max(4, maxops // 2))
        ops = []
        have0 = [False] * 4
        for _ in range(nops):
            r = rng.random()
            subset = sorted(rng.sample(range(4), rng.randint(1, 4)))
            if r < 0.4 or not any(have0):
                ops.append(["set", 0, subset, [[rng.randint(-200, 200) for _ in range(3)]
                                                for _ in subset]])
                for j in subset:
                    have0[j] = True
            elif r < 0.55 and all(have0[j] for j in subset):
                ops.append(["add", 0, subset, [[rng.randint(-200, 200) for _ in range(3)]
                                                for _ in subset]])
            elif r < 0.8:
                ops.append(["shift", rng.choice([None, 2, 3, 3, 4]), subset])
            else:
                ops.append(["get", rng.randint(0, 3), [rng.randrange(4)]])
        return {"loc": loc, "via": "eqsys_multi", "ops": ops, "size": 3, "disciplined": None}

    def _multi_system(self):
        mdg, _ = pp.mdg_library.square_with_orthogonal_fractures(
            "cartesian", {"cell_size": 0.5}, fracture_indices=[1])
        sds = mdg.subdomains()
        eqs = pp.ad.EquationSystem(mdg)
        eqs.create_variables("x", {"cells": 1}, subdomains=sds)
        eqs.create_variables("y", {"cells": 1}, subdomains=sds)
        slots = []
        for name, gi in self.SLOTS:
            v = [v for v in eqs.variables if v.name == name and v.domain == sds[gi]][0]
            slots.append(v)
        return eqs, mdg, sds, slots

    def _run_multi(self, case):
        eqs, mdg, sds, slots = self._multi_system()
        kw = "time_step_index" if case["loc"] == "ts" else "iterate_index"
        location = pp.TIME_STEP_SOLUTIONS if case["loc"] == "ts" else pp.ITERATE_SOLUTIONS
        n = [sds[gi].num_cells for _, gi in self.SLOTS]
        first = [int(eqs.dofs_of([v])[0]) for v in slots]
        per_ops = [[] for _ in range(4)]
        per_outs = [[] for _ in range(4)]

        def pad(vec, m):  # values of a slot: the 3 drawn numbers repeated to the slot size
            return [vec[i % 3] for i in range(m)]

        for o in case["ops"]:
            sub = o[2]
            order = sorted(sub, key=lambda j: first[j])  # global dof order
            variables = [slots[j] for j in sub]
            try:
                if o[0] in ("set", "add"):
                    vals = {j: pad(v, n[j]) for j, v in zip(sub, o[3])}
                    arr = np.concatenate([np.array([x / 4.0 for x in vals[j]]) for j in order])
                    try:
                        eqs.set_variable_values(arr, variables, additive=(o[0] == "add"),
                                                **{kw: o[1]})
                    finally:
                        arr[:] = 977.0
                    for j in sub:
                        per_ops[j].append([o[0], o[1], vals[j]])
                        per_outs[j].append(["done"])
                elif o[0] == "shift":
                    if case["loc"] == "ts":
                        eqs.shift_time_step_values(variables, max_index=o[1])
                    else:
                        eqs.shift_iterate_values(variables, max_index=o[1])
                    for j in sub:
                        per_ops[j].append(["shift", o[1]])
                        per_outs[j].append(["done"])
                else:
                    j = sub[0]
                    per_ops[j].append(["get", o[1]])
                    v = eqs.get_variable_values(variables, **{kw: o[1]})
                    per_outs[j].append(["val", [int(4 * x) for x in v]])
                    v[:] = -977.0
            except KeyError:
                per_outs[sub[0]].append(["err", "KeyErr"])
            except ValueError:
                for j in sub:
                    if len(per_ops[j]) > len(per_outs[j]):
                        per_outs[j].append(["err", "ValueErr"])
        dumps = []
        for (name, gi) in self.SLOTS:
            d = mdg.subdomain_data(sds[gi])
            dumps.append([[int(k), [int(4 * x) for x in v]]
                          for k, v in sorted(d[location][name].items())])
        return {"per_ops": per_ops, "per_outs": per_outs, "dumps": dumps}

    def _eqsys(self, size):
        g = pp.CartGrid([size])
        g.compute_geometry()
        mdg = pp.MixedDimensionalGrid()
        mdg.add_subdomains([g])
        eqs = pp.ad.EquationSystem(mdg)
        eqs.create_variables("x", {"cells": 1}, subdomains=[g])
        return eqs, mdg.subdomain_data(g)

    def run_impl(self, case):
        if case.get("via") == "eqsys_multi":
            return self._run_multi(case)
        data = {}
        name = "x"
        eqs = None
        if case.get("via") == "eqsys":
            eqs, data = self._eqsys(case["size"])
        kw = "time_step_index" if case["loc"] == "ts" else "iterate_index"
        location = pp.TIME_STEP_SOLUTIONS if case["loc"] == "ts" else pp.ITERATE_SOLUTIONS
        outs = []
        for o in case["ops"]:
            try:
                if o[0] in ("set", "add"):
                    if len(o) > 3 and o[3] == "int":
                        arr = np.array([x // 4 for x in o[2]], dtype=int)
                    else:
                        arr = np.array([x / 4.0 for x in o[2]], dtype=float)
                    try:
                        if eqs is not None:
                            eqs.set_variable_values(arr, additive=(o[0] == "add"), **{kw: o[1]})
                        else:
                            pp.set_solution_values(name, arr, data, additive=(o[0] == "add"),
                                                   **{kw: o[1]})
                    finally:
                        arr[:] = 977.0  # aliasing probe
                    outs.append(["done"])
                elif o[0] == "get":
                    if eqs is not None:
                        v = eqs.get_variable_values(**{kw: o[1]})
                    else:
                        v = pp.get_solution_values(name, data, **{kw: o[1]})
                    assert all(float(int(4 * x)) == 4 * x for x in v)
                    outs.append(["val", [int(4 * x) for x in v]])
                    v[:] = -977.0  # aliasing probe
                else:
                    if eqs is None:
                        pp.shift_solution_values(name, data, location, max_index=o[1])
                    elif case["loc"] == "ts":
                        eqs.shift_time_step_values(max_index=o[1])
                    else:
                        eqs.shift_iterate_values(max_index=o[1])
                    outs.append(["done"])
            except KeyError:
                outs.append(["err", "KeyErr"])
            except ValueError:
                outs.append(["err", "ValueErr"])
        dump = None
        if location in data and name in data[location]:
            dump = [[int(k), [int(4 * x) for x in v]] for k, v in sorted(data[location][name].items())]
        return {"outs": outs, "dump": dump}

    def oracle(self, case, res):
        if case.get("via") == "eqsys_multi":
            # every slot is its own dictionary: replay the calls that named it
            for j in range(4):
                store = {}
                for o, out in zip(res["per_ops"][j], res["per_outs"][j]):
                    if o[0] == "set":
                        store[o[1]] = list(o[2])
                    elif o[0] == "add":
                        store[o[1]] = [a + b for a, b in zip(store[o[1]], o[2])]
                    elif o[0] == "shift":
                        nst = len(store)
                        rg = range(nst, 0, -1) if (o[1] is None or o[1] > nst) \
                            else range(o[1] - 1, 0, -1)
                        for i in rg:
                            store[i] = list(store[i - 1])
                    else:
                        exp = ["val", store[o[1]]] if o[1] in store else ["err", "KeyErr"]
                        if out != exp:
                            return (f"slot {self.SLOTS[j]}: read at index {o[1]} returned "
                                    f"{out}, its own history says {exp}")
                got = {k: v for k, v in res["dumps"][j]}
                if got != store:
                    return (f"slot {self.SLOTS[j]} holds {got}, but the calls that named it "
                            f"give {store} (a call on other variables moved it, or one on it did not)")
            return None
        d = case.get("disciplined")
        if not d:
            return None
        # history view: current value, then the values index 0 held at successive shifts
        h = []
        for o, out in zip(case["ops"], res["outs"]):
            if o[0] == "set":
                h = [list(o[2])] + h[1:]
                if out != ["done"]:
                    return f"overwrite at index 0 answered {out}"
            elif o[0] == "add":
                if not h:
                    if out != ["err", "ValueErr"]:
                        return "additive write to an empty slot was not rejected"
                else:
                    h = [[a + b for a, b in zip(h[0], o[2])]] + h[1:]
                    if out != ["done"]:
                        return f"additive write answered {out}"
            elif o[0] == "shift":
                if h:
                    h = [h[0]] + h
                if out != ["done"]:
                    return f"shift answered {out}"
            else:
                i = o[1]
                if case.get("varying") and i >= d:
                    continue  # beyond the smallest depth used: stale values are legitimate
                exp = ["val", h[i]] if i < min(d, len(h)) else ["err", "KeyErr"]
                if out != exp:
                    return f"read at index {i} returned {out}, window says {exp}"
        exp = [[i, v] for i, v in enumerate(h[:d])]
        got = res["dump"] or []
        if case.get("varying"):
            got = [kv for kv in got if kv[0] < d]
        if got != exp:
            return f"stored window {got} differs from the {d} most recent values {exp}"
        return None

    def coq_case(self, case, res):
        if case.get("via") == "eqsys_multi":
            terms = []
            for j in range(4):
                ops = clist(res["per_ops"][j], _op)
                outs = clist(res["per_outs"][j], _out)
                dump = "(Some " + clist(res["dumps"][j],
                                        lambda kv: f"({kv[0]}%nat, {_vec(kv[1])})") + ")"
                terms.append(f"agree_from (Some []) {ops} {outs} {dump}")
            return "(" + " && ".join(terms) + ")%bool"
        ops = clist(case["ops"], _op)
        outs = clist(res["outs"], _out)
        dump = coption(res["dump"], lambda l: clist(l, lambda kv: f"({kv[0]}%nat, {_vec(kv[1])})"))
        # create_variables pre-creates the (empty) per-name dictionaries
        init = "(Some [])" if case.get("via") == "eqsys" else "None"
        return f"agree_from {init} {ops} {outs} {dump}"

    def coq_diag(self, case, res):
        if case.get("via") == "eqsys_multi":
            return None
        init = "(Some [])" if case.get("via") == "eqsys" else "None"
        return f"run vaddZ {init} {clist(case['ops'], _op)}"

    def nontrivial(self, case, res):
        if case.get("via") == "eqsys_multi":
            return True
        ks = {o[0] for o in case["ops"]}
        return "shift" in ks and ("set" in ks or "add" in ks)

    def finding_key(self, case, res, why):
        return "window-mismatch"

    def shrink(self, case, still_fails):
        ops = list(case["ops"])
        changed = True
        while changed and len(ops) > 1:
            changed = False
            for i in range(len(ops)):
                c = dict(case, ops=ops[:i] + ops[i + 1:])
                if still_fails(c):
                    ops = c["ops"]
                    changed = True
                    break
        return dict(case, ops=ops)


PROP = C08()
