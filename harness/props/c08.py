"""C08 — sliding-window storage (pp.set/get/shift_solution_values)."""
import numpy as np

from harness.core import Prop, cz, clist, coption

import porepy as pp


def _vec(v):
    return clist(v, cz)


def _op(o):
    k = o[0]
    if k == "set":
        return f"OpSet {cz(o[1])} {_vec(o[2])}"
    if k == "add":
        return f"OpAdd {cz(o[1])} {_vec(o[2])}"
    if k == "get":
        return f"OpGet {cz(o[1])}"
    if k == "shift":
        return f"OpShift {coption(o[1], cz)}"
    raise ValueError(k)


def _out(o):
    if o[0] == "done":
        return "ODone"
    if o[0] == "val":
        return f"(OVal {_vec(o[1])})"
    return f"(OErr {o[1]})"


class C08(Prop):
    id = "C08"
    props_file = "Props/C08.v"
    preamble = "From Coq Require Import List ZArith.\nImport ListNotations.\nFrom PP Require Import Model.C08.\n"
    n_cases = (600, 12000)
    design_ref = "DESIGN.md §5 C08"
    level_text = ("Coq theorems over an executable transcription of set/get/shift_solution_values: "
                  "for every value type, depth d>=1 and every history of index-0 writes, reads and "
                  "depth-d shifts the stored slot equals the first d entries of the history view and "
                  "every call answers as the window specification says (C08_window); reads are pure, "
                  "additive writes to empty slots are rejected, overwrites are exact map updates (any "
                  "state/index). The model is tied to the code on every run by executing both on "
                  "random histories (incl. arbitrary indices, negative indices, non-contiguous keys, "
                  "varying depths, aliasing probes) and letting Coq compare all outputs and the final "
                  "dictionary.")
    level_note = ("Trusted: Coq kernel + vm_compute; the harness (generator, literal emission); "
                  "integer-valued vectors stand for float arrays; equal-length vectors. The theorem is "
                  "about the model; the implementation is covered on the generated histories only. "
                  "One third of the histories go through the EquationSystem wrappers "
                  "(set/get_variable_values, shift_time_step_values, shift_iterate_values) on a "
                  "one-variable system.")
    technique = "Coq proof (window refinement by induction over histories) + vm_compute execution correspondence"
    rule = ("random histories of set/add/get/shift on one (location,name) slot, through the pp.*_solution_values helpers (2/3) or the EquationSystem wrappers (1/3); 60% "
            "'disciplined' (writes at index 0, fixed depth), 40% arbitrary indices incl. "
            "negative, non-contiguous keys, changing depths; every array handed to or "
            "returned by the implementation is overwritten afterwards (aliasing probe); "
            "non-trivial = at least one shift and one write; distinct by (case, output)")
    trusted = ["vectors of multiples of 1/4 (exact in binary64; float64 or integer dtype) stand for the stored arrays, the model holds them as integers in units of 1/4; "
               "numpy += on equal-length vectors = elementwise Z addition"]
    assumptions = ["all vectors of one history have the same length (numpy would raise "
                   "on a shape mismatch, not modelled)"]

    def generate(self, rng, n, tier):
        maxops = 40 if tier == "quick" else 120
        for _ in range(n):
            size = rng.randint(1, 3)
            loc = rng.choice(["ts", "it"])
            via = rng.choice(["helpers", "helpers", "eqsys"])
            nops = rng.randint(1, maxops)
            ops = []
            # values are stored in units of 1/4 (exact in binary64); "int" vectors are
            # whole numbers handed over as integer-dtype arrays (e.g. np.zeros(n, dtype=int)
            # initial values), the others as float64 arrays
            vec = lambda: [rng.randint(-200, 200) for _ in range(size)]
            ivec = lambda: [4 * rng.randint(-50, 50) for _ in range(size)]
            if rng.random() < 0.6:
                d = rng.randint(1, 5)
                cur_int = False
                int_phase = rng.random() < 0.4  # start with integer-dtype writes
                for _ in range(nops):
                    r = rng.random()
                    if int_phase and rng.random() < 0.15:
                        int_phase = False
                    if r < 0.35:
                        if int_phase:
                            ops.append(["set", 0, ivec(), "int"])
                            cur_int = True
                        else:
                            ops.append(["set", 0, vec()])
                            cur_int = False
                    elif r < 0.55:
                        # int += float raises a numpy casting error (not part of the
                        # modelled behaviour): add integer vectors to integer slots
                        if cur_int:
                            ops.append(["add", 0, ivec(), "int"])
                        else:
                            ops.append(["add", 0, vec()])
                    elif r < 0.8:
                        ops.append(["shift", d])
                    else:
                        ops.append(["get", rng.randint(0, d)])
                yield {"size": size, "loc": loc, "via": via, "ops": ops, "disciplined": d}
            else:
                for _ in range(nops):
                    r = rng.random()
                    idx = rng.choice([0, 0, 0, 1, 1, 2, 3, 4, -1])
                    if r < 0.3:
                        ops.append(["set", idx, vec()])
                    elif r < 0.5:
                        ops.append(["add", idx, vec()])
                    elif r < 0.75:
                        ops.append(["shift", rng.choice([None, None, 0, 1, 2, 3, 4, 6, -1])])
                    else:
                        ops.append(["get", idx])
                yield {"size": size, "loc": loc, "via": via, "ops": ops, "disciplined": None}

    def _eqsys(self, size):
        g = pp.CartGrid([size])
        g.compute_geometry()
        mdg = pp.MixedDimensionalGrid()
        mdg.add_subdomains([g])
        eqs = pp.ad.EquationSystem(mdg)
        eqs.create_variables("x", {"cells": 1}, subdomains=[g])
        return eqs, mdg.subdomain_data(g)

    def run_impl(self, case):
        data = {}
        name = "x"
        eqs = None
        if case.get("via") == "eqsys":
            eqs, data = self._eqsys(case["size"])
        kw = "time_step_index" if case["loc"] == "ts" else "iterate_index"
        location = pp.TIME_STEP_SOLUTIONS if case["loc"] == "ts" else pp.ITERATE_SOLUTIONS
        outs = []
        for o in case["ops"]:
            try:
                if o[0] in ("set", "add"):
                    if len(o) > 3 and o[3] == "int":
                        arr = np.array([x // 4 for x in o[2]], dtype=int)
                    else:
                        arr = np.array([x / 4.0 for x in o[2]], dtype=float)
                    try:
                        if eqs is not None:
                            eqs.set_variable_values(arr, additive=(o[0] == "add"), **{kw: o[1]})
                        else:
                            pp.set_solution_values(name, arr, data, additive=(o[0] == "add"),
                                                   **{kw: o[1]})
                    finally:
                        arr[:] = 977.0  # aliasing probe
                    outs.append(["done"])
                elif o[0] == "get":
                    if eqs is not None:
                        v = eqs.get_variable_values(**{kw: o[1]})
                    else:
                        v = pp.get_solution_values(name, data, **{kw: o[1]})
                    assert all(float(int(4 * x)) == 4 * x for x in v)
                    outs.append(["val", [int(4 * x) for x in v]])
                    v[:] = -977.0  # aliasing probe
                else:
                    if eqs is None:
                        pp.shift_solution_values(name, data, location, max_index=o[1])
                    elif case["loc"] == "ts":
                        eqs.shift_time_step_values(max_index=o[1])
                    else:
                        eqs.shift_iterate_values(max_index=o[1])
                    outs.append(["done"])
            except KeyError:
                outs.append(["err", "KeyErr"])
            except ValueError:
                outs.append(["err", "ValueErr"])
        dump = None
        if location in data and name in data[location]:
            dump = [[int(k), [int(4 * x) for x in v]] for k, v in sorted(data[location][name].items())]
        return {"outs": outs, "dump": dump}

    def oracle(self, case, res):
        d = case.get("disciplined")
        if not d:
            return None
        # history view: current value, then the values index 0 held at successive shifts
        h = []
        for o, out in zip(case["ops"], res["outs"]):
            if o[0] == "set":
                h = [list(o[2])] + h[1:]
                if out != ["done"]:
                    return f"overwrite at index 0 answered {out}"
            elif o[0] == "add":
                if not h:
                    if out != ["err", "ValueErr"]:
                        return "additive write to an empty slot was not rejected"
                else:
                    h = [[a + b for a, b in zip(h[0], o[2])]] + h[1:]
                    if out != ["done"]:
                        return f"additive write answered {out}"
            elif o[0] == "shift":
                if h:
                    h = [h[0]] + h
                if out != ["done"]:
                    return f"shift answered {out}"
            else:
                i = o[1]
                exp = ["val", h[i]] if i < min(d, len(h)) else ["err", "KeyErr"]
                if out != exp:
                    return f"read at index {i} returned {out}, window says {exp}"
        exp = [[i, v] for i, v in enumerate(h[:d])]
        got = res["dump"] or []
        if got != exp:
            return f"stored window {got} differs from the {d} most recent values {exp}"
        return None

    def coq_case(self, case, res):
        ops = clist(case["ops"], _op)
        outs = clist(res["outs"], _out)
        dump = coption(res["dump"], lambda l: clist(l, lambda kv: f"({kv[0]}%nat, {_vec(kv[1])})"))
        # create_variables pre-creates the (empty) per-name dictionaries
        init = "(Some [])" if case.get("via") == "eqsys" else "None"
        return f"agree_from {init} {ops} {outs} {dump}"

    def coq_diag(self, case, res):
        init = "(Some [])" if case.get("via") == "eqsys" else "None"
        return f"run vaddZ {init} {clist(case['ops'], _op)}"

    def nontrivial(self, case, res):
        ks = {o[0] for o in case["ops"]}
        return "shift" in ks and ("set" in ks or "add" in ks)

    def finding_key(self, case, res, why):
        return "window-mismatch"

    def shrink(self, case, still_fails):
        ops = list(case["ops"])
        changed = True
        while changed and len(ops) > 1:
            changed = False
            for i in range(len(ops)):
                c = dict(case, ops=ops[:i] + ops[i + 1:])
                if still_fails(c):
                    ops = c["ops"]
                    changed = True
                    break
        return dict(case, ops=ops)


PROP = C08()
