"""C07 — Schur complement reduction of pp.ad.EquationSystem: solving the reduced system and
expanding gives the solution of the full linearised system, for every admissible
primary/secondary split (incl. grid-restricted primary equations), also when several
different splits are made on one EquationSystem (permutation cache of the default inverter)."""
from fractions import Fraction

import numpy as np
import scipy.sparse as sps

from harness.core import Prop, cz, cnat, clist
from harness.props.c05 import get_mdg, grid_numbers, QUICK_GRIDS, THOROUGH_GRIDS, C05
from harness.props.c06 import (C06, VarLayout, EqShadow, gsize, grank, to_dense, _zl,
                               VNAMES, ENAMES, ERRS)

import porepy as pp

_C05 = C05()
_C06 = C06()
TOL = 1e-9


def _q(x):
    fr = Fraction(float(x))
    return f"({fr.numerator} # {fr.denominator})"


def _unit_int(x, U):
    fr = Fraction(float(x)) * (1 << U)
    assert fr.denominator == 1, "value is not a multiple of 2^-unit"
    return int(fr)


def _rows_u(A, U):
    """sorted sparse rows [[col, value * 2^U], ...], explicit zeros dropped"""
    A = sps.csr_matrix(A)
    A.sum_duplicates()
    A.sort_indices()
    rows = []
    for i in range(A.shape[0]):
        sl = slice(A.indptr[i], A.indptr[i + 1])
        rows.append([[int(c), _unit_int(x, U)] for c, x in zip(A.indices[sl], A.data[sl])
                     if x != 0])
    return rows


def _vec_u(v, U):
    return [_unit_int(x, U) for x in np.asarray(v, dtype=float)]


def _fsolve(A, b):
    """exact solution of A x = b over the rationals (Gaussian elimination); None if singular"""
    n = len(A)
    M = [[Fraction(x) for x in row] + [Fraction(bi)] for row, bi in zip(A, b)]
    for c in range(n):
        piv = next((r for r in range(c, n) if M[r][c] != 0), None)
        if piv is None:
            return None
        M[c], M[piv] = M[piv], M[c]
        pv = M[c][c]
        M[c] = [x / pv for x in M[c]]
        for r in range(n):
            if r != c and M[r][c] != 0:
                f = M[r][c]
                M[r] = [x - f * y for x, y in zip(M[r], M[c])]
    return [M[r][n] for r in range(n)]


class C07(Prop):
    id = "C07"
    props_file = "Props/C07.v"
    preamble = ("From Coq Require Import List ZArith QArith.\nImport ListNotations.\n"
                "From PP Require Import Model.C05 Model.C06 Model.C07.\nClose Scope Q_scope.\n")
    n_cases = (40, 800)
    design_ref = "DESIGN.md §5 C07"
    level_text = ("Coq theorems: (1) block elimination over any commutative group with additive "
                  "blocks and a two-sided inverse of A_ss: (x_p, x_s) solves the block system iff "
                  "x_p solves the reduced system (A_pp - A_ps inv A_sp) x_p = b_p - A_ps inv b_s "
                  "and x_s = inv (b_s - A_sp x_p) (the formulas of assemble_schur_complement_system "
                  "/ expand_schur_complement_solution); (2) for the transcribed bookkeeping "
                  "(_parse_equations, _gridbased_equation_complement, projection_to) the kept and "
                  "the excluded rows of every primary equation partition that equation's rows, so "
                  "primary rows ++ secondary rows are a permutation of the rows of the full system "
                  "(C06) after any history and for any accepted primary-equation argument, and "
                  "primary columns ++ secondary columns are a permutation of 0..num_dofs-1 (C05) "
                  "for any duplicate-free selection of registered primary variables; hence a "
                  "vector solving the block system solves every row of the ORIGINAL system; (3) "
                  "Q B^-1 P is a two-sided inverse of A whenever P A Q = B with bijective P, Q "
                  "(the algebra of invert_permuted_block_diag_matrix); (4) the repaired "
                  "permutation cache of default_schur_complement_inverter always hands the block "
                  "inverter the permutation generated from the CURRENT sparsity pattern, for any "
                  "sequence of secondary blocks. Tie: on real systems Coq recomputes the blocks "
                  "A_pp, A_sp, A_ss, b_p, b_s and both column lists of every split from the "
                  "evaluated equations and compares them exactly with what "
                  "assemble_schur_complement_system built; inv_A_ss * A_ss = I is checked in exact "
                  "rationals (tolerance 1e-9) on the default inverter's output; oracle: reduced "
                  "solve + expansion = full solve (1e-9) over random admissible splits and reuse "
                  "histories.")
    level_note = ("P-core. Not proved: the inverter itself (np.linalg / numba block inverter: its "
                  "contract 'two-sided inverse' is a section hypothesis, validated per instance by "
                  "the exact-rational check), floating-point rounding, the connected-component "
                  "computation of generate_permutation_to_block_diag_matrix (a section variable). "
                  "Theorem (2) is proved for the specification-level row lists "
                  "(rows kept / excluded per equation, C06's rows_spec vocabulary) and linked to "
                  "the transcribed loops by C07_blocks: under the size hypothesis and the "
                  "conditions under which the code does not raise, schur_blocks returns exactly "
                  "the rows prim_rows / sec_rows of the full system cut to the primary / "
                  "secondary columns. A_ps is not observable without hooks; it "
                  "is covered by the solution oracle only. assembled_equation_indices after a "
                  "Schur assembly is not part of the property and not compared.")
    technique = ("Coq proof (block-elimination algebra, permutation/partition lemmas over the "
                 "C05/C06 models, cache invariant) + vm_compute execution correspondence + "
                 "exact-rational certificate check of the inverse")
    rule = ("random square systems on 16 (quick) / 20 (thorough) Cartesian md-grids with 0-2 "
            "fractures: 2-4 md-variables (cell dofs 1-2, subdomains or interfaces), one equation "
            "per variable on the same grids, strictly diagonally dominant integer Jacobians with "
            "local 2x2 couplings, couplings between variables and one bilinear term per row "
            "(integer state); per system 2-4 splits: random primary variable sets, primary "
            "equations as name lists / dictionaries / lists with dictionary items, equations "
            "restricted to grid subsets with the matching grid variables, Operator objects and "
            "md-variables / names / Variable objects as references; inadmissible splits (all or "
            "no variables primary, all equations primary, non-square secondary block, unknown "
            "names) as error stream; 30% directed reuse histories: two variables with identical layout "
            "whose equations couple the dofs along two different perfect matchings, eliminated "
            "one after the other (secondary blocks of equal shape and equal entries per row but "
            "different sparsity pattern), half of them with rows and columns of the twin blocks "
            "scaled by exact powers of two (2^-30..2^30 each, i.e. +-60 binary orders inside the "
            "secondary block; zero state, values recorded in units of 2^-64, reduced system "
            "solved exactly, componentwise comparison with the exact rational solution); every "
            "admissible split is expanded three times (solution, damped trial, solution again) "
            "with a check that neither the argument nor the stored Schur data changed; 40% of "
            "the unscaled cases hand an explicit state different from the stored values to "
            "every assembly (operators and reference system evaluated at that state); the "
            "first four cases of every run and 10% of the others: three variables s, t, u on one "
            "subdomain with diagonal closure equations (pairwise distinct entries) registered "
            "in the order t, u, s, eliminated together through the default inverter (secondary "
            "block = permuted diagonal of scalar blocks, a 3-cycle; also with grid-excluded "
            "primary rows stacked on top, and mixed with 2x2 blocks); 30% "
            "directed insertion orders: a wholly secondary equation set BEFORE a primary "
            "equation restricted to a subset of its grids; non-trivial = at least two admissible splits with different "
            "secondary blocks on one system; distinct by (case, output)")
    trusted = ["integer-valued float matrices (exact in binary64) stand for the Jacobian blocks; "
               "the blocks are observed through the public return values with an all-zero "
               "inverter (S = A_pp, rhs = b_p), the inverter's argument (A_ss) and the tuple "
               "stored for expand_schur_complement_solution (A_sp, b_s, prolongations)",
               "numpy.linalg.solve on well-conditioned (strictly diagonally dominant) systems of "
               "<= 60 unknowns as reference solution; comparison tolerance 1e-9*(1+|x|)",
               "floats of inv_A_ss converted exactly to rationals (fractions.Fraction); in the "
               "scaled stream the reference solution and the reduced solve are exact rational "
               "Gaussian elimination, comparison componentwise relative 1e-9, and the inverse "
               "certificate is the componentwise criterion inv_ok_rel"]
    assumptions = ["the secondary block is square and invertible (the inverter returns a two-sided "
                   "inverse)",
                   "primary variables are registered and listed once",
                   "each equation's operator evaluates to as many rows as declared (C06)"]

    # ------------------------------------------------------------------ generation
    def _system(self, rng, sds, intfs, cap, twin=False, scaled=False):
        vars_, total = [], 0
        m = rng.randint(2, 4)
        cells0 = sds[0][0]
        tc = 1 if (cells0 >= 4 and cells0 % 2 == 0) else (4 // cells0 if 4 % cells0 == 0 else 0)
        twin = twin and tc > 0
        for k in range(m):
            if twin and k < 2:
                # two variables with the same layout; their equations couple the dofs along
                # two DIFFERENT perfect matchings (same shape, same number of entries per
                # row, different sparsity pattern of the two candidate secondary blocks)
                vars_.append([k, [tc, 0, 0], "sd", [0]])
                total += cells0 * tc
                continue
            intf = bool(intfs) and rng.random() < 0.35
            ng = len(intfs) if intf else len(sds)
            kind = "intf" if intf else "sd"
            grids = rng.sample(range(ng), rng.randint(1, min(ng, 3)))
            dof = [rng.choice([1, 1, 2]), 0, 0]
            sz = sum(gsize(sds, intfs, kind, g, dof) for g in grids)
            if total + sz > cap:
                dof, grids = [1, 0, 0], grids[:1]
                sz = gsize(sds, intfs, kind, grids[0], dof)
            total += sz
            vars_.append([k, dof, kind, grids])
        lay = VarLayout(sds, intfs, vars_)
        state = [rng.randint(-2, 2) for _ in range(lay.total)]
        atoms_of = {k: lay.groups[k] for k in range(m)}
        operators, eqs = [], []
        for k in range(m):
            name, dof, kind, grids = vars_[k]
            order = sorted(range(len(grids)), key=lambda j: grank(sds, (kind, grids[j])))
            rows = sum(lay.size(a) for a in atoms_of[k])
            terms, off = [], 0
            others = [a for a in range(len(lay.atoms)) if a not in atoms_of[k]]
            prodA, prodB, prod_rows = {}, {}, []
            for j in order:
                a = atoms_of[k][j]
                n = lay.size(a)
                trip = []
                for i in range(n):
                    trip.append([off + i, i, rng.randint(9, 12)])
                    budget = 2
                    if twin and k < 2:
                        j2 = (i ^ 1) if k == 0 else ((i + 1) % n if i % 2 == 1 else (i - 1) % n)
                        trip.append([off + i, j2, rng.choice([-1, 1])])
                        budget -= 1
                    elif n > 1 and rng.random() < 0.4:          # local coupling (small blocks)
                        j2 = i + 1 if i % 2 == 0 and i + 1 < n else (i - 1 if i % 2 == 1 else None)
                        if j2 is not None:
                            trip.append([off + i, j2, rng.choice([-1, 1])])
                            budget -= 1
                    while budget > 0 and others and rng.random() < 0.35:
                        b = rng.choice(others)
                        terms.append(["lin", [[b, [[off + i, rng.randrange(lay.size(b)),
                                                   rng.choice([-1, 1])]]]]])
                        budget -= 1
                    if rng.random() < 0.3 and len(lay.atoms) > 1:
                        a1, a2 = rng.choice(range(len(lay.atoms))), rng.choice(range(len(lay.atoms)))
                        terms.append(["prod", [[a1, [[off + i, rng.randrange(lay.size(a1)), 1]]],
                                               [a2, [[off + i, rng.randrange(lay.size(a2)), 1]]]]])
                terms.append(["lin", [[a, trip]]])
                off += n
            operators.append({"rows": rows, "terms": terms,
                              "const": [rng.randint(-4, 4) for _ in range(rows)]})
            eqs.append([k, k, [[kind, g] for g in grids], dof])
        rng.shuffle(eqs)
        scaled = scaled and twin
        if scaled:
            # rows of the twin equations and columns of the twin variables are scaled by exact
            # powers of two (2^-30 .. 2^30 each, so the candidate secondary blocks span +-60
            # binary orders of magnitude); zero state and no bilinear terms keep every entry
            # and every residual an exactly representable dyadic number
            state = [0] * lay.total
            ex = lambda: rng.choice([-30, -30, 30, 30, rng.randint(-30, 30), rng.randint(-30, 30), 0])
            rs = {k: [ex() for _ in range(operators[k]["rows"])] for k in (0, 1)}
            cs = {lay.groups[k][0]: [ex() for _ in range(lay.size(lay.groups[k][0]))] for k in (0, 1)}
            for k, op in enumerate(operators):
                op["terms"] = [t for t in op["terms"] if t[0] == "lin"]
                for _kind, forms in op["terms"]:
                    for atom, trip in forms:
                        for t in trip:
                            e = (rs[k][t[0]] if k in rs else 0) + (cs[atom][t[1]] if atom in cs else 0)
                            t[2] = float(t[2]) * 2.0 ** e
                if k in rs:
                    op["const"] = [float(c) * 2.0 ** rs[k][i] for i, c in enumerate(op["const"])]
        return vars_, lay, state, operators, eqs, twin, scaled

    def _split(self, rng, vars_, lay, eqs, kind, force_P=None, force_restrict=None):
        m = len(vars_)
        ks = list(range(m))
        eq_order = [e[0] for e in eqs]
        if force_P is not None:
            P = list(force_P)
        elif kind == "all_vars":
            P = ks[:]
        elif kind == "no_vars":
            P = []
        else:
            P = rng.sample(ks, rng.randint(1, m - 1))
        restrict = {}
        if force_restrict is not None:
            restrict = dict(force_restrict)
        elif kind == "restricted":
            for k in P:
                grids = vars_[k][3]
                if len(grids) > 1 and rng.random() < 0.7:
                    restrict[k] = rng.sample(grids, rng.randint(1, len(grids) - 1))

        def ent(k):
            if k >= m:
                return [k, False, []]
            gs = restrict.get(k, vars_[k][3])
            gl = [[vars_[k][2], g] for g in gs]
            rng.shuffle(gl)
            return [k, rng.random() < 0.3, gl]
        names = P[:]
        rng.shuffle(names)
        if kind == "all_eqs":
            names = ks[:]
        if kind == "unknown":
            names = names + [len(ENAMES) - 1]
        if restrict or rng.random() < 0.25:
            if rng.random() < 0.5:
                pe = ["dict", [ent(k) for k in names]]
            else:
                pe = ["list", [["dict", [ent(k)]] if (k in restrict or rng.random() < 0.3)
                               else ["name", k, rng.random() < 0.3] for k in names]]
        else:
            pe = ["list", [["name", k, rng.random() < 0.3] for k in names]]
        pv = []
        for k in P:
            if k in restrict:
                for j, g in enumerate(vars_[k][3]):
                    if g in restrict[k]:
                        pv.append(["id", lay.groups[k][j]])
            else:
                q = rng.random()
                if q < 0.4:
                    pv.append(["name", k])
                elif q < 0.7:
                    pv.append(["md", list(lay.groups[k])])
                else:
                    pv += [["id", a] for a in lay.groups[k]]
        if kind == "nonsquare" and len(P) < m:
            extra = [k for k in ks if k not in P]
            pv.append(["id", lay.groups[extra[0]][0]])
        rng.shuffle(pv)
        return [pe, pv]

    def _perm_case(self, rng, spec, sds, intfs, mix):
        """directed: a primary variable 0 and three variables s, t, u (1, 2, 3) created in this
        order on the same subdomain, whose closure equations are diagonal in their own variable
        with pairwise distinct entries and are registered in the order t, u, s: with variable
        0 primary the secondary block is a PERMUTED diagonal (scalar blocks, rows in another
        order than the columns, a 3-cycle of blocks, i.e. not an involution).  [mix]: the
        equation of u also couples its dofs in pairs (scalar blocks and 2x2 blocks mixed)."""
        cells0 = sds[0][0]
        c = 2 if cells0 == 1 else 1
        n = cells0 * c
        g0 = rng.sample(range(len(sds)), rng.randint(1, min(len(sds), 2)))
        vars_ = [[0, [1, 0, 0], "sd", g0]] + [[k, [c, 0, 0], "sd", [0]] for k in (1, 2, 3)]
        lay = VarLayout(sds, intfs, vars_)
        state = [rng.randint(-2, 2) for _ in range(lay.total)]
        prim_atoms = list(lay.groups[0])
        diag_pool = rng.sample(range(9, 9 + 6 * n + 12), 3 * n)
        operators = []
        # equation of the primary variable: as in the random systems (diagonal + couplings)
        terms, off = [], 0
        order0 = sorted(range(len(g0)), key=lambda j: grank(sds, ("sd", g0[j])))
        for j in order0:
            a = lay.groups[0][j]
            trip = []
            for i in range(lay.size(a)):
                trip.append([off + i, i, rng.randint(9, 12)])
                for _b in range(2):
                    if rng.random() < 0.5:
                        b = rng.randrange(len(lay.atoms))
                        if b != a:
                            terms.append(["lin", [[b, [[off + i, rng.randrange(lay.size(b)),
                                                       rng.choice([-1, 1])]]]]])
            terms.append(["lin", [[a, trip]]])
            off += lay.size(a)
        operators.append({"rows": off, "terms": terms,
                          "const": [rng.randint(-4, 4) for _ in range(off)]})
        for k in (1, 2, 3):
            a = lay.groups[k][0]
            trip = [[i, i, diag_pool[(k - 1) * n + i]] for i in range(n)]
            if mix and k == 3 and n % 2 == 0:
                trip += [[i, i ^ 1, rng.choice([-1, 1])] for i in range(n)]
            terms = [["lin", [[a, trip]]]]
            for i in range(n):
                if rng.random() < 0.6:
                    b = rng.choice(prim_atoms)
                    terms.append(["lin", [[b, [[i, rng.randrange(lay.size(b)),
                                               rng.choice([-2, -1, 1, 2])]]]]])
                if rng.random() < 0.3:
                    b1, b2 = rng.choice(prim_atoms), rng.choice(prim_atoms)
                    terms.append(["prod", [[b1, [[i, rng.randrange(lay.size(b1)), 1]]],
                                           [b2, [[i, rng.randrange(lay.size(b2)), 1]]]]])
            operators.append({"rows": n, "terms": terms,
                              "const": [rng.randint(-4, 4) for _ in range(n)]})
        eqs = [[k, k, [["sd", 0]], [c, 0, 0]] for k in (2, 3, 1)]          # t, u, s
        eqs.insert(rng.randint(0, 3), [0, 0, [["sd", g] for g in g0], [1, 0, 0]])
        splits = [self._split(rng, vars_, lay, eqs, "plain", force_P=[0])]
        if len(g0) > 1:
            # excluded rows of the primary equation stacked on top of the permuted diagonal
            splits.append(self._split(rng, vars_, lay, eqs, "restricted", force_P=[0],
                                      force_restrict={0: [rng.choice(g0)]}))
        splits.append(self._split(rng, vars_, lay, eqs, "plain",
                                  force_P=[0, rng.choice([1, 2, 3])]))
        rng.shuffle(splits)
        case = {"grid": spec, "sds": sds, "intfs": intfs, "vars": vars_, "state": state,
                "operators": operators, "eqs": eqs, "splits": splits}
        if rng.random() < 0.3:
            case["state2"] = [rng.randint(-2, 2) for _ in state]
        return case

    def generate(self, rng, n, tier):
        pool = QUICK_GRIDS if tier == "quick" else THOROUGH_GRIDS
        cap = 40 if tier == "quick" else 60
        for idx in range(n):
            spec = rng.choice(pool)
            sds, intfs = grid_numbers(spec)
            mode = rng.random()
            if idx < 4 or mode > 0.9:
                # the first four cases of every run (two pure, two mixed) and 10% of the rest
                yield self._perm_case(rng, spec, sds, intfs,
                                      mix=(idx in (2, 3)) or (idx >= 4 and rng.random() < 0.4))
                continue
            vars_, lay, state, operators, eqs, twin, scaled = self._system(
                rng, sds, intfs, cap, twin=mode < 0.3, scaled=mode < 0.15)
            splits = []
            if twin:
                order = [0, 1] if rng.random() < 0.5 else [1, 0]
                for z in order:
                    splits.append(self._split(rng, vars_, lay, eqs, "plain",
                                              force_P=[k for k in range(len(vars_)) if k != z]))
            multi = [k for k in range(len(vars_)) if len(vars_[k][3]) > 1]
            if not twin and multi and mode < 0.6:
                # directed: a wholly secondary equation set BEFORE a primary equation that is
                # restricted to a subset of its grids (excluded rows are stacked on top of the
                # secondary block although their equation comes later)
                kr = rng.choice(multi)
                ks = rng.choice([k for k in range(len(vars_)) if k != kr])
                ir = [e[0] for e in eqs].index(kr)
                i_s = [e[0] for e in eqs].index(ks)
                if i_s > ir:
                    eqs[ir], eqs[i_s] = eqs[i_s], eqs[ir]
                rest = [k for k in range(len(vars_)) if k not in (kr, ks)]
                P = [kr] + [k for k in rest if rng.random() < 0.5]
                grids = vars_[kr][3]
                splits.append(self._split(
                    rng, vars_, lay, eqs, "restricted", force_P=P,
                    force_restrict={kr: rng.sample(grids, rng.randint(1, len(grids) - 1))}))
            nmore = (0, 0) if scaled else ((0, 2) if twin else (2, 4))
            for _k in range(rng.randint(*nmore)):
                r = rng.random()
                kind = ("restricted" if r < 0.4 else "plain" if r < 0.82 else
                        rng.choice(["all_vars", "no_vars", "all_eqs", "nonsquare", "unknown"]))
                splits.append(self._split(rng, vars_, lay, eqs, kind))
            if scaled:
                splits.append(self._split(rng, vars_, lay, eqs, rng.choice(
                    ["all_vars", "no_vars", "all_eqs", "unknown"])))
            case = {"grid": spec, "sds": sds, "intfs": intfs, "vars": vars_, "state": state,
                    "operators": operators, "eqs": eqs, "splits": splits}
            if scaled:
                case["unit"] = 64
            elif rng.random() < 0.4:
                # explicit state for every assembly, different from the stored values; the
                # operators (hence the reference full system) are evaluated at that state
                case["state2"] = [rng.randint(-2, 2) for _ in state]
            yield case

    # ------------------------------------------------------------------ implementation
    def run_impl(self, case):
        c6 = dict(case, junk=False, ops=[])
        mdg, sdl, ifl, es, created, mds = _C06._build(c6)
        nd = int(es.num_dofs())
        U = int(case.get("unit", 0))      # all recorded values are in units of 2^-U
        s2 = case.get("state2")

        def st():
            return None if s2 is None else np.array(s2, dtype=float)
        evals = []
        for spec in case["operators"]:
            ad = es.evaluate(_C06._expr(es, created, spec), derivative=True, state=st())
            assert ad.jac.shape == (spec["rows"], nd)
            evals.append([_rows_u(ad.jac, U), _vec_u(ad.val, U)])
        registered = {}
        for name, opid, grids, info in case["eqs"]:
            e = _C06._expr(es, created, case["operators"][opid])
            e.set_name(ENAMES[name])
            es.set_equation(e, [(sdl if g[0] == "sd" else ifl)[g[1]] for g in grids],
                            dict(zip(("cells", "faces", "nodes"), info)))
            registered[name] = e
        A, b = es.assemble(state=st())
        Ad = A.toarray()
        full = None
        if Ad.shape[0] == Ad.shape[1] and Ad.shape[0] > 0 and not U:
            full = np.linalg.solve(Ad, b)

        def eqkey(name, byop):
            return registered[name] if (byop and name in registered) else ENAMES[name]

        def eqarg(a):
            def g(x):
                return (sdl if x[0] == "sd" else ifl)[x[1]]
            if a[0] == "dict":
                return {eqkey(n, bo): [g(x) for x in gs] for n, bo, gs in a[1]}
            out = []
            for it in a[1]:
                if it[0] == "name":
                    out.append(eqkey(it[1], it[2]))
                else:
                    out.append({eqkey(n, bo): [g(x) for x in gs] for n, bo, gs in it[1]})
            return out

        def vrefs(refs):
            out = []
            for r in refs:
                if r[0] == "id":
                    out.append(created[r[1]])
                elif r[0] == "name":
                    out.append(VNAMES[r[1]])
                else:
                    out.append(mds[tuple(r[1])])
            return out

        def err(e):
            return ERRS[[t for t in ERRS if isinstance(e, t)][0]]

        outs = []
        for pe, pv in case["splits"]:
            rec = {}
            seen = {}

            def zero_inverter(M, _seen=seen):
                _seen["Ass"] = sps.csr_matrix(M).copy()
                return sps.csr_matrix(M.shape)
            try:
                S0, r0 = es.assemble_schur_complement_system(eqarg(pe), vrefs(pv),
                                                             inverter=zero_inverter, state=st())
                _inv0, b_s, A_sp, pro_p, pro_s = es._Schur_complement
                cp = [int(i) for i in sps.csc_matrix(pro_p).indices]
                cs = [int(i) for i in sps.csc_matrix(pro_s).indices]
                assert sps.csc_matrix(pro_p).nnz == pro_p.shape[1] == len(cp)
                assert sps.csc_matrix(pro_s).nnz == pro_s.shape[1] == len(cs)
                rec["blocks"] = {
                    "App": _rows_u(S0, U), "bp": _vec_u(r0, U),
                    "Asp": _rows_u(A_sp, U), "bs": _vec_u(b_s, U),
                    "Ass": _rows_u(seen["Ass"], U), "cp": cp, "cs": cs}
                rec["Ass_f"] = [[float(x) for x in row] for row in seen["Ass"].toarray()]
            except (KeyError, ValueError, AssertionError, IndexError) as e:
                rec["err"] = err(e)
                outs.append(rec)
                continue
            # the real thing: default inverter, reduced solve, expansion
            try:
                S, rS = es.assemble_schur_complement_system(eqarg(pe), vrefs(pv), state=st())
                inv = es._Schur_complement[0]
                rec["inv"] = [[float(x) for x in row] for row in sps.csr_matrix(inv).toarray()]
                if U:
                    # badly scaled on purpose: the reduced solve (not porepy's job) is done
                    # exactly, so that only porepy's own arithmetic is under test
                    xe = _fsolve(S.toarray().tolist(), list(rS))
                    if xe is None:
                        raise np.linalg.LinAlgError("reduced system singular")
                    xp = np.array([float(x) for x in xe])
                else:
                    xp = np.linalg.solve(S.toarray(), rS)
                stored = es._Schur_complement
                snap = [np.array(sps.csr_matrix(m).toarray() if sps.issparse(m) else m,
                                 dtype=float).copy() for m in stored]
                xp0 = xp.copy()
                X = es.expand_schur_complement_solution(xp)
                rec["X"] = [float(x) for x in X]
                # further expansions of the SAME assembled system: a damped trial, then the
                # full solution again; nothing handed in or stored may have changed
                X[:] = 977.0
                es.expand_schur_complement_solution(0.5 * xp)
                X2 = es.expand_schur_complement_solution(xp)
                rec["X2"] = [float(x) for x in X2]
                after = [np.array(sps.csr_matrix(m).toarray() if sps.issparse(m) else m,
                                  dtype=float) for m in es._Schur_complement]
                rec["changed"] = ([i for i, (u, v) in enumerate(zip(snap, after))
                                   if u.shape != v.shape or not np.array_equal(u, v)]
                                  + ([9] if not np.array_equal(xp, xp0) else []))
            except (KeyError, ValueError, AssertionError, IndexError,
                    np.linalg.LinAlgError) as e:
                rec["err2"] = type(e).__name__ + ": " + str(e)[:120]
            outs.append(rec)
        return {"ndofs": nd, "evals": evals,
                "A": _rows_u(A, U), "b": _vec_u(b, U),
                "full": None if full is None else [float(x) for x in full], "outs": outs}

    # ------------------------------------------------------------------ oracle
    def _expected(self, case, split):
        """rows / columns of the split by an independent bookkeeping, or None if the split
        is not admissible in the sense of the property."""
        sds, intfs = case["sds"], case["intfs"]
        lay = VarLayout(sds, intfs, case["vars"])
        sh = EqShadow(sds, intfs)
        for name, opid, grids, info in case["eqs"]:
            sh.eqs[name] = (opid, grids, tuple(info))
        pe, pv = split
        kept = sh.kept(pe)
        if kept == "invalid" or not kept:
            return None
        rows_p, _ = sh.rows(kept)
        _, ntot = sh.offsets()
        rows_s = [i for i in range(ntot) if i not in set(rows_p)]
        ids = lay.parse(pv)
        if len(set(ids)) != len(ids) or not ids:
            return None
        cols_p = lay.cols(pv)
        cols_s = [c for c in range(lay.total) if c not in set(cols_p)]
        if not cols_s or not rows_s or len(rows_s) != len(cols_s) or len(rows_p) != len(cols_p):
            return None
        # "all equations primary" leaves no secondary equation block: not a split
        return rows_p, rows_s, cols_p, cols_s

    def _oracle_scaled(self, case, res):
        """componentwise relative comparison with the exact rational solution"""
        U = int(case["unit"])
        n = res["ndofs"]
        if len(res["A"]) != n:
            return None
        A = [[Fraction(0)] * n for _ in range(n)]
        for i, row in enumerate(res["A"]):
            for c, v in row:
                A[i][c] = Fraction(v, 1 << U)
        b = [Fraction(v, 1 << U) for v in res["b"]]
        x = _fsolve(A, b)
        if x is None:
            return None
        for k, (split, rec) in enumerate(zip(case["splits"], res["outs"])):
            exp = self._expected(case, split)
            if exp is None:
                continue
            rows_p, rows_s, cols_p, cols_s = exp
            Ass = [[A[i][c] for c in cols_s] for i in rows_s]
            if _fsolve(Ass, [0] * len(rows_s)) is None:
                continue
            where = f"split {k} (scaled): "
            if "err" in rec:
                return where + f"assembly of an admissible split raised {rec['err']}"
            if "err2" in rec:
                return where + f"default inverter / reduced solve raised {rec['err2']}"
            if rec.get("changed"):
                return where + ("expand_schur_complement_solution modified its argument or the "
                                f"stored Schur data (items {rec['changed']})")
            for key in ("X", "X2"):
                X = rec[key]
                if len(X) != n:
                    return where + "expanded solution has the wrong size"
                for i in range(n):
                    if abs(Fraction(X[i]) - x[i]) > Fraction(1, 10 ** 9) * abs(x[i]):
                        return where + (("" if key == "X" else "repeated expansion: ")
                                        + "expanded Schur solution differs from the full solve "
                                        f"by component {i}: {X[i]!r} vs exact {float(x[i])!r}")
        return None

    def oracle(self, case, res):
        if case.get("unit"):
            return self._oracle_scaled(case, res)
        if res["full"] is None:
            return None
        A = to_dense(res["A"], res["ndofs"])
        b = np.array(res["b"], dtype=float)
        x = np.array(res["full"])
        for k, (split, rec) in enumerate(zip(case["splits"], res["outs"])):
            exp = self._expected(case, split)
            if exp is None:
                continue
            rows_p, rows_s, cols_p, cols_s = exp
            Ass = A[rows_s][:, cols_s]
            if np.linalg.cond(Ass) > 1e6:
                continue
            where = f"split {k}: "
            if "err" in rec:
                return where + f"assembly of an admissible split raised {rec['err']}"
            if "err2" in rec:
                return where + f"default inverter / reduced solve raised {rec['err2']}"
            if rec.get("changed"):
                return where + ("expand_schur_complement_solution modified its argument or the "
                                f"stored Schur data (items {rec['changed']})")
            for key in ("X", "X2"):
                X = np.array(rec[key])
                if X.shape != x.shape or not np.all(np.abs(X - x) <= TOL * (1 + np.abs(x))):
                    return where + (("" if key == "X" else "repeated expansion: ")
                                    + "expanded Schur solution differs from the full solve by "
                                    f"{float(np.max(np.abs(X - x))):.3g}")
            if not np.all(np.abs(A @ X - b) <= 1e-7 * (1 + np.abs(b))):
                return where + "expanded solution does not solve the full system"
        return None

    # ------------------------------------------------------------------ Coq emission
    def _vops(self, case):
        return _C06._vops(dict(case, junk=False))

    def coq_case(self, case, res):
        eops = clist(case["eqs"], lambda e: _C06._eop(["set", e[0], e[1], e[2], e[3]]))
        terms = []
        for (pe, pv), rec in zip(case["splits"], res["outs"]):
            if "err" in rec:
                obs = f"ZErr {rec['err']}"
            else:
                bl = rec["blocks"]
                m = lambda rows: "(" + clist(rows, _C06._srow) + ")%Z"
                obs = (f"ZOk {m(bl['App'])} {m(bl['Asp'])} {m(bl['Ass'])} {_zl(bl['bp'])} "
                       f"{_zl(bl['bs'])} {_zl(bl['cp'])} {_zl(bl['cs'])}")
            terms.append(f"({_C06._eqarg_c(pe)}, {_C05._crefs(pv)}, {obs})")
        t = (f"agree7 {_C05._cgrid(case)} {self._vops(case)} {_C06._evtab(res)} {eops} "
             f"{clist(terms)}")
        # certificate check of the default inverter's output on the first small block:
        # |(inv*A)_ij - delta_ij| <= 1e-9 * (1 if i = j else (|inv|*|A|)_ij)
        for rec in res["outs"]:
            if "inv" in rec and 0 < len(rec["inv"]) <= 10:
                n = len(rec["inv"])
                inv = clist(rec["inv"], lambda r: clist(r, _q))
                a = clist(rec["Ass_f"], lambda r: clist(r, _q))
                t = (f"andb ({t}) (inv_ok_rel (1 # 1000000000)%Q {cnat(n)} ({inv})%Q ({a})%Q)")
                break
        return t

    def nontrivial(self, case, res):
        blocks = []
        for split, rec in zip(case["splits"], res["outs"]):
            if "X" in rec and self._expected(case, split) is not None:
                blocks.append(str(rec["blocks"]["Ass"]))
        return len(set(blocks)) >= 2

    def finding_key(self, case, res, why):
        if "repeated expansion" in why or "modified its argument" in why:
            return "expand_schur_complement_solution: repeated expansion of one assembled system"
        if "default inverter" in why or "differs from the full solve" in why:
            first_ok = res["outs"] and "X" in res["outs"][0]
            if first_ok:
                return ("default_schur_complement_inverter: cached permutation reused for a "
                        "different secondary block")
            return "schur: " + why.split(":", 1)[1].strip()[:60]
        return "schur: " + (why.split(":", 1)[1].strip()[:60] if ":" in why else why[:60])

    def shrink(self, case, still_fails):
        splits = list(case["splits"])
        changed = True
        while changed and len(splits) > 1:
            changed = False
            for i in range(len(splits)):
                c = dict(case, splits=splits[:i] + splits[i + 1:])
                if still_fails(c):
                    splits = c["splits"]
                    changed = True
                    break
        return dict(case, splits=splits)


PROP = C07()
