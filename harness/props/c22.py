"""C22 — subgrid extraction and partitioning preserve the parent grid."""
import warnings
from fractions import Fraction

import numpy as np
import scipy.sparse as sps

from harness.core import Prop, clist, cbool

import porepy as pp
from porepy.grids import partition as part


# ------------------------------------------------------------------------------------
# grid recipes (JSON) -> real porepy grids
# ------------------------------------------------------------------------------------
def build(rec):
    k = rec["kind"]
    if k == "cart":
        g = pp.CartGrid(np.array(rec["dims"]))
    elif k == "tensor":
        g = pp.TensorGrid(*[np.array(c, dtype=float) for c in rec["coords"]])
    elif k == "tri":
        g = pp.StructuredTriangleGrid(np.array(rec["dims"]))
    elif k == "tet":
        g = pp.StructuredTetrahedralGrid(np.array(rec["dims"]))
    else:
        raise ValueError(k)
    pert = rec.get("perturb")
    if pert:
        # dyadic displacements (multiples of 1/16, at most 3/16) of the active coordinates
        nn = g.num_nodes
        for d in range(g.dim):
            for i in range(nn):
                g.nodes[d, i] += pert[(d * nn + i) % len(pert)] / 16.0
    var = rec.get("var") or {}
    if var.get("scale") or var.get("shift") or var.get("axes") or var.get("matrix"):
        # exact power-of-two scaling, dyadic translation, permutation of the coordinate axes
        # (1-D / 2-D grids embedded in other coordinate lines / planes)
        x = g.nodes * (2.0 ** var.get("scale", 0))
        x = x[var.get("axes", [0, 1, 2])]
        if var.get("matrix"):
            x = np.array(var["matrix"], dtype=float) @ x       # rotation / shear of the embedding
        x = x + np.array(var.get("shift", [0.0, 0.0, 0.0])).reshape(3, 1)
        g.nodes = x
    if var.get("renum"):
        g = renumbered(g, var["renum"])
    g.compute_geometry()
    if var.get("storage"):
        # the same csc matrices with another (legal) storage: column entries in reversed
        # order (has_sorted_indices False) and/or another value dtype
        st = var["storage"]
        cf = g.cell_faces.tocsc().copy()
        fn = g.face_nodes.tocsc().copy()
        if st.get("reverse_cf"):
            cf = _reverse_columns(cf)
        if st.get("reverse_fn") and g.dim < 3:      # 3-D: node order of a face is meaningful
            fn = _reverse_columns(fn)
        if st.get("cf_dtype"):
            cf = sps.csc_matrix((cf.data.astype(st["cf_dtype"]), cf.indices, cf.indptr), shape=cf.shape)
        g.cell_faces, g.face_nodes = cf, fn
    return g


def _reverse_columns(m):
    ind, dat = m.indices.copy(), m.data.copy()
    for j in range(m.shape[1]):
        lo, hi = m.indptr[j], m.indptr[j + 1]
        ind[lo:hi] = ind[lo:hi][::-1]
        dat[lo:hi] = dat[lo:hi][::-1]
    out = sps.csc_matrix((dat, ind, m.indptr.copy()), shape=m.shape)
    out.has_sorted_indices = False
    return out


def renumbered(g, ren):
    """The same grid with permuted node / face / cell numbers, through the public pp.Grid
    constructor (only for dim <= 2, where the stored node order of a face carries no meaning)."""
    pn, pf, pc = (np.array(ren[k], dtype=int) for k in ("pn", "pf", "pc"))
    nn, nf, nc = g.num_nodes, g.num_faces, g.num_cells
    Pn = sps.csc_matrix((np.ones(nn, dtype=int), (pn, np.arange(nn))), shape=(nn, nn))
    Pf = sps.csc_matrix((np.ones(nf, dtype=int), (pf, np.arange(nf))), shape=(nf, nf))
    Pc = sps.csc_matrix((np.ones(nc, dtype=int), (pc, np.arange(nc))), shape=(nc, nc))
    nodes = np.zeros_like(g.nodes)
    nodes[:, pn] = g.nodes
    fn = (Pn @ g.face_nodes.astype(int) @ Pf.T).tocsc().astype(bool)
    cf = (Pf @ g.cell_faces.astype(int) @ Pc.T).tocsc()
    fn.sort_indices()
    cf.sort_indices()
    return pp.Grid(g.dim, nodes, fn, cf, "renumbered")


def gen_variant(rng, rec):
    """Random corner of the input space for a grid recipe (40% of the grids)."""
    if rng.random() < 0.6:
        return rec
    var = {}
    dim = len(rec["dims"]) if "dims" in rec else len(rec["coords"])
    if rng.random() < 0.5:
        var["scale"] = rng.choice([-30, -12, -3, 2, 10, 24])
    if rng.random() < 0.4:
        var["shift"] = [rng.choice([-1024.0, -3.5, 0.0, 0.25, 512.0]) for _ in range(3)]
    if dim < 3 and rng.random() < 0.4:
        ax = [0, 1, 2]
        rng.shuffle(ax)
        var["axes"] = ax
    if dim < 3 and rng.random() < 0.4:
        g = build(rec)
        pn, pf, pc = list(range(g.num_nodes)), list(range(g.num_faces)), list(range(g.num_cells))
        rng.shuffle(pn), rng.shuffle(pf), rng.shuffle(pc)
        var["renum"] = {"pn": pn, "pf": pf, "pc": pc}
    if rng.random() < 0.5:
        var["storage"] = {"reverse_cf": rng.random() < 0.6, "reverse_fn": rng.random() < 0.5,
                          "cf_dtype": rng.choice([None, "float64", "int8", "int64"])}
    out = dict(rec, var=var)
    try:
        build(out)
    except (ValueError, AssertionError):
        # compute_geometry refuses the variant (absolute tolerances inside the geometry code at
        # tiny scales, C19/C20 territory): not a grid of this property's domain
        return rec
    return out


def gen_grid(rng, tier, max_cells=None, tensor_only=False):
    return gen_variant(rng, _gen_grid(rng, tier, max_cells, tensor_only))


def _gen_grid(rng, tier, max_cells=None, tensor_only=False):
    big = tier != "quick"
    r = rng.random()
    if tensor_only:
        r = r * 0.45
    if r < 0.12:
        rec = {"kind": "cart", "dims": [rng.randint(1, 9 if big else 7)]}
    elif r < 0.27:
        rec = {"kind": "cart", "dims": [rng.randint(1, 6 if big else 4), rng.randint(1, 5 if big else 4)]}
    elif r < 0.37:
        rec = {"kind": "cart", "dims": [rng.randint(1, 3), rng.randint(1, 3), rng.randint(1, 3 if big else 2)]}
    elif r < 0.45:
        nd = rng.randint(1, 3)
        coords = []
        for _ in range(nd):
            n = rng.randint(1, 4 if nd < 3 else 2)
            xs = [0.0]
            for _ in range(n):
                xs.append(xs[-1] + rng.choice([0.25, 0.5, 1.0, 1.5, 2.0]))
            coords.append(xs)
        rec = {"kind": "tensor", "coords": coords}
    elif r < 0.8:
        rec = {"kind": "tri", "dims": [rng.randint(1, 4 if big else 3), rng.randint(1, 3)]}
    else:
        rec = {"kind": "tet", "dims": [rng.randint(1, 2), rng.randint(1, 2), 1]}
    if rec["kind"] in ("tri", "tet") or (rec["kind"] == "cart" and len(rec["dims"]) <= 2):
        if rng.random() < 0.5:
            rec["perturb"] = [rng.randint(-3, 3) for _ in range(rng.randint(3, 17))]
            try:
                build(rec)
            except ValueError:
                # the displacement inverted a cell (compute_geometry refuses the grid):
                # not a grid of the property's domain, use the unperturbed one
                del rec["perturb"]
    return rec


def _snap(g):
    """Everything of the parent grid the functions under test could overwrite."""
    # cell_faces as a matrix (scipy's abs()/sum_duplicates(), used by g.cell_nodes(), may re-sort
    # the entries of a column in place: the same matrix, not a modification of the grid);
    # face_nodes entry by entry (the stored node order of a face is meaningful in 3-D)
    cf = sps.coo_matrix(g.cell_faces)
    order = np.lexsort((cf.row, cf.col))
    parts = [g.nodes, cf.row[order], cf.col[order], np.asarray(cf.data)[order].astype(float),
             np.array(g.cell_faces.shape),
             g.face_nodes.data, g.face_nodes.indices, g.face_nodes.indptr]
    for name in GEOM:
        if hasattr(g, name):
            parts.append(getattr(g, name))
    return [np.array(a, copy=True) for a in parts] + [g.cell_faces.format, g.face_nodes.format]


def _changed(a, b):
    return any((x != y) if isinstance(x, str) else (x.shape != y.shape or not np.array_equal(x, y))
               for x, y in zip(a, b))


def _csc_cols(m):
    """Columns of a csc matrix as lists of (row, value) in storage order."""
    m = m.tocsc()
    out = []
    for j in range(m.shape[1]):
        lo, hi = int(m.indptr[j]), int(m.indptr[j + 1])
        colj = []
        for r, v in zip(m.indices[lo:hi], m.data[lo:hi]):
            assert float(int(v)) == float(v)
            colj.append([int(r), int(v)])
        out.append(colj)
    return out


def _dense(cols, nrows):
    a = np.zeros((nrows, len(cols)), dtype=int)
    for j, c in enumerate(cols):
        for r, v in c:
            a[r, j] += v
    return a


# Coq literals (nat_scope is open in the preamble; Z values carry %Z)
def _z(v):
    return f"({int(v)})%Z"


def _zv(v):
    # zp / zm are the constants 1 / -1 of the model file (cheaper to elaborate than (1)%Z)
    v = int(v)
    return "zp" if v == 1 else "zm" if v == -1 else _z(v)


def _col(c):
    return clist(c, lambda e: f"({int(e[0])},{_zv(e[1])})")


def _csc(cols):
    return clist(cols, _col)


def _nats(l):
    return clist(l, lambda x: str(int(x)))


def _zs(l):
    return clist(l, _z)


def _res(r, f):
    if isinstance(r, dict) and "err" in r:
        return f"(Err {r['err']})"
    return f"(Ok {f(r)})"


GEOM = ("cell_volumes", "cell_centers", "face_areas", "face_centers", "face_normals")


class C22(Prop):
    id = "C22"
    props_file = "Props/C22.v"
    preamble = ("From Coq Require Import List ZArith QArith.\nImport ListNotations.\n"
                "From PP Require Import Model.C22 Model.C19 Model.C22_geom.\n"
                "Close Scope Q_scope.\nOpen Scope nat_scope.\n")
    n_cases = (260, 3200)
    design_ref = "DESIGN.md §5 C22"
    level_text = (
        "Coq theorems over an executable transcription of extract_subgrid/_extract_submatrix "
        "(column slice + np.unique renumbering applied to cell_faces and then face_nodes), "
        "partition_structured (arange/fancy-index/cumsum arithmetic on Z, 1-3 dimensions) and "
        "the overlap loop (both criteria): for EVERY incidence pair and every index list or mask "
        "the returned face/node maps are strictly increasing, consist exactly of the faces/nodes "
        "of the selected cells, and map every local column back to the parent's column with the "
        "same values and the same stored order (C22_maps); hence every per-face/per-cell view "
        "(signed faces with their ordered node coordinates) of the subgrid equals the parent's "
        "(C22_geometry); in 2-D the C19 transcription of _compute_geometry_2d evaluated on the extracted "
        "subgrid returns exactly the parent's volumes, centres, squared face areas, face centres and "
        "normals at the extracted cells/faces, orientation checks and plane sign included "
        "(C22_geometry_2d); every structured partition with 1 <= coarse <= fine has one id per cell "
        "within [0, prod coarse) and every id is used, coarse > fine raises ValueError "
        "(C22_structured_partition*); overlap layer "
        "n+1 is exactly layer n plus all cells sharing a node/face with it, layers are monotone "
        "(C22_overlap_*).  The model is tied to the code on every run by executing both on random "
        "cell subsets of real Cartesian/tensor/triangle/tetrahedral grids in 1-3-D, random coarse "
        "dimensions and overlap depths 0-3 and letting Coq compare all outputs (sub-incidences, "
        "maps, part ids, cell sets, error kinds).")
    level_note = (
        "Proved about the model; the implementation is covered on generated inputs only. NOT proved "
        "(oracle only, on every run): equality of the floating-point geometry recomputed by "
        "compute_geometry() on the subgrid with the parent's in 1-D and 3-D and for embedded grids "
        "(in 2-D, z = 0, it is a theorem about the C19 model, C22_geometry_2d, and that model is "
        "tied to compute_geometry of every extracted 2-D subgrid on every run; the theorem gives equality of "
        "everything a per-cell/per-face formula reads; face-normal orientation uses a neighbouring "
        "cell and rounding is outside the model); partition_coordinates, determine_coarse_dimensions "
        "(float roots; only its contract 1<=coarse<=fine is checked and used as hypothesis of the "
        "num_part path), partition(), partition_grid, grid_is_connected (networkx) and the "
        "faces=True branch of extract_subgrid are checked by brute-force oracles only; partition_metis is absent on "
        "this image; the faces=True branch (1-D/2-D parents: manifold face sets, 3-D Cartesian parents: "
        "faces of one plane) is oracle-only as well.  Trusted: Coq kernel + vm_compute, the harness, scipy's csc storage "
        "(indices/indptr/data) as the meaning of the incidence matrices, g.cell_nodes() as the "
        "node pattern handed to overlap.")
    technique = ("Coq proof (list/incidence lemmas, induction over layers, lia/nia on the index "
                 "arithmetic) + vm_compute execution correspondence + brute-force oracles")
    rule = ("every run starts with a directed, seed-independent sweep: determine_coarse_dimensions + "
            "partition_structured(num_part=t) for all shapes with sizes 1..7 (1-D, 2-D) and 1..4 (3-D) and all "
            "targets 1..min(cells, 16) (120 shapes, about 1500 calls, all tied and checked: 1 <= coarse <= fine, one "
            "id per cell, ids exactly 0..prod(coarse)-1). Then: 40% of all grids in a corner of the input space: coordinates times 2^k (k = -30..24), dyadic "
            "translations up to 1024, permuted coordinate axes (1-D/2-D grids in other lines/planes), "
            "permuted node/face/cell numbering (dim <= 2), csc storage with reversed column entries "
            "(unsorted indices) and int8/int64/float64 values; every call is checked not to modify the "
            "parent grid or the index array; coarse_dims as list/int32/float array; overlap criterion "
            "spellings, list input, depth 5. kinds: extract 38% (random cell subsets, connected or not, index list / bool mask / "
            "unsorted with sort=False / out-of-range index / wrong-size mask) on Cartesian, tensor, "
            "structured triangle and tetrahedral grids in 1-3-D, half of them with dyadic node "
            "perturbations; pstruct 22% (random fine/coarse dims incl. coarse>fine error inputs and "
            "the num_part path); overlap 20% (depths 0-3, both criteria, empty/single/out-of-range "
            "sets); pcoord/partition/pgrid/connected/faces=True 20% (oracle only; a third of them partition_coordinates on 1-D grids in every orientation - horizontal, vertical, along z, oblique in the plane and in space - and 2-D grids in coordinate and tilted planes). non-trivial = non-empty "
            "proper subset / more than one part / at least one layer; distinct by (case, output)")
    trusted = ["scipy csc storage order is the meaning of cell_faces/face_nodes columns",
               "g.cell_nodes() (sparse product) supplies the node pattern of overlap",
               "float geometry comparison: |a-b| <= 1e-9*max|parent array| (positions: of the node coordinates) on dyadic coordinates"]
    assumptions = ["cell index lists without duplicates and without negative indices (a 'set of "
                   "cells'); 1 <= coarse_dims <= fine dims for the partition theorem (other inputs: "
                   "error branch covered by the tie)",
                   "determine_coarse_dimensions returns 1 <= coarse <= fine (checked by the oracle "
                   "on every generated call)"]

    # -------------------------------------------------------------------------------
    def _sweep(self):
        """Directed, seed-independent stream (every run): determine_coarse_dimensions +
        partition_structured(num_part=t) for ALL shapes with sizes 1..7 in 2-D, 1..4 in 3-D and
        1..7 in 1-D, and all targets t = 1..min(number of cells, 16)."""
        shapes = [[a] for a in range(1, 8)]
        shapes += [[a, b] for a in range(1, 8) for b in range(1, 8)]
        shapes += [[a, b, c] for a in range(1, 5) for b in range(1, 5) for c in range(1, 5)]
        for fine in shapes:
            total = int(np.prod(fine))
            yield {"kind": "psweep", "fine": fine, "targets": list(range(1, min(total, 16) + 1))}

    def generate(self, rng, n, tier):
        yield from self._sweep()
        for _ in range(n):
            r = rng.random()
            if r < 0.38:
                yield self._gen_extract(rng, tier)
            elif r < 0.60:
                yield self._gen_pstruct(rng, tier)
            elif r < 0.80:
                yield self._gen_overlap(rng, tier)
            else:
                yield self._gen_other(rng, tier)

    def _subset(self, rng, g):
        nc = g.num_cells
        r = rng.random()
        if r < 0.1:
            return list(range(nc))
        if r < 0.2:
            return [rng.randrange(nc)]
        if r < 0.5:
            # connected: grow from a seed through face neighbours
            c2c = g.cell_connection_map().tocsr()
            cur = {rng.randrange(nc)}
            for _ in range(rng.randint(0, nc)):
                a = rng.choice(sorted(cur))
                nb = c2c.indices[c2c.indptr[a]:c2c.indptr[a + 1]]
                if len(nb):
                    cur.add(int(rng.choice(list(nb))))
            return sorted(cur)
        k = rng.randint(0, nc)
        return sorted(rng.sample(range(nc), k))

    def _gen_extract(self, rng, tier):
        rec = gen_grid(rng, tier)
        g = build(rec)
        cells = self._subset(rng, g)
        r = rng.random()
        case = {"kind": "extract", "grid": rec, "sort": True, "mode": "idx", "c": cells}
        if r < 0.2:
            case["mode"] = "mask"
            case["c"] = [i in cells for i in range(g.num_cells)]
        elif r < 0.4:
            rng.shuffle(cells)
            case["c"] = cells
            case["sort"] = rng.random() < 0.6
        elif r < 0.46:
            case["c"] = cells + [g.num_cells + rng.randint(0, 2)]
        elif r < 0.52:
            case["mode"] = "mask"
            case["c"] = [rng.random() < 0.5 for _ in range(g.num_cells + rng.choice([-1, 1, 2]))]
        return case

    def _gen_pstruct(self, rng, tier):
        nd = rng.choice([1, 2, 2, 3])
        hi = {1: 14, 2: 12, 3: 5}[nd] if tier != "quick" else {1: 12, 2: 9, 3: 4}[nd]
        fine = [rng.randint(1, hi) for _ in range(nd)]
        r = rng.random()
        if r < 0.7:
            coarse = [rng.randint(1, f) for f in fine]
            return {"kind": "pstruct", "fine": fine, "coarse": coarse, "num_part": None,
                    "cd_type": rng.choice([None, None, "int32", "float", "list"])}
        if r < 0.8:
            coarse = [rng.randint(1, f + 2) for f in fine]
            return {"kind": "pstruct", "fine": fine, "coarse": coarse, "num_part": None}
        total = int(np.prod(fine))
        return {"kind": "pstruct", "fine": fine, "coarse": None,
                "num_part": rng.randint(1, total + 1)}

    def _gen_overlap(self, rng, tier):
        rec = gen_grid(rng, tier)
        g = build(rec)
        cells = self._subset(rng, g)
        if rng.random() < 0.3:
            cells = cells[:1]
        if rng.random() < 0.1 and cells:
            cells = cells + [cells[0]]
        if rng.random() < 0.05:
            cells = cells + [g.num_cells]
        crit = rng.choice(["node", "face"])
        case = {"kind": "overlap", "grid": rec, "cells": cells,
                "layers": rng.choice([0, 1, 1, 2, 2, 3, 5]), "criterion": crit}
        if rng.random() < 0.2:
            # documented: criterion.lower().strip()
            case["spelling"] = rng.choice([crit.upper(), " " + crit.capitalize() + " ", crit + "  "])
        if rng.random() < 0.2 and cells:
            case["as_list"] = True
        return case

    def _gen_faces(self, rng, tier):
        """extract_subgrid(..., faces=True): a lower-dimensional grid from a set of faces
        (oracle only).  2-D parents: any face set; 3-D Cartesian parents: faces of one plane."""
        while True:
            rec = _gen_grid(rng, tier)
            g = build(rec)
            if g.dim == 1:
                return {"kind": "xfaces", "grid": rec, "faces": [rng.randrange(g.num_faces)]}
            if g.dim == 2:
                # a 1-D grid is a manifold: at most two selected faces meet in a node
                k = rng.randint(1, g.num_faces)
                deg, chosen = {}, []
                fn = _csc_cols(g.face_nodes)
                for f in rng.sample(range(g.num_faces), g.num_faces):
                    ns = [r for r, _ in fn[f]]
                    if len(chosen) < k and all(deg.get(n, 0) < 2 for n in ns):
                        chosen.append(f)
                        for n in ns:
                            deg[n] = deg.get(n, 0) + 1
                return {"kind": "xfaces", "grid": rec, "faces": sorted(chosen)}
            if rec["kind"] in ("cart", "tensor"):
                ax = rng.randrange(3)
                vals = sorted(set(np.round(g.face_centers[ax], 12)))
                nrm = np.abs(g.face_normals[ax]) > 0.5 * g.face_areas
                lvl = rng.choice(vals)
                cand = [f for f in range(g.num_faces) if nrm[f] and abs(g.face_centers[ax, f] - lvl) < 1e-12]
                if cand:
                    k = rng.randint(1, len(cand))
                    return {"kind": "xfaces", "grid": rec, "faces": sorted(rng.sample(cand, k))}

    def _gen_oriented(self, rng, tier):
        """1-D grids in every orientation (axis-aligned horizontal/vertical in the xy-plane, along z,
        oblique in the plane and in space) and 2-D grids in coordinate and tilted planes."""
        c, s_ = 0.8, 0.6                                   # a rational rotation (3-4-5)
        mats = {
            "x": [[1, 0, 0], [0, 1, 0], [0, 0, 1]],
            "y": [[0, 1, 0], [1, 0, 0], [0, 0, 1]],          # 1-D: vertical line in the xy-plane
            "z": [[0, 0, 1], [0, 1, 0], [1, 0, 0]],          # 1-D: along z; 2-D: the zy-plane
            "xz": [[1, 0, 0], [0, 0, 1], [0, 1, 0]],         # 2-D: the xz-plane
            "oblique_xy": [[c, -s_, 0], [s_, c, 0], [0, 0, 1]],
            "tilt_x": [[1, 0, 0], [0, c, -s_], [0, s_, c]],  # tilted about the x-axis
            "oblique_3d": [[c, -s_ * c, s_ * s_], [s_, c * c, -c * s_], [0, s_, c]],
        }
        while True:
            if rng.random() < 0.6:
                n = rng.randint(1, 7)
                if rng.random() < 0.5:
                    rec = {"kind": "cart", "dims": [n]}
                else:
                    xs = [0.0]
                    for _ in range(n):
                        xs.append(xs[-1] + rng.choice([0.25, 0.5, 1.0, 2.0]))
                    rec = {"kind": "tensor", "coords": [xs]}
            else:
                rec = _gen_grid(rng, tier)
            dim = len(rec["dims"]) if "dims" in rec else len(rec["coords"])
            if dim == 3:
                continue
            name = rng.choice(sorted(mats))
            var = {"matrix": mats[name]}
            if rng.random() < 0.4:
                var["shift"] = [rng.choice([-3.5, 0.0, 0.25, 7.0]) for _ in range(3)]
            out = dict(rec, var=var)
            try:
                g = build(out)
            except (ValueError, AssertionError, RuntimeError):
                continue
            return {"kind": "pcoord", "grid": out, "num": rng.randint(1, g.num_cells + 2),
                    "check": rng.random() < 0.5, "orientation": name}

    def _gen_other(self, rng, tier):
        if rng.random() < 0.25:
            return self._gen_faces(rng, tier)
        if rng.random() < 0.4:
            return self._gen_oriented(rng, tier)
        r = rng.random()
        if r < 0.35:
            rec = gen_grid(rng, tier)
            g = build(rec)
            return {"kind": "pcoord", "grid": rec, "num": rng.randint(1, g.num_cells + 2),
                    "check": rng.random() < 0.5}
        if r < 0.55:
            rec = gen_grid(rng, tier)
            g = build(rec)
            return {"kind": "partition", "grid": rec, "num": rng.randint(1, g.num_cells + 1)}
        if r < 0.8:
            rec = gen_grid(rng, tier)
            g = build(rec)
            nparts = rng.randint(1, min(4, g.num_cells))
            lab = [rng.choice([0, 1, 2, 3, 5][:nparts + 1]) for _ in range(g.num_cells)]
            return {"kind": "pgrid", "grid": rec, "labels": lab}
        rec = gen_grid(rng, tier)
        g = build(rec)
        cells = self._subset(rng, g)
        return {"kind": "connected", "grid": rec, "cells": cells if rng.random() < 0.8 else None}

    # -------------------------------------------------------------------------------
    def _sub_result(self, g, h, uf, un):
        geo = None
        if h.num_cells > 0:
            # (an empty subgrid is extracted, but compute_geometry is not defined on it)
            h2 = h.copy()
            with warnings.catch_warnings(record=True) as w:
                warnings.simplefilter("always")
                h2.compute_geometry()
            geo = {name: np.asarray(getattr(h2, name)).tolist() for name in GEOM}
            geo["fallback"] = any("Orientations are inconsistent" in str(x.message) for x in w)
        copied = {name: np.asarray(getattr(h, name)).tolist() for name in GEOM}
        return {"cf": _csc_cols(h.cell_faces), "fn": _csc_cols(h.face_nodes),
                "faces": [int(x) for x in uf], "nodes": [int(x) for x in un],
                "cells": [int(x) for x in np.atleast_1d(h.parent_cell_ind)],
                "shape": [int(h.num_nodes), int(h.num_faces), int(h.num_cells), int(h.dim)],
                "xyz": h.nodes.tolist(), "recomputed": geo, "copied": copied}

    def run_impl(self, case):
        k = case["kind"]
        if k == "extract":
            g = build(case["grid"])
            c = (np.array(case["c"], dtype=bool) if case["mode"] == "mask"
                 else np.array(case["c"], dtype=int))
            before = _snap(g)
            c_in = c.copy()
            try:
                h, uf, un = part.extract_subgrid(g, c, sort=case["sort"])
            except IndexError:
                return {"err": "IndexErr", "parent_changed": _changed(before, _snap(g))}
            out = self._sub_result(g, h, uf, un)
            out["parent_changed"] = _changed(before, _snap(g)) or not np.array_equal(c, c_in)
            return out
        if k == "xfaces":
            g = build(case["grid"])
            before = _snap(g)
            h, f, un = part.extract_subgrid(g, np.array(case["faces"], dtype=int), faces=True)
            cn = h.cell_nodes().tocsc() if h.dim > 0 else None
            return {"dim": int(h.dim), "f": [int(x) for x in np.atleast_1d(f)],
                    "un": [int(x) for x in np.atleast_1d(un)], "ncells": int(h.num_cells),
                    "xyz": h.nodes.tolist(), "vol": h.cell_volumes.tolist(),
                    "cc": h.cell_centers.tolist(),
                    "cnodes": ([[int(i) for i in cn.indices[cn.indptr[j]:cn.indptr[j + 1]]]
                                for j in range(h.num_cells)] if cn is not None else None),
                    "parent_changed": _changed(before, _snap(g))}
        if k == "psweep":
            return {"runs": [self.run_impl({"kind": "pstruct", "fine": case["fine"], "coarse": None,
                                            "num_part": t}) for t in case["targets"]]}
        if k == "pstruct":
            g = pp.CartGrid(np.array(case["fine"]))
            fine = g.cart_dims
            assert [int(x) for x in fine] == case["fine"]
            try:
                if case["coarse"] is not None:
                    used = case["coarse"]
                    cd = {"list": lambda u: list(u), "int32": lambda u: np.array(u, dtype=np.int32),
                          "float": lambda u: np.array(u, dtype=float),
                          None: lambda u: np.array(u)}[case.get("cd_type")](used)
                    p = part.partition_structured(g, coarse_dims=cd)
                else:
                    used = [int(x) for x in part.determine_coarse_dimensions(case["num_part"], fine)]
                    p = part.partition_structured(g, num_part=case["num_part"])
            except ValueError:
                return {"err": "ValueErr", "used": used}
            except Exception as e:  # raising on a valid input is a violation, not a broken tie
                return {"err": "Other", "what": type(e).__name__, "used": used}
            assert np.all(p == np.round(p))
            return {"ids": [int(x) for x in p], "used": used}
        if k == "overlap":
            g = build(case["grid"])
            before = _snap(g)
            outs = []
            for n in range(case["layers"] + 1):
                try:
                    ci = np.array(case["cells"], dtype=int)
                    if case.get("as_list"):
                        ci = list(case["cells"])
                    o = part.overlap(g, ci, n, case.get("spelling") or case["criterion"])
                    if np.ndim(o) != 1:
                        outs.append({"err": "Other", "what": f"result has {np.ndim(o)} dimensions"})
                    else:
                        outs.append([int(x) for x in o])
                except IndexError:
                    outs.append({"err": "IndexErr"})
                except Exception as e:
                    outs.append({"err": "Other", "what": type(e).__name__})
            return {"layers": outs, "parent_changed": _changed(before, _snap(g))}
        if k in ("pcoord", "partition"):
            g = build(case["grid"])
            seen = []
            orig = part.determine_coarse_dimensions

            def spy(target, fine_size):
                out = orig(target, fine_size)
                seen.append(([float(x) for x in fine_size], [float(x) for x in out]))
                return out

            part.determine_coarse_dimensions = spy
            try:
                if k == "pcoord":
                    p = part.partition_coordinates(g, case["num"], check_connectivity=case["check"])
                else:
                    p = part.partition(g, case["num"])
            except ValueError as e:
                if "unconnected" not in str(e):
                    return {"err": "Other", "what": f"ValueError: {e}"[:120]}
                part.determine_coarse_dimensions = orig
                p = part.partition_coordinates(g, case["num"], check_connectivity=False)
                return {"err": "ValueErr", "unchecked": [float(x) for x in p]}
            except Exception as e:      # raising on a valid grid is a violation, not a broken tie
                return {"err": "Other", "what": f"{type(e).__name__}: {e}"[:120]}
            finally:
                part.determine_coarse_dimensions = orig
            return {"ids": [float(x) for x in p], "coarse": seen[-1] if seen else None}
        if k == "pgrid":
            g = build(case["grid"])
            subs, fms, nms = part.partition_grid(g, np.array(case["labels"]))
            return {"parts": [self._sub_result(g, h, uf, un) for h, uf, un in zip(subs, fms, nms)]}
        if k == "connected":
            g = build(case["grid"])
            ci = None if case["cells"] is None else np.array(case["cells"], dtype=int)
            if ci is not None and ci.size == 0:
                return {"skipped": "empty set"}
            ok, comps = part.grid_is_connected(g, ci)
            return {"connected": bool(ok), "components": [sorted(int(x) for x in c) for c in comps]}
        raise ValueError(k)

    # -------------------------------------------------------------------------------
    # oracle: the property evaluated by brute force
    # -------------------------------------------------------------------------------
    def _check_sub(self, g, cells, res, expect_sorted=True):
        pcf = _dense(_csc_cols(g.cell_faces), g.num_faces)
        pfn = _dense(_csc_cols(g.face_nodes), g.num_nodes)
        cs = list(res["cells"])
        if sorted(cs) != sorted(cells):
            return f"parent_cell_ind {cs} is not the requested cell set"
        if expect_sorted and cs != sorted(cs):
            return "parent_cell_ind not sorted"
        uf, un = res["faces"], res["nodes"]
        exp_f = [f for f in range(g.num_faces) if any(pcf[f, c] != 0 for c in cs)]
        if uf != exp_f:
            return f"face map {uf} is not the sorted list of faces of the cells {exp_f}"
        exp_n = [n for n in range(g.num_nodes) if any(pfn[n, f] != 0 for f in exp_f)]
        if un != exp_n:
            return f"node map {un} is not the sorted list of nodes of the faces {exp_n}"
        if res["shape"] != [len(un), len(uf), len(cs), g.dim]:
            return f"subgrid sizes {res['shape']}"
        scf = _dense(res["cf"], len(uf))
        if not np.array_equal(scf, pcf[np.ix_(uf, cs)]):
            return "sub cell_faces is not the parent's restricted to the maps"
        sfn = _dense(res["fn"], len(un))
        if not np.array_equal(sfn, pfn[np.ix_(un, uf)]):
            return "sub face_nodes is not the parent's restricted to the maps"
        # node order inside each face (3-D geometry depends on it)
        pfn_cols = _csc_cols(g.face_nodes)
        for j, f in enumerate(uf):
            if [un[r] for r, _ in res["fn"][j]] != [r for r, _ in pfn_cols[f]]:
                return f"node order of local face {j} differs from parent face {f}"
        xyz = np.array(res["xyz"]).reshape(3, -1)
        if not np.array_equal(xyz, g.nodes[:, un]):
            return "sub nodes are not the parent's nodes at the node map"
        # geometry: recomputed on the subgrid == parent's on those cells/faces; the copied
        # fields likewise
        par = {"cell_volumes": g.cell_volumes[cs], "cell_centers": g.cell_centers[:, cs],
               "face_areas": g.face_areas[uf], "face_centers": g.face_centers[:, uf],
               "face_normals": g.face_normals[:, uf]}
        for which in ("recomputed", "copied"):
            if res[which] is None:
                continue
            for name in GEOM:
                a = np.array(res[which][name], dtype=float).reshape(par[name].shape)
                b = par[name]
                mag = max(np.max(np.abs(b)), np.finfo(float).tiny) if b.size else 1.0
                if name in ("cell_centers", "face_centers"):
                    mag = max(mag, np.max(np.abs(g.nodes)))
                if a.size and np.max(np.abs(a - b)) > 1e-9 * mag:
                    return f"{which} {name} differs from the parent's on the extracted entities"
        return None

    def _neighbours(self, g, criterion):
        if criterion == "node":
            pat = (abs(g.cell_nodes()) > 0).astype(int).toarray()
        else:
            pat = (abs(g.cell_faces) > 0).astype(int).toarray()
        share = (pat.T @ pat) > 0
        return share

    def oracle(self, case, res):
        if isinstance(res, dict) and res.get("parent_changed"):
            return "the parent grid (or the index array handed in) was modified by the call"
        return self._oracle(case, res)

    def _oracle(self, case, res):
        k = case["kind"]
        if k == "extract":
            g = build(case["grid"])
            if case["mode"] == "mask":
                valid = len(case["c"]) == g.num_cells
                cells = [i for i, b in enumerate(case["c"]) if b]
            else:
                valid = all(0 <= c < g.num_cells for c in case["c"])
                cells = list(case["c"])
            if "err" in res:
                return None if not valid else f"valid cell set rejected with {res['err']}"
            if not valid:
                return "invalid cell set accepted"
            return self._check_sub(g, cells, res, expect_sorted=case["sort"] or case["mode"] == "mask")
        if k == "xfaces":
            g = build(case["grid"])
            fs = sorted(case["faces"])
            if res["dim"] != g.dim - 1 or res["ncells"] != len(fs) or res["f"] != fs:
                return f"faces {fs}: got dim {res['dim']}, {res['ncells']} cells, face map {res['f']}"
            pfn = _csc_cols(g.face_nodes)
            exp_n = sorted({r for f in fs for r, _ in pfn[f]})
            if res["un"] != exp_n:
                return f"node map {res['un']} is not the sorted list of the nodes of the faces {exp_n}"
            xyz = np.array(res["xyz"]).reshape(3, -1)
            if res["dim"] > 0 and not np.array_equal(xyz, g.nodes[:, exp_n]):
                # (a PointGrid keeps its point in cell_centers, checked below)
                return "nodes of the face grid are not the parent's nodes at the node map"
            vol, cc = np.array(res["vol"]), np.array(res["cc"]).reshape(3, -1)
            if g.dim > 1:
                mag = max(np.max(np.abs(g.face_areas[fs])), np.finfo(float).tiny)
                if np.max(np.abs(vol - g.face_areas[fs])) > 1e-9 * mag:
                    return "cell volumes of the face grid differ from the parent's face areas"
                for j, f in enumerate(fs):
                    if sorted(exp_n[i] for i in res["cnodes"][j]) != sorted(r for r, _ in pfn[f]):
                        return f"cell {j} of the face grid does not have the nodes of parent face {f}"
            mag = max(np.max(np.abs(g.nodes)), np.finfo(float).tiny)
            if np.max(np.abs(cc - g.face_centers[:, fs])) > 1e-9 * mag:
                return "cell centres of the face grid differ from the parent's face centres"
            return None
        if k == "psweep":
            for t, run in zip(case["targets"], res["runs"]):
                sub = {"kind": "pstruct", "fine": case["fine"], "coarse": None, "num_part": t}
                why = self._oracle(sub, run)
                if why is None and "ids" in run and sorted(set(run["ids"])) != list(range(int(np.prod(run["used"])))):
                    # (C22_structured_partition_onto: with 1 <= coarse <= fine every part is used)
                    why = f"part ids {sorted(set(run['ids']))} are not 0..{int(np.prod(run['used'])) - 1}"
                if why:
                    return f"fine {case['fine']}, num_part={t}: {why}"
            return None
        if k == "pstruct":
            fine, used = case["fine"], res.get("used")
            if case["coarse"] is None:
                if not all(1 <= c <= f for c, f in zip(used, fine)):
                    return f"determine_coarse_dimensions({case['num_part']}, {fine}) = {used} outside 1..fine"
            valid = all(1 <= c <= f for c, f in zip(used, fine))
            if "err" in res:
                if not valid and res["err"] == "ValueErr":
                    return None
                return f"valid coarse dimensions raised {res.get('what', res['err'])}" if valid else None
            if not valid:
                return None
            ids = res["ids"]
            if len(ids) != int(np.prod(fine)):
                return f"{len(ids)} part ids for {int(np.prod(fine))} cells"
            npart = int(np.prod(used))
            bad = [p for p in ids if not 0 <= p < npart]
            if bad:
                return f"part id {bad[0]} outside [0, {npart})"
            return None
        if k == "overlap":
            g = build(case["grid"])
            nc = g.num_cells
            valid = all(0 <= c < nc for c in case["cells"])
            share = self._neighbours(g, case["criterion"])
            prev = None
            for n, o in enumerate(res["layers"]):
                if isinstance(o, dict):
                    if valid:
                        return f"valid cell set, {n} layers: raised {o.get('what', o['err'])}"
                    continue
                if not valid:
                    return "out-of-range cell accepted"
                if o != sorted(set(o)) or any(not 0 <= c < nc for c in o):
                    return f"layer {n}: not a sorted set of cells"
                if not set(case["cells"]) <= set(o):
                    return f"layer {n}: initial cells missing"
                if prev is not None:
                    if not set(prev) <= set(o):
                        return f"layer {n} lost cells of layer {n - 1}"
                    for a in prev:
                        for b in range(nc):
                            if share[a, b] and b not in o:
                                return (f"layer {n} misses cell {b}, a {case['criterion']}-"
                                        f"neighbour of cell {a} of layer {n - 1}")
                prev = o
            return None
        if k in ("pcoord", "partition"):
            g = build(case["grid"])
            if res.get("err") == "Other":
                return f"valid grid, num_coarse={case['num']}: raised {res['what']}"
            if "err" in res:
                # documented: ValueError when a part is not connected; confirm by brute force
                ids = res["unchecked"]
                c2c = self._neighbours(g, "face")
                for p in set(ids):
                    cs = [i for i, q in enumerate(ids) if q == p]
                    if len(_components(c2c, cs)) > 1:
                        return None
                return "ValueError 'unconnected subgrids' although every part is connected"
            ids = res["ids"]
            if len(ids) != g.num_cells:
                return f"{len(ids)} part ids for {g.num_cells} cells"
            if any(p != int(p) for p in ids):
                return "non-integral part id"
            hi = None
            if res["coarse"] is not None:
                fine, coarse = res["coarse"]
                if not all(c == int(c) and 1 <= c <= f for c, f in zip(coarse, fine)):
                    return f"determine_coarse_dimensions gave {coarse} for fine {fine}"
                hi = int(np.prod(coarse))
            elif g.dim == 0:
                hi = 1
            bad = [p for p in ids if p < 0 or (hi is not None and p >= hi)]
            if bad:
                return f"part id {bad[0]} outside [0, {hi})"
            return None
        if k == "pgrid":
            g = build(case["grid"])
            lab = case["labels"]
            seen = []
            for u, pr in zip(sorted(set(lab)), res["parts"]):
                cells = [i for i, l in enumerate(lab) if l == u]
                why = self._check_sub(g, cells, pr)
                if why:
                    return f"part {u}: {why}"
                seen += pr["cells"]
            if sorted(seen) != list(range(g.num_cells)) or len(res["parts"]) != len(set(lab)):
                return "parts do not cover every cell exactly once"
            return None
        if k == "connected":
            if "skipped" in res:
                return None
            g = build(case["grid"])
            cells = list(range(g.num_cells)) if case["cells"] is None else case["cells"]
            comps = _components(self._neighbours(g, "face"), cells)
            loc = sorted(sorted(cells.index(c) for c in comp) for comp in comps)
            if res["connected"] != (len(comps) == 1):
                return f"is_connected={res['connected']} but {len(comps)} component(s)"
            if sorted(res["components"]) != loc:
                return f"components {res['components']} differ from brute force {loc}"
            return None
        return None

    # -------------------------------------------------------------------------------
    def coq_case(self, case, res):
        k = case["kind"]
        if k == "extract":
            g = build(case["grid"])
            cf, fn = _csc_cols(g.cell_faces), _csc_cols(g.face_nodes)
            if case["mode"] == "mask":
                c = f"(CMask {clist(case['c'], cbool)})"
            else:
                c = f"(CIdx {_nats(case['c'])})"
            out = _res(res, lambda r: ("{| sg_cf := %s; sg_fn := %s; sg_faces := %s; sg_nodes := %s; "
                                       "sg_cells := %s |}" % (_csc(r["cf"]), _csc(r["fn"]),
                                                              _nats(r["faces"]), _nats(r["nodes"]),
                                                              _nats(r["cells"]))))
            term = f"agree_extract {_csc(cf)} {_csc(fn)} {c} {cbool(case['sort'])} {out}"
            geo = None if "err" in res else res.get("recomputed")
            if g.dim == 2 and geo is not None and np.all(g.nodes[2] == 0):
                # compute_geometry() of the real subgrid against the C19 geometry model evaluated
                # on the model's extraction (exact Q, relative band 1e-9 inside agree2)
                qq = lambda x: "(%d#%d)%%Q" % Fraction(float(x)).as_integer_ratio()
                qp = lambda p: f"({qq(p[0])},{qq(p[1])})"
                cols2 = lambda a: [np.asarray(a, dtype=float).reshape(3, -1)[:2, i]
                                   for i in range(np.asarray(a).reshape(3, -1).shape[1])]
                if geo["fallback"]:
                    impl = "None"
                else:
                    sq = lambda x: "(%d#%d)%%Q" % (Fraction(float(x)) ** 2).as_integer_ratio()
                    impl = ("(Some {| o_area2 := %s; o_fc := %s; o_fn := %s; o_vol := %s; o_cc := %s |})"
                            % (clist(geo["face_areas"], sq), clist(cols2(geo["face_centers"]), qp),
                               clist(cols2(geo["face_normals"]), qp), clist(geo["cell_volumes"], qq),
                               clist(cols2(geo["cell_centers"]), qp)))
                nodes = clist([g.nodes[:2, i] for i in range(g.num_nodes)], qp)
                term = (f"andb ({term}) (agree_sub_geometry {nodes} {_csc(cf)} {_csc(fn)} {c} "
                        f"{cbool(case['sort'])} {impl})")
            return term
        if k == "psweep":
            terms = [self.coq_case({"kind": "pstruct", "fine": case["fine"], "coarse": None,
                                    "num_part": t}, run) for t, run in zip(case["targets"], res["runs"])]
            terms = [t for t in terms if t is not None]
            return _andb(terms) if terms else None
        if k == "pstruct":
            if res.get("err") == "Other":
                return None
            out = _res(res, lambda r: _zs(r["ids"]))
            return f"agree_structured {_zs(case['fine'])} {_zs(res['used'])} {out}"
        if k == "overlap":
            g = build(case["grid"])
            pat = g.cell_nodes() if case["criterion"] == "node" else g.cell_faces
            cols = [[r for r, _ in c] for c in _csc_cols(sps.csc_matrix(abs(pat).astype(int)))]
            nrows = g.num_nodes if case["criterion"] == "node" else g.num_faces
            terms = []
            for n, o in enumerate(res["layers"]):
                if isinstance(o, dict) and o["err"] == "Other":
                    return None
                terms.append(f"agree_overlap cols {nrows} {_nats(case['cells'])} {n} {_res(o, _nats)}")
            return f"let cols := {clist(cols, _nats)} in " + _andb(terms)
        return None

    def nontrivial(self, case, res):
        k = case["kind"]
        if k == "extract":
            return "err" not in res and len(res["cells"]) > 0
        if k == "pstruct":
            return "ids" in res and len(set(res["ids"])) > 1
        if k == "overlap":
            return case["layers"] >= 1 and bool(case["cells"])
        return True

    def finding_key(self, case, res, why):
        k = case["kind"]
        if k == "psweep":
            return "partition_structured(num_part): " + " ".join(why.split(": ", 1)[-1].split(" ")[:3])
        if k == "pstruct":
            if "raised" in why and len(case["fine"]) == 1:
                return "partition_structured: 1-D grid"
            if "outside [0" in why:
                return "partition_structured: part id out of range when several surplus start indices"
            return "partition_structured: " + why.split(" ")[0]
        if k == "overlap":
            if "raised" in why:
                return "overlap: single-cell result raises"
            return "overlap: " + " ".join(why.split(" ")[:3])
        if k == "extract":
            return "extract_subgrid: " + " ".join(why.split(" ")[:3])
        return k + ": " + " ".join(why.split(" ")[:3])

    def describe(self, case):
        return case


def _andb(terms):
    if len(terms) == 1:
        return terms[0]
    return f"andb ({terms[0]}) ({_andb(terms[1:])})"


def _components(share, cells):
    cells = list(cells)
    left = set(cells)
    comps = []
    while left:
        s = left.pop()
        comp, todo = {s}, [s]
        while todo:
            a = todo.pop()
            for b in list(left):
                if share[a, b]:
                    left.discard(b)
                    comp.add(b)
                    todo.append(b)
        comps.append(sorted(comp))
    return comps


PROP = C22()
