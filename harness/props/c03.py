"""C03 — model Jacobians are the derivative of the model residual.

Theorem: C03_compose (corollary of the C01 composition theorem, rows stacked).
Tie: (i) the stacking model (global row -> equation, local row) is compared in Coq with
EquationSystem.assembled_equation_indices of the real assembly; (ii) census: every node
of the real equation operator trees is classified as covered by the proved rule table or
not (both sets are written to the evidence).  Oracle: directional finite differences of
the assembled residual against the assembled Jacobian at random states.
"""
from __future__ import annotations

import functools
import math
import random

import numpy as np
import scipy.sparse as sps

from harness.core import Prop, clist
from harness.props import c01 as C01

import porepy as pp
from porepy.applications.md_grids.model_geometries import (
    OrthogonalFractures3d,
    RectangularDomainThreeFractures,
)
from porepy.numerics.ad import functions as adf

FAMILIES = {
    "SinglePhaseFlow": lambda: pp.SinglePhaseFlow,
    "MassAndEnergyBalance": lambda: pp.MassAndEnergyBalance,
    "MomentumBalance": lambda: pp.MomentumBalance,
    "Poromechanics": lambda: pp.Poromechanics,
    "Thermoporomechanics": lambda: pp.Thermoporomechanics,
}

TABLE_FUNCTIONS = {"exp", "log", "abs", "sin", "cos", "tan", "arcsin", "arccos", "arctan",
                   "sinh", "cosh", "tanh", "arcsinh", "arccosh", "arctanh", "heaviside",
                   "heaviside_smooth", "maximum", "characteristic_function", "l2_norm"}


def make_model(family, nfrac, cartesian, dim=2):
    cls = FAMILIES[family]()
    geometry = RectangularDomainThreeFractures if dim == 2 else OrthogonalFractures3d

    class Model(geometry, cls):
        pass

    fluid = pp.FluidComponent(compressibility=0.2, density=1.3, viscosity=0.7,
                              thermal_expansion=0.1, specific_heat_capacity=1.5,
                              thermal_conductivity=0.6, normal_thermal_conductivity=0.8)
    solid = pp.SolidConstants(permeability=0.8, normal_permeability=1.2, porosity=0.2,
                              residual_aperture=0.1, biot_coefficient=0.7,
                              lame_lambda=1.5, shear_modulus=1.1,
                              fracture_normal_stiffness=1.0, thermal_expansion=0.05,
                              specific_heat_capacity=0.9, thermal_conductivity=1.3,
                              friction_coefficient=0.6, dilation_angle=0.1,
                              maximum_elastic_fracture_opening=0.0)
    params = {
        "times_to_export": [],
        "fracture_indices": list(range(nfrac)),
        "cartesian": bool(cartesian),
        "grid_type": "cartesian" if cartesian else "simplex",
        "meshing_arguments": {"cell_size": 0.5},
        "material_constants": {"fluid": fluid, "solid": solid},
    }
    m = Model(params)
    m.prepare_simulation()
    return m


# ----------------------------------------------------------------------------------------
# census of the real operator trees
# ----------------------------------------------------------------------------------------
def _func_name(op):
    """(name, covered?) of the python callable behind an ``evaluate`` node."""
    f = getattr(op, "func", None)
    owner = getattr(f, "__self__", None)
    kind = type(owner).__name__ if owner is not None else type(f).__name__
    inner = getattr(owner, "_func", None)
    base = inner
    while isinstance(base, functools.partial):
        base = base.func
    if kind == "Function" and base is not None and getattr(base, "__module__", "") == adf.__name__ \
            and getattr(base, "__name__", "") in TABLE_FUNCTIONS:
        return f"functions.{base.__name__}", True
    nm = getattr(base, "__qualname__", None) or getattr(owner, "name", None) or repr(f)[:60]
    return f"{kind}:{nm}", False


def census(model):
    """Classify every node of every equation tree.

    kind of a node: 'ad' (depends on a current-iterate variable), 'dense', 'scalar',
    'sparse', 'slicer' (constants).  A node is covered when the C01 rule table has the
    rule for its operation on these operand kinds."""
    covered, uncovered = {}, {}

    def note(d, key):
        d[key] = d.get(key, 0) + 1

    def visit(op):
        opn = getattr(op, "operation", None)
        opname = opn.name if opn is not None else "void"
        cls = type(op).__name__
        kids = list(getattr(op, "children", []) or [])
        if opname == "void" or not kids and opname != "evaluate":
            if isinstance(op, pp.ad.Variable):   # incl. MixedDimensionalVariable
                prev = bool(getattr(op, "is_previous_time", False)) or \
                    bool(getattr(op, "is_previous_iterate", False))
                note(covered, f"leaf:{cls}" + (":previous(constant)" if prev else ":current(Var)"))
                return "dense" if prev else "ad"
            if isinstance(op, pp.ad.Scalar):
                note(covered, "leaf:Scalar")
                return "scalar"
            if isinstance(op, (pp.ad.DenseArray, pp.ad.TimeDependentDenseArray)):
                note(covered, f"leaf:{cls}")
                return "dense"
            if isinstance(op, (pp.ad.Projection, pp.ad.ProjectionList)):
                note(covered, f"leaf:{cls}(row selection, ArraySlicer)")
                return "slicer"
            if isinstance(op, pp.ad.SparseArray) or cls in ("MergedOperator", "Divergence",
                                                            "Trace", "InverseTrace",
                                                            "BoundaryProjection"):
                note(covered, f"leaf:{cls}(fixed matrix)")
                return "sparse"
            # any other leaf that parses to a sparse matrix / array
            note(uncovered, f"leaf:{cls}")
            return "sparse"
        ks = [visit(c) for c in kids]
        if opname == "evaluate":
            name, ok = _func_name(op)
            any_ad = "ad" in ks
            key = f"evaluate:{name}({','.join(ks)})"
            if ok or not any_ad:
                note(covered, key + ("" if ok else "[constant arguments]"))
            else:
                note(uncovered, key)
            return "ad" if any_ad else "dense"
        if opname == "neg":
            note(covered, f"neg({ks[0]})")
            return ks[0]
        if len(ks) != 2:
            note(uncovered, f"{opname}({','.join(ks)})")
            return "ad" if "ad" in ks else "dense"
        a, b = ks
        key = f"{opname}({a},{b})"
        num = ("ad", "dense", "scalar")
        if opname in ("add", "sub", "mul", "div", "pow"):
            if a in num and b in num:
                note(covered, key)
                return "ad" if "ad" in ks else ("dense" if "dense" in ks else "scalar")
            if "ad" not in ks:
                note(covered, key + "[constant folding]")
                return "sparse" if "sparse" in ks else "dense"
            note(uncovered, key)
            return "ad"
        if opname == "matmul":
            if a in ("sparse", "slicer") and b in ("ad", "dense"):
                note(covered, key)
                return b
            if a in ("sparse", "slicer") and b in ("sparse", "slicer"):
                note(covered, key + "[constant folding]")
                return "sparse"
            if "ad" not in ks:
                note(covered, key + "[constant folding]")
                return "dense"
            note(uncovered, key)
            return "ad"
        note(uncovered, key)
        return "ad" if "ad" in ks else "dense"

    for name, eq in model.equation_system.equations.items():
        visit(eq)
    return covered, uncovered


# ----------------------------------------------------------------------------------------
# non-smooth nodes: distance of a state from the kinks, branches taken
# ----------------------------------------------------------------------------------------
KINK_MARGIN = 1e-3      # explicit margin to every kink (difference-quotient steps <= ~5e-5)


def _partial_args(op):
    inner = getattr(getattr(getattr(op, "func", None), "__self__", None), "_func", None)
    args = []
    while isinstance(inner, functools.partial):
        args = list(inner.args) + args
        inner = inner.func
    return args


def _depends_on_current(op, cache):
    """The sub-expression contains a current-iterate variable (is not a constant)."""
    k = id(op)
    if k not in cache:
        if isinstance(op, pp.ad.Variable):
            cache[k] = not (getattr(op, "is_previous_time", False)
                            or getattr(op, "is_previous_iterate", False))
        else:
            cache[k] = any(_depends_on_current(c, cache)
                           for c in (getattr(op, "children", []) or []))
    return cache[k]


def nonsmooth_nodes(model):
    out, seen, dep = [], set(), {}

    def walk(op):
        opn = getattr(op, "operation", None)
        if opn is not None and opn.name == "evaluate" and id(op) not in seen:
            seen.add(id(op))
            name, ok = _func_name(op)
            short = name.split(".")[-1]
            if ok and short in ("maximum", "abs", "l2_norm", "heaviside", "characteristic_function") \
                    and _depends_on_current(op, dep):      # constant nodes have no derivative
                out.append((short, op))
        for c in getattr(op, "children", []) or []:
            walk(c)

    for eq in model.equation_system.equations.values():
        walk(eq)
    return out


def kink_report(model, nodes):
    """Per non-smooth node: distance to its kink and the branches taken at the current
    state (arguments evaluated by the implementation itself)."""
    es = model.equation_system
    rep = {}
    for k, (short, op) in enumerate(nodes):
        vals = [np.atleast_1d(np.asarray(c.value(es), dtype=float)) for c in op.children]
        key = f"{short}#{k}:{op.name[:40]}"
        if any(v.size == 0 for v in vals):
            continue
        if short == "maximum":
            a, b = np.broadcast_arrays(vals[0], vals[1])
            d = a - b
            rep[key] = {"margin": float(np.min(np.abs(d))),
                        "branches": [int((d >= 0).sum()), int((d < 0).sum())]}
        elif short in ("abs", "heaviside"):
            x = vals[-1]
            rep[key] = {"margin": float(np.min(np.abs(x))),
                        "branches": [int((x > 0).sum()), int((x < 0).sum())]}
        elif short == "characteristic_function":
            tol = float(_partial_args(op)[0])
            x = np.abs(vals[-1])
            # an argument that is exactly 0.0 comes from a constant branch (max(., 0)) and
            # stays 0 under perturbation; otherwise the difference quotients disagree and
            # the row is skipped by the oracle's consistency filter
            dist = np.where(x == 0.0, np.inf, np.abs(x - tol))
            rep[key] = {"margin": float(min(np.min(dist), 1.0)),
                        "branches": [int((x <= tol).sum()), int((x > tol).sum())]}
        elif short == "l2_norm":
            dim = int(_partial_args(op)[0])
            x = vals[-1]
            if dim == 1:
                rep[key] = {"margin": float(np.min(np.abs(x))),
                            "branches": [int((x > 0).sum()), int((x < 0).sum())]}
            else:
                blk = x.reshape((dim, -1), order="F")
                nrm = np.linalg.norm(blk, axis=0)
                zc = int(((blk == 0).any(axis=0) & (nrm > KINK_MARGIN)).sum())
                rep[key] = {"margin": float(np.min(nrm)), "branches": [int(nrm.size), 0],
                            "blocks_with_exact_zero_component": zc}
    return rep


def structured_state(model, rs, x):
    """Overwrite the contact variables with a patterned state: fracture cells with
    negative / positive normal jump and traction, tangential parts with an exact zero along
    one axis (3-D) or of both signs (2-D), small and large relative to the friction bound."""
    es = model.equation_system
    nd = model.nd
    x = x.copy()
    for var in es.variables:
        dofs = es.dofs_of([var])
        if var.name == "contact_traction":
            nc = dofs.size // nd
            t = np.zeros((nd, nc))
            off = int(rs.integers(0, 4))
            for c in range(nc):
                # normal traction (local): compressive and tensile cells alternate
                t[nd - 1, c] = [-1.0, 0.5, -0.25, -2.0][(c + off) % 4]
                tang = rs.choice([0.125, -0.25, 2.0, -3.0], size=nd - 1)
                if nd == 3 and rs.random() < 0.6:
                    tang[rs.integers(0, 2)] = 0.0                            # exact zero
                t[: nd - 1, c] = tang
            x[dofs] = t.ravel("F")
        elif var.name == "u_interface":
            intf = var.domain
            nc = dofs.size // nd
            half = nc // 2
            u = np.zeros((nd, nc))
            sd_pair = model.mdg.interface_to_subdomain_pair(intf)
            frac = sd_pair[1]
            spread = np.ptp(frac.nodes, axis=1)[:nd]
            normal_axis = int(np.argmin(spread))
            off = int(rs.integers(0, 4))
            for c in range(half, nc):
                vec = rs.choice([0.25, -0.5, 0.75, -0.125], size=nd)
                # normal jump: cells of both signs alternate
                vec[normal_axis] = [-0.5, 0.25, -0.125, 0.75][(c + off) % 4]
                if nd == 3 and rs.random() < 0.6:
                    tang_axes = [a for a in range(nd) if a != normal_axis]
                    vec[tang_axes[rs.integers(0, 2)]] = 0.0                  # exact zero
                u[:, c] = vec
            x[dofs] = u.ravel("F")
    return x


def tiny_slip(model, rs, x):
    """Scale the tangential part of the interface displacement (hence the slip) on every
    second fracture cell down to ~1e-9 .. 1e-10, keeping the normal part."""
    es = model.equation_system
    nd = model.nd
    x = x.copy()
    for var in es.variables:
        if var.name != "u_interface":
            continue
        dofs = es.dofs_of([var])
        nc = dofs.size // nd
        u = x[dofs].reshape((nd, nc), order="F")
        frac = model.mdg.interface_to_subdomain_pair(var.domain)[1]
        normal_axis = int(np.argmin(np.ptp(frac.nodes, axis=1)[:nd]))
        for c in range(nc // 2, nc):
            if (c % 2) == 0:
                for a in range(nd):
                    if a != normal_axis:
                        u[a, c] = rs.choice([3.0, -2.0, 1.5]) * 2.0 ** rs.choice([-30, -31, -33])
                        u[a, c - nc // 2] = 0.0
        x[dofs] = u.ravel("F")
    return x


def exact_directional_check(model, x, J, rs, ndirs=2):
    """For every equation whose translated tree contains an l2_norm node: the directional
    derivative of the tree's plain evaluation in 50-digit arithmetic (step 1e-30, far below
    any slip) against the assembled Jacobian rows.  Returns the list of bad rows."""
    es = model.equation_system
    L = C01.Lib("mp")
    h = C01.mp.mpf(10) ** (-30)
    bad, checked = [], 0
    for name, eq in es.equations.items():
        idx = es.assembled_equation_indices.get(name)
        if idx is None or len(idx) == 0:
            continue
        try:
            kind, tree = translate(eq, es)
        except Untranslatable:
            continue
        if kind != "t" or not any(t[0] == "l2" for t in C01.subtrees(tree)):
            continue
        for _ in range(ndirs):
            v = rs.standard_normal(x.size)
            xp = [[L.c(float(a)) + h * L.c(float(b)) for a, b in zip(x, v)]]
            xm = [[L.c(float(a)) - h * L.c(float(b)) for a, b in zip(x, v)]]
            fp = C01.plain(tree, xp, L, False)
            fm = C01.plain(tree, xm, L, False)
            jv = J[idx] @ v
            scale = abs(J[idx]) @ np.abs(v)
            for i in range(len(idx)):
                d = float((fp[i] - fm[i]) / (2 * h))
                checked += 1
                if abs(d - jv[i]) > 1e-6 * (scale[i] + abs(d)) + 1e-9:
                    bad.append([name, int(idx[i]), float(jv[i]), d])
    return bad, checked


# ----------------------------------------------------------------------------------------
# numerical tie of the census: each real equation, translated node by node into the C01
# tree language with the real matrices/arrays as constants, evaluates (value and
# Jacobian, by direct forward mode on AdArrays) to what the equation system assembles
# ----------------------------------------------------------------------------------------
class Untranslatable(Exception):
    pass


def _slicer_matrix(S):
    """The matrix of the linear map  y -> S @ y  of an ArraySlicer, including operations
    left pending on it by compositions (A @ S, c * S); other pending kinds are not linear."""
    rows = np.asarray(S.range_indices)
    cols = np.asarray(S.domain_indices)
    M = sps.coo_matrix((np.ones(rows.size), (rows, cols)),
                       shape=(int(S.range_size), int(S.domain_size))).tocsr()
    for operand, operation in (getattr(S, "_pending", None) or []):
        if operation == "@":
            A = _slicer_matrix(operand) if isinstance(operand, pp.matrix_operations.ArraySlicer) \
                else operand
            if not sps.issparse(A):
                raise Untranslatable("pending @ with a non-matrix operand")
            M = sps.csr_matrix(A @ M)
        elif operation == "*":
            c = np.asarray(operand, dtype=float)
            d = np.full(M.shape[0], float(c)) if c.ndim == 0 else c
            M = sps.csr_matrix(sps.diags(d) @ M)
        else:
            raise Untranslatable(f"ArraySlicer with pending '{operation}'")
    probe = np.arange(1.0, S.domain_size + 1.0)
    if not np.allclose(np.asarray(S @ probe), M @ probe, rtol=1e-13, atol=0):
        raise Untranslatable("ArraySlicer is not the matrix of its index pairs")
    return M


def _matrix_spec(M):
    M = sps.csr_matrix(M)
    rows = []
    for i in range(M.shape[0]):
        lo, hi = M.indptr[i], M.indptr[i + 1]
        rows.append([[int(j), float(a)] for j, a in zip(M.indices[lo:hi], M.data[lo:hi])])
    return {"shape": [int(M.shape[0]), int(M.shape[1])], "rows": rows, "fmt": "csr"}


def _const_value(op, es):
    v = op.value(es)
    if isinstance(v, list):          # ProjectionList: sum of the slicers
        M = None
        for S in v:
            Mi = _slicer_matrix(S)
            M = Mi if M is None else M + Mi
        return M
    if isinstance(v, pp.matrix_operations.ArraySlicer):
        return _slicer_matrix(v)
    return v


def _as_cst(v):
    if sps.issparse(v):
        raise Untranslatable("sparse constant as elementwise operand")
    a = np.asarray(v, dtype=float)
    if a.ndim == 0:
        return ["s", float(a)]
    return ["a", [float(t) for t in a]]


def translate(op, es):
    """('t', tree) for sub-expressions depending on current-iterate variables, ('c', value)
    for constants (evaluated by the implementation)."""
    opn = getattr(op, "operation", None)
    opname = opn.name if opn is not None else "void"
    kids = list(getattr(op, "children", []) or [])
    if opname == "void" or (not kids and opname != "evaluate"):
        if isinstance(op, pp.ad.Variable) and not (
                getattr(op, "is_previous_time", False) or getattr(op, "is_previous_iterate", False)):
            subs = getattr(op, "sub_vars", None) or [op]
            dofs = np.concatenate([es.dofs_of([v]) for v in subs]) if len(subs) else np.zeros(0, int)
            return "t", ["slice", ["idx", [int(d) for d in dofs]], ["var", 0]]
        return "c", _const_value(op, es)
    parts = [translate(c, es) for c in kids]
    if all(k == "c" for k, _ in parts):
        return "c", _const_value(op, es)
    if opname == "neg":
        return "t", ["neg", parts[0][1]]
    if opname == "evaluate":
        name, ok = _func_name(op)
        if not ok:
            raise Untranslatable(name)
        short = name.split(".")[-1]
        pargs = _partial_args(op)
        if short == "maximum":
            (ka, a), (kb, b) = parts
            if ka == "t" and kb == "t":
                return "t", ["max", a, b]
            if ka == "t":
                return "t", ["maxkr", a, _as_cst(b)]
            return "t", ["maxkl", _as_cst(a), b]
        (k0, a), = parts
        if short == "l2_norm":
            return "t", ["l2", int(pargs[0]), a]
        if short == "characteristic_function":
            return "t", ["fun", "characteristic", float(pargs[0]), a]
        if short == "heaviside":
            return "t", ["fun", "heaviside", float(pargs[0]), a]
        if short == "heaviside_smooth":
            raise Untranslatable("heaviside_smooth with keyword eps")
        return "t", ["fun", short, None, a]
    if len(parts) != 2:
        raise Untranslatable(f"{opname} with {len(parts)} operands")
    (ka, a), (kb, b) = parts
    if opname == "matmul":
        if ka == "c" and kb == "t" and sps.issparse(a):
            return "t", ["matmul", _matrix_spec(a), b]
        raise Untranslatable("matmul operand kinds")
    binname = {"add": "add", "sub": "sub", "mul": "mul", "div": "div", "pow": "pow"}.get(opname)
    if binname is None:
        raise Untranslatable(opname)
    if ka == "t" and kb == "t":
        return "t", [binname, a, b]
    if ka == "t":
        node = {"add": "addk", "sub": "subk", "mul": "mulk", "div": "divk", "pow": "powk"}[opname]
        return "t", [node, a, _as_cst(b)]
    node = {"add": "raddk", "sub": "rsubk", "mul": "rmulk", "div": "rdivk", "pow": "rpowk"}[opname]
    return "t", [node, b, _as_cst(a)]


def tree_tie(model, x):
    """Compare every equation with its translated C01 tree at the state x."""
    es = model.equation_system
    n = x.size
    X = pp.ad.AdArray(x.copy(), sps.identity(n, format="csr"))
    out = {"equations": 0, "translated": 0, "untranslatable": [], "max_val_err": 0.0,
           "max_jac_err": 0.0, "nodes": 0, "mismatch": []}
    for name, eq in es.equations.items():
        out["equations"] += 1
        ref = eq.value_and_jacobian(es)
        if ref.val.size == 0:
            out["translated"] += 1
            continue
        try:
            kind, tree = translate(eq, es)
        except Untranslatable as e:
            out["untranslatable"].append(f"{name}: {e}")
            continue
        if kind != "t":
            out["untranslatable"].append(f"{name}: constant equation")
            continue
        try:
            r = C01.build(tree, [X])
        except Exception as e:   # the translated tree is not well-formed: report, do not hide
            out["mismatch"].append(f"{name} (translated tree does not evaluate: {type(e).__name__}: {e})"[:200])
            continue
        out["translated"] += 1
        out["nodes"] += sum(1 for _ in C01.subtrees(tree))
        scale_v = 1.0 + float(np.max(np.abs(ref.val)))
        ev = float(np.max(np.abs(r.val - ref.val))) / scale_v
        D = (r.jac - ref.jac)
        scale_j = 1.0 + (float(np.max(np.abs(ref.jac.data))) if ref.jac.nnz else 0.0)
        ej = (float(np.max(np.abs(D.data))) if D.nnz else 0.0) / scale_j
        out["max_val_err"] = max(out["max_val_err"], ev)
        out["max_jac_err"] = max(out["max_jac_err"], ej)
        if ev > 1e-10 or ej > 1e-10:
            out["mismatch"].append(name)
    return out


# ----------------------------------------------------------------------------------------
class C03(Prop):
    id = "C03"
    props_file = "Props/C03.v"
    preamble = ("From Coq Require Import List Arith Bool.\nImport ListNotations.\n"
                "From PP Require Import Model.C01 Model.C03.\n"
                "Definition loc_ok (sizes : list nat) (r k i : nat) : bool :=\n"
                "  match locate (map (fun nk => (fst nk, Var (T:=nat) (snd nk)))\n"
                "                    (combine sizes (seq 0 (length sizes)))) r with\n"
                "  | Some (Var k', i') => Nat.eqb k' k && Nat.eqb i' i\n"
                "  | _ => false end.\n"
                "Definition rows_ok (sizes : list nat) (rows : list (nat * (nat * nat))) : bool :=\n"
                "  forallb (fun rki => loc_ok sizes (fst rki) (fst (snd rki)) (snd (snd rki))) rows.\n")
    n_cases = (20, 116)
    design_ref = "DESIGN.md §5 C03"
    technique = ("Coq proof (corollary of the C01 composition theorem over stacked equation trees) "
                 "+ census of the real operator trees + directional finite-difference oracle")
    level_text = (
        "Coq theorem C03_compose: for every system of equations whose trees are built from "
        "variables, constants (fixed discretisation matrices, parameter arrays, previous-time "
        "values) and the operators/functions of the C01 rule table, every state in the smooth "
        "domain and every direction v, each row of the assembled Jacobian applied to v is the "
        "derivative of that residual row along v (matrices held fixed); C03_residual_value, "
        "C03_rows_located.  Per run: the stacking model is compared in Coq with the real "
        "assembly's row blocks; every node of the real equation trees of the shipped model "
        "families is classified as covered by the proved table or not (census in the evidence); "
        "every real equation is translated node by node into a tree of the C01 language with the "
        "real matrices/arrays as constants, and that tree, evaluated by direct forward mode on "
        "AdArrays, reproduces the equation's assembled value and Jacobian at the tested states; "
        "the whole assembled system is checked by directional finite differences at random and "
        "at structured states (contact cells of both signs of normal jump/traction, exact zeros "
        "in one tangential component in 3-D, stick and slip), with an explicit margin to every "
        "kink and a measured branch coverage of every max/abs/l2_norm/characteristic node; one 3-D "
        "contact state with slips of ~1e-9 is checked against the exact (50-digit) directional "
        "derivative of the translated trees of the equations containing l2_norm.")
    level_note = (
        "Strength P-method: the theorem is about trees in the C01 language; that a real model "
        "equation IS such a tree is checked per run structurally (census) and numerically (the "
        "translated tree reproduces value and Jacobian; constants - also products of fixed "
        "matrices and slicers - are taken from the implementation's own evaluation), plus C02 for "
        "the parser dispatch (other builder).  Uncovered nodes (custom pp.ad.Function closures, "
        "other AbstractFunction classes) would be named in evidence and covered by the "
        "finite-difference oracle only; none occurs in the five shipped families.  States closer "
        "than the margin to a kink after 8 re-draws are counted in evidence; rows whose difference "
        "quotients at two step sizes disagree are skipped and counted.  Projection operators are "
        "row selections (ArraySlicer, property C36).  Not proved: discretisation matrices are "
        "correct; IEEE rounding.")
    rule = ("model family x {0,1,2} fractures x {Cartesian, simplex} x {2-D, 3-D} on a coarse grid with "
            "non-trivial material constants (compressible fluid etc.); states alternate between "
            "random (initial state + uniform perturbation) and structured (patterned contact "
            "traction and interface displacement); 3 random directions per state; quick: 10 "
            "configurations incl. all five families, a 3-D one-fracture model and the 3-D "
            "three-fracture models (intersection lines and a 0-d point) for poromechanics and "
            "thermoporomechanics; thorough: 29 configurations")
    trusted = ["census classifier (harness) maps porepy operator classes to the node kinds of the "
               "C01 expression language",
               "finite-difference oracle tolerances (1e-6 relative per row against the row's own "
               "magnitude of contributions sum_j |J_ij v_j|, not the global maximum)"]
    assumptions = ["discretisation matrices held fixed (constants of the trees)",
                   "states inside the smooth region of the constitutive laws"]

    def __init__(self):
        self._models = {}
        self._census = {}
        self._skipped = 0
        self._checked = 0
        self._nodes = {}
        self._branches = {}
        self._tree = {"equations": 0, "translated": 0, "nodes": 0, "max_val_err": 0.0,
                      "max_jac_err": 0.0, "untranslatable": set(), "mismatch": set()}
        self._near_kink = 0

    def generate(self, rng, n, tier):
        # (family, fractures, cartesian, dimension)
        if tier == "quick":
            configs = [("SinglePhaseFlow", 0, True, 2), ("SinglePhaseFlow", 1, True, 2),
                       ("SinglePhaseFlow", 1, False, 2), ("MassAndEnergyBalance", 1, True, 2),
                       ("MomentumBalance", 1, True, 2), ("MomentumBalance", 1, True, 3),
                       ("Poromechanics", 2, True, 2), ("Thermoporomechanics", 1, True, 2),
                       # three mutually intersecting fractures in 3-D: lines and a 0-d point
                       ("Poromechanics", 3, True, 3), ("Thermoporomechanics", 3, True, 3)]
        else:
            configs = []
            for fam in FAMILIES:
                for nf in (0, 1, 2):
                    configs.append((fam, nf, True, 2))
                configs.append((fam, 1, False, 2))
            configs += [("MomentumBalance", 1, True, 3), ("Poromechanics", 1, True, 3),
                        ("Thermoporomechanics", 2, True, 3), ("SinglePhaseFlow", 2, True, 3),
                        ("Poromechanics", 3, True, 3), ("Thermoporomechanics", 3, True, 3),
                        ("MassAndEnergyBalance", 3, True, 3), ("MomentumBalance", 3, True, 3),
                        ("Poromechanics", 3, False, 3)]
        # 3-D contact with slips of ~1e-9 on some cells (l2_norm of a tiny vector), checked
        # against the exact directional derivative of the translated tree
        yield {"family": "MomentumBalance", "nfrac": 1, "cartesian": True, "dim": 3,
               "state": "tinyslip", "seed": rng.randrange(10 ** 6), "amplitude": 0.3}
        if tier != "quick":
            yield {"family": "Poromechanics", "nfrac": 1, "cartesian": True, "dim": 3,
                   "state": "tinyslip", "seed": rng.randrange(10 ** 6), "amplitude": 0.3}
        i = 0
        while i < n:
            fam, nf, cart, dim = configs[(i // 2) % len(configs)]
            yield {"family": fam, "nfrac": nf, "cartesian": cart, "dim": dim,
                   "state": "random" if i % 2 == 0 else "structured",
                   "seed": rng.randrange(10 ** 6), "amplitude": rng.choice([0.1, 0.3, 0.5])}
            i += 1

    def _model(self, case):
        key = (case["family"], case["nfrac"], case["cartesian"], case.get("dim", 2))
        if key not in self._models:
            if len(self._models) >= 2:
                self._models.pop(next(iter(self._models)))
            m = make_model(*key)
            self._models[key] = m
            self._nodes[key] = nonsmooth_nodes(m)
            cov, unc = census(m)
            self._census["%s/%dfrac/%s/%dd" % (key[0], key[1], "cart" if key[2] else "simplex", key[3])] = {
                "covered": dict(sorted(cov.items())), "uncovered": dict(sorted(unc.items())),
                "num_dofs": int(m.equation_system.num_dofs()),
                "equations": list(m.equation_system.equations.keys())}
        return self._models[key], self._nodes[key]

    def _state(self, m, nodes, case, rs, x_init):
        """A state with an explicit margin to every kink (re-drawn up to 8 times)."""
        es = m.equation_system
        best = None
        for attempt in range(8):
            x = x_init + case["amplitude"] * rs.uniform(-1.0, 1.0, size=x_init.size) + \
                0.5 * case["amplitude"]
            if case.get("state") in ("structured", "tinyslip"):
                x = structured_state(m, rs, x)
            if case.get("state") == "tinyslip":
                x = tiny_slip(m, rs, x)
            es.set_variable_values(x, iterate_index=0)
            rep = kink_report(m, nodes)
            margin = min([r["margin"] for r in rep.values()], default=1.0)
            if best is None or margin > best[2]:
                best = (x, rep, margin)
            if margin >= KINK_MARGIN:
                break
        return best

    def run_impl(self, case):
        m, nodes = self._model(case)
        es = m.equation_system
        rs = np.random.default_rng(case["seed"])
        x_init = es.get_variable_values(iterate_index=0).copy()
        try:
            x, kinks, margin = self._state(m, nodes, case, rs, x_init)
            es.set_variable_values(x, iterate_index=0)
            tie = tree_tie(m, x)
            J, rhs = es.assemble()
            J = J.tocsr()
            blocks = [(name, [int(i) for i in idx])
                      for name, idx in es.assembled_equation_indices.items()]
            Jabs = abs(J)
            dirs = []
            # at a tiny-slip state the difference-quotient steps (>= 1e-7) are far larger than
            # the slip itself (high curvature of |u_t|): only the exact check applies there
            for _ in range(0 if case.get("state") == "tinyslip" else 3):
                v = rs.standard_normal(x.size)
                jv = J @ v
                scale = Jabs @ np.abs(v)
                fds = []
                for h in (1e-5, 1e-6, 1e-7):
                    es.set_variable_values(x + h * v, iterate_index=0)
                    rp = es.assemble(evaluate_jacobian=False)
                    es.set_variable_values(x - h * v, iterate_index=0)
                    rm = es.assemble(evaluate_jacobian=False)
                    # assemble returns the right-hand side  -residual
                    fds.append(-(rp - rm) / (2 * h))
                fds = np.array(fds)
                err = np.abs(fds - jv[None, :])
                # rows on which the difference quotients agree with each other (smooth)
                consistent = np.abs(fds[0] - fds[1]) <= 1e-6 * (scale + np.abs(fds[1])) + 1e-9 * (1 + scale.max())
                best = err.min(axis=0)
                # row-wise: relative to the row's own magnitude of contributions
                # sum_j |J_ij v_j| (observed agreement on the unchanged tree: ~1e-10), plus a
                # floor for the round-off of the difference quotient of that row
                tol = 1e-6 * (scale + np.abs(jv)) + 1e-9 * (1 + np.abs(rhs)) + 1e-11 * scale.max()
                bad = np.nonzero(consistent & (best > tol))[0]
                dirs.append({
                    "rows": int(x.size),
                    "inconsistent_rows": int((~consistent).sum()),
                    "max_rel_err": float(np.max(best / (scale + np.abs(jv) + 1e-300)
                                                * consistent)),
                    "bad_rows": [int(b) for b in bad[:5]],
                    "bad_detail": [[float(jv[b]), float(fds[1][b]), float(scale[b])] for b in bad[:5]],
                })
            out = {"dofs": int(x.size), "blocks": blocks, "dirs": dirs, "kinks": kinks,
                   "kink_margin": float(margin), "tree_tie": tie}
            if case.get("state") == "tinyslip":
                es.set_variable_values(x, iterate_index=0)
                bad, checked = exact_directional_check(m, x, J, rs)
                out["exact_rows_checked"] = checked
                out["exact_bad"] = bad[:5]
            return out
        finally:
            es.set_variable_values(x_init, iterate_index=0)

    def oracle(self, case, res):
        fam = "%s/%dd" % (case["family"], case.get("dim", 2))
        for k, r in res.get("kinks", {}).items():
            name = fam + ":" + k.split(":")[0].split("#")[0] + ":" + k.split(":", 1)[1]
            b = self._branches.setdefault(name, [0, 0, 0])
            b[0] += r["branches"][0]
            b[1] += r["branches"][1]
            b[2] += r.get("blocks_with_exact_zero_component", 0)
        if res.get("kink_margin", 1.0) < KINK_MARGIN:
            self._near_kink += 1
        t = res.get("tree_tie")
        if t:
            for k in ("equations", "translated", "nodes"):
                self._tree[k] += t[k]
            for k in ("max_val_err", "max_jac_err"):
                self._tree[k] = max(self._tree[k], t[k])
            self._tree["untranslatable"].update(t["untranslatable"])
            self._tree["mismatch"].update(fam + ":" + n for n in t["mismatch"])
        if res.get("exact_bad"):
            name, row, jv, d = res["exact_bad"][0]
            return (f"row {row} ({name}): (J v) = {jv!r} but the exact (50-digit) directional "
                    f"derivative of the equation's tree is {d!r}")
        self._exact = getattr(self, "_exact", 0) + res.get("exact_rows_checked", 0)
        for d in res["dirs"]:
            self._checked += d["rows"] - d["inconsistent_rows"]
            self._skipped += d["inconsistent_rows"]
            if d["bad_rows"]:
                b = d["bad_rows"][0]
                jv, fd, sc = d["bad_detail"][0]
                name = next((n for n, idx in res["blocks"] if b in idx), "?")
                return (f"row {b} ({name}): (J v) = {jv!r} but the residual's directional "
                        f"difference quotient is {fd!r} (row scale {sc:.3g})")
        return None

    def coq_case(self, case, res):
        sizes = [len(idx) for _, idx in res["blocks"]]
        rows = []
        for k, (_, idx) in enumerate(res["blocks"]):
            for i, r in enumerate(idx):
                rows.append(f"({r}%nat, ({k}%nat, {i}%nat))")
        if len(rows) > 3000:
            rows = rows[::7]
        t = res.get("tree_tie", {})
        tree_ok = "true" if not t.get("mismatch") else "false"
        return f"andb (rows_ok {clist(sizes, lambda s: f'{s}%nat')} {clist(rows)}) {tree_ok}"

    def nontrivial(self, case, res):
        return res["dofs"] > 4

    def finding_key(self, case, res, why):
        return f"jacobian-mismatch:{case['family']}"

    def describe(self, case):
        return case

    def extra_evidence(self):
        unc = sorted({k for c in self._census.values() for k in c["uncovered"]})
        one_sided = sorted(k for k, b in self._branches.items()
                           if (b[0] == 0 or b[1] == 0) and ":l2_norm:" not in k)
        tr = dict(self._tree)
        tr["untranslatable"] = sorted(tr["untranslatable"])
        tr["mismatch"] = sorted(tr["mismatch"])
        return {"census": self._census, "uncovered_node_kinds": unc,
                "nonsmooth_branch_coverage": {k: {"first/positive": b[0], "second/negative": b[1],
                                                   "l2_blocks_with_exact_zero_component": b[2]}
                                              for k, b in sorted(self._branches.items())},
                "nonsmooth_nodes_with_one_branch_only": one_sided,
                "states_closer_than_margin_to_a_kink": self._near_kink,
                "kink_margin": KINK_MARGIN,
                "tree_tie_numeric": tr,
                "oracle_rows_checked": self._checked,
                "oracle_rows_checked_exactly_at_tiny_slip": getattr(self, "_exact", 0),
                "oracle_rows_skipped_nonsmooth": self._skipped}

    def search(self, rng, seeds, budget_s):
        import time
        t0 = time.time()
        n = 0
        for case in self.generate(rng, 40, "thorough"):
            if time.time() - t0 > budget_s:
                break
            n += 1
            try:
                res = self.run_impl(case)
                why = self.oracle(case, res)
            except Exception:
                why = None
            if why:
                return case, res, why, n
        return None, None, None, n


PROP = C03()
