"""C03 — model Jacobians are the derivative of the model residual.

Theorem: C03_compose (corollary of the C01 composition theorem, rows stacked).
Tie: (i) the stacking model (global row -> equation, local row) is compared in Coq with
EquationSystem.assembled_equation_indices of the real assembly; (ii) census: every node
of the real equation operator trees is classified as covered by the proved rule table or
not (both sets are written to the evidence).  Oracle: directional finite differences of
the assembled residual against the assembled Jacobian at random states.
"""
from __future__ import annotations

import functools
import math
import random

import numpy as np

from harness.core import Prop, clist

import porepy as pp
from porepy.applications.md_grids.model_geometries import RectangularDomainThreeFractures
from porepy.numerics.ad import functions as adf

FAMILIES = {
    "SinglePhaseFlow": lambda: pp.SinglePhaseFlow,
    "MassAndEnergyBalance": lambda: pp.MassAndEnergyBalance,
    "MomentumBalance": lambda: pp.MomentumBalance,
    "Poromechanics": lambda: pp.Poromechanics,
    "Thermoporomechanics": lambda: pp.Thermoporomechanics,
}

TABLE_FUNCTIONS = {"exp", "log", "abs", "sin", "cos", "tan", "arcsin", "arccos", "arctan",
                   "sinh", "cosh", "tanh", "arcsinh", "arccosh", "arctanh", "heaviside",
                   "heaviside_smooth", "maximum", "characteristic_function", "l2_norm"}


def make_model(family, nfrac, cartesian):
    cls = FAMILIES[family]()

    class Model(RectangularDomainThreeFractures, cls):
        pass

    fluid = pp.FluidComponent(compressibility=0.2, density=1.3, viscosity=0.7,
                              thermal_expansion=0.1, specific_heat_capacity=1.5,
                              thermal_conductivity=0.6, normal_thermal_conductivity=0.8)
    solid = pp.SolidConstants(permeability=0.8, normal_permeability=1.2, porosity=0.2,
                              residual_aperture=0.1, biot_coefficient=0.7,
                              lame_lambda=1.5, shear_modulus=1.1,
                              fracture_normal_stiffness=1.0, thermal_expansion=0.05,
                              specific_heat_capacity=0.9, thermal_conductivity=1.3,
                              friction_coefficient=0.6, dilation_angle=0.1,
                              maximum_elastic_fracture_opening=0.0)
    params = {
        "times_to_export": [],
        "fracture_indices": list(range(nfrac)),
        "cartesian": bool(cartesian),
        "grid_type": "cartesian" if cartesian else "simplex",
        "meshing_arguments": {"cell_size": 0.5},
        "material_constants": {"fluid": fluid, "solid": solid},
    }
    m = Model(params)
    m.prepare_simulation()
    return m


# ----------------------------------------------------------------------------------------
# census of the real operator trees
# ----------------------------------------------------------------------------------------
def _func_name(op):
    """(name, covered?) of the python callable behind an ``evaluate`` node."""
    f = getattr(op, "func", None)
    owner = getattr(f, "__self__", None)
    kind = type(owner).__name__ if owner is not None else type(f).__name__
    inner = getattr(owner, "_func", None)
    base = inner
    while isinstance(base, functools.partial):
        base = base.func
    if kind == "Function" and base is not None and getattr(base, "__module__", "") == adf.__name__ \
            and getattr(base, "__name__", "") in TABLE_FUNCTIONS:
        return f"functions.{base.__name__}", True
    nm = getattr(base, "__qualname__", None) or getattr(owner, "name", None) or repr(f)[:60]
    return f"{kind}:{nm}", False


def census(model):
    """Classify every node of every equation tree.

    kind of a node: 'ad' (depends on a current-iterate variable), 'dense', 'scalar',
    'sparse', 'slicer' (constants).  A node is covered when the C01 rule table has the
    rule for its operation on these operand kinds."""
    covered, uncovered = {}, {}

    def note(d, key):
        d[key] = d.get(key, 0) + 1

    def visit(op):
        opn = getattr(op, "operation", None)
        opname = opn.name if opn is not None else "void"
        cls = type(op).__name__
        kids = list(getattr(op, "children", []) or [])
        if opname == "void" or not kids and opname != "evaluate":
            if isinstance(op, pp.ad.Variable):   # incl. MixedDimensionalVariable
                prev = bool(getattr(op, "is_previous_time", False)) or \
                    bool(getattr(op, "is_previous_iterate", False))
                note(covered, f"leaf:{cls}" + (":previous(constant)" if prev else ":current(Var)"))
                return "dense" if prev else "ad"
            if isinstance(op, pp.ad.Scalar):
                note(covered, "leaf:Scalar")
                return "scalar"
            if isinstance(op, (pp.ad.DenseArray, pp.ad.TimeDependentDenseArray)):
                note(covered, f"leaf:{cls}")
                return "dense"
            if isinstance(op, (pp.ad.Projection, pp.ad.ProjectionList)):
                note(covered, f"leaf:{cls}(row selection, ArraySlicer)")
                return "slicer"
            if isinstance(op, pp.ad.SparseArray) or cls in ("MergedOperator", "Divergence",
                                                            "Trace", "InverseTrace",
                                                            "BoundaryProjection"):
                note(covered, f"leaf:{cls}(fixed matrix)")
                return "sparse"
            # any other leaf that parses to a sparse matrix / array
            note(uncovered, f"leaf:{cls}")
            return "sparse"
        ks = [visit(c) for c in kids]
        if opname == "evaluate":
            name, ok = _func_name(op)
            any_ad = "ad" in ks
            key = f"evaluate:{name}({','.join(ks)})"
            if ok or not any_ad:
                note(covered, key + ("" if ok else "[constant arguments]"))
            else:
                note(uncovered, key)
            return "ad" if any_ad else "dense"
        if opname == "neg":
            note(covered, f"neg({ks[0]})")
            return ks[0]
        if len(ks) != 2:
            note(uncovered, f"{opname}({','.join(ks)})")
            return "ad" if "ad" in ks else "dense"
        a, b = ks
        key = f"{opname}({a},{b})"
        num = ("ad", "dense", "scalar")
        if opname in ("add", "sub", "mul", "div", "pow"):
            if a in num and b in num:
                note(covered, key)
                return "ad" if "ad" in ks else ("dense" if "dense" in ks else "scalar")
            if "ad" not in ks:
                note(covered, key + "[constant folding]")
                return "sparse" if "sparse" in ks else "dense"
            note(uncovered, key)
            return "ad"
        if opname == "matmul":
            if a in ("sparse", "slicer") and b in ("ad", "dense"):
                note(covered, key)
                return b
            if a in ("sparse", "slicer") and b in ("sparse", "slicer"):
                note(covered, key + "[constant folding]")
                return "sparse"
            if "ad" not in ks:
                note(covered, key + "[constant folding]")
                return "dense"
            note(uncovered, key)
            return "ad"
        note(uncovered, key)
        return "ad" if "ad" in ks else "dense"

    for name, eq in model.equation_system.equations.items():
        visit(eq)
    return covered, uncovered


# ----------------------------------------------------------------------------------------
class C03(Prop):
    id = "C03"
    props_file = "Props/C03.v"
    preamble = ("From Coq Require Import List Arith Bool.\nImport ListNotations.\n"
                "From PP Require Import Model.C01 Model.C03.\n"
                "Definition loc_ok (sizes : list nat) (r k i : nat) : bool :=\n"
                "  match locate (map (fun nk => (fst nk, Var (T:=nat) (snd nk)))\n"
                "                    (combine sizes (seq 0 (length sizes)))) r with\n"
                "  | Some (Var k', i') => Nat.eqb k' k && Nat.eqb i' i\n"
                "  | _ => false end.\n"
                "Definition rows_ok (sizes : list nat) (rows : list (nat * (nat * nat))) : bool :=\n"
                "  forallb (fun rki => loc_ok sizes (fst rki) (fst (snd rki)) (snd (snd rki))) rows.\n")
    n_cases = (10, 60)
    design_ref = "DESIGN.md §5 C03"
    technique = ("Coq proof (corollary of the C01 composition theorem over stacked equation trees) "
                 "+ census of the real operator trees + directional finite-difference oracle")
    level_text = (
        "Coq theorem C03_compose: for every system of equations whose trees are built from "
        "variables, constants (fixed discretisation matrices, parameter arrays, previous-time "
        "values) and the operators/functions of the C01 rule table, every state in the smooth "
        "domain and every direction v, each row of the assembled Jacobian applied to v is the "
        "derivative of that residual row along v (matrices held fixed); C03_residual_value, "
        "C03_rows_located.  Per run: the stacking model is compared in Coq with the real "
        "assembly's row blocks; every node of the real equation trees of the shipped model "
        "families is classified as covered by the proved table or not (census in the "
        "evidence); the whole assembled system, covered or not, is checked by directional finite "
        "differences at random states.")
    level_note = (
        "Strength P-method: the theorem is about trees in the C01 language; that a real model "
        "equation IS such a tree is a checked census (node kinds and operand kinds, not the "
        "numerical content of the matrices), plus C02 for the parser dispatch (other builder).  "
        "Uncovered nodes (custom pp.ad.Function closures, other AbstractFunction classes) are "
        "named in evidence and are covered by the finite-difference oracle only.  The oracle "
        "skips (and counts) directions where the difference quotients at two step sizes disagree "
        "with each other (kinks of max/abs/contact conditions).  Projection operators are counted "
        "as row selections (ArraySlicer, property C36).  Not proved: discretisation matrices are "
        "correct; IEEE rounding.")
    rule = ("model family x {0,1(,2)} fractures x {Cartesian, simplex} on a 2x2-ish grid with "
            "non-trivial material constants (compressible fluid etc.); state = initial state + "
            "uniform random perturbation; 3 random directions per state; quick: SinglePhaseFlow and "
            "MassAndEnergyBalance; thorough: all five families")
    trusted = ["census classifier (harness) maps porepy operator classes to the node kinds of the "
               "C01 expression language",
               "finite-difference oracle tolerances (1e-5 relative per row against the row's "
               "magnitude of contributions)"]
    assumptions = ["discretisation matrices held fixed (constants of the trees)",
                   "states inside the smooth region of the constitutive laws"]

    def __init__(self):
        self._models = {}
        self._census = {}
        self._skipped = 0
        self._checked = 0

    def generate(self, rng, n, tier):
        if tier == "quick":
            configs = [("SinglePhaseFlow", 0, True), ("SinglePhaseFlow", 1, True),
                       ("SinglePhaseFlow", 1, False), ("MassAndEnergyBalance", 1, True)]
        else:
            configs = []
            for fam in FAMILIES:
                for nf in (0, 1, 2):
                    configs.append((fam, nf, True))
                configs.append((fam, 1, False))
        i = 0
        while i < n:
            fam, nf, cart = configs[i % len(configs)]
            yield {"family": fam, "nfrac": nf, "cartesian": cart,
                   "seed": rng.randrange(10 ** 6), "amplitude": rng.choice([0.1, 0.3, 0.5])}
            i += 1

    def _model(self, case):
        key = (case["family"], case["nfrac"], case["cartesian"])
        if key not in self._models:
            if len(self._models) >= 3:
                self._models.pop(next(iter(self._models)))
            m = make_model(*key)
            self._models[key] = m
            cov, unc = census(m)
            self._census["%s/%dfrac/%s" % (key[0], key[1], "cart" if key[2] else "simplex")] = {
                "covered": dict(sorted(cov.items())), "uncovered": dict(sorted(unc.items())),
                "num_dofs": int(m.equation_system.num_dofs()),
                "equations": list(m.equation_system.equations.keys())}
        return self._models[key]

    def run_impl(self, case):
        m = self._model(case)
        es = m.equation_system
        rs = np.random.default_rng(case["seed"])
        x_init = es.get_variable_values(iterate_index=0).copy()
        try:
            x = x_init + case["amplitude"] * rs.uniform(-1.0, 1.0, size=x_init.size) + \
                0.5 * case["amplitude"]
            es.set_variable_values(x, iterate_index=0)
            J, rhs = es.assemble()
            J = J.tocsr()
            blocks = [(name, [int(i) for i in idx])
                      for name, idx in es.assembled_equation_indices.items()]
            Jabs = abs(J)
            dirs = []
            for _ in range(3):
                v = rs.standard_normal(x.size)
                jv = J @ v
                scale = Jabs @ np.abs(v)
                fds = []
                for h in (1e-5, 1e-6, 1e-7):
                    es.set_variable_values(x + h * v, iterate_index=0)
                    rp = es.assemble(evaluate_jacobian=False)
                    es.set_variable_values(x - h * v, iterate_index=0)
                    rm = es.assemble(evaluate_jacobian=False)
                    # assemble returns the right-hand side  -residual
                    fds.append(-(rp - rm) / (2 * h))
                fds = np.array(fds)
                err = np.abs(fds - jv[None, :])
                # rows on which the difference quotients agree with each other (smooth)
                consistent = np.abs(fds[0] - fds[1]) <= 1e-6 * (scale + np.abs(fds[1])) + 1e-9 * (1 + scale.max())
                best = err.min(axis=0)
                tol = 1e-5 * (scale + np.abs(jv)) + 1e-8 * (1 + scale.max())
                bad = np.nonzero(consistent & (best > tol))[0]
                dirs.append({
                    "rows": int(x.size),
                    "inconsistent_rows": int((~consistent).sum()),
                    "max_rel_err": float(np.max(best / (scale + np.abs(jv) + 1e-300)
                                                * consistent)),
                    "bad_rows": [int(b) for b in bad[:5]],
                    "bad_detail": [[float(jv[b]), float(fds[1][b]), float(scale[b])] for b in bad[:5]],
                })
            return {"dofs": int(x.size), "blocks": blocks, "dirs": dirs}
        finally:
            es.set_variable_values(x_init, iterate_index=0)

    def oracle(self, case, res):
        for d in res["dirs"]:
            self._checked += d["rows"] - d["inconsistent_rows"]
            self._skipped += d["inconsistent_rows"]
            if d["bad_rows"]:
                b = d["bad_rows"][0]
                jv, fd, sc = d["bad_detail"][0]
                name = next((n for n, idx in res["blocks"] if b in idx), "?")
                return (f"row {b} ({name}): (J v) = {jv!r} but the residual's directional "
                        f"difference quotient is {fd!r} (row scale {sc:.3g})")
        return None

    def coq_case(self, case, res):
        sizes = [len(idx) for _, idx in res["blocks"]]
        rows = []
        for k, (_, idx) in enumerate(res["blocks"]):
            for i, r in enumerate(idx):
                rows.append(f"({r}%nat, ({k}%nat, {i}%nat))")
        if len(rows) > 3000:
            rows = rows[::7]
        return f"rows_ok {clist(sizes, lambda s: f'{s}%nat')} {clist(rows)}"

    def nontrivial(self, case, res):
        return res["dofs"] > 4

    def finding_key(self, case, res, why):
        return f"jacobian-mismatch:{case['family']}"

    def describe(self, case):
        return case

    def extra_evidence(self):
        unc = sorted({k for c in self._census.values() for k in c["uncovered"]})
        return {"census": self._census, "uncovered_node_kinds": unc,
                "oracle_rows_checked": self._checked,
                "oracle_rows_skipped_nonsmooth": self._skipped}

    def search(self, rng, seeds, budget_s):
        import time
        t0 = time.time()
        n = 0
        for case in self.generate(rng, 40, "thorough"):
            if time.time() - t0 > budget_s:
                break
            n += 1
            try:
                res = self.run_impl(case)
                why = self.oracle(case, res)
            except Exception:
                why = None
            if why:
                return case, res, why, n
        return None, None, None, n


PROP = C03()
