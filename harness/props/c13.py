"""C13 — MPSA reproduces linear displacement fields exactly (method-level theorem +
per-instance certificate evaluated in Coq on the real matrices)."""
import numpy as np
import scipy.sparse as sps

from harness.core import Prop
from harness.props.c11 import (make_grid, grid_spec, embed_spec, BIG_SPECS, BIG_QUICK, update_cells,
                                run_update, inv_term, canon, to_dense, pk, pts, dcoo,
                                zlist, zi)

import porepy as pp

KW = "mechanics"
#: condition number (of the row-scaled local system the code inverts) above which the
#: interaction region is treated as singular: no left inverse, outside the theorems' guard
SINGULAR = 1e10


def admissible_neumann_3d(g, rng, p):
    """Random set of Neumann boundary faces no two of which share an edge (= two nodes)."""
    bfaces = [int(f) for f in g.get_all_boundary_faces()]
    fn = g.face_nodes.tocsc()
    nodes = {f: set(int(n) for n in fn[:, f].indices) for f in bfaces}
    order = list(bfaces)
    rng.shuffle(order)
    neu = []
    for f in order:
        if rng.random() < p and all(len(nodes[f] & nodes[h]) < 2 for h in neu):
            neu.append(f)
    return sorted(neu)


def shares_edge_3d(g, neu):
    fn = g.face_nodes.tocsc()
    nodes = [set(int(n) for n in fn[:, f].indices) for f in neu]
    return any(len(nodes[i] & nodes[j]) >= 2 for i in range(len(neu)) for j in range(i))


def tilted_partition(case):
    """Input class of the open finding 'tilted-2d-partition-frame': a 2-D grid that does not
    lie in (a plane parallel to) the xy-plane, discretized in pieces: several subproblems or
    a partial update."""
    e = case["grid"].get("embed")
    if not (case["dim"] == 2 and e and (case.get("nsub") or case.get("update"))):
        return False
    from harness.props.c11 import quat_rot
    return bool(abs(abs(quat_rot(e["q"])[2, 2]) - 1.0) > 1e-12)


def geom(g):
    """(cell_centers, face_centers, face_normals) as 3 x n arrays in the coordinates the
    displacement components refer to: the grid's own coordinates, except for a 2-D grid that
    does not lie in the xy-plane, where Mpsa works in the in-plane coordinates given by
    pp.map_geometry.map_grid (same call as in mpsa.py:_reduce_grid_constit_2d)."""
    arrs = (g.cell_centers, g.face_centers, g.face_normals)
    if g.dim == 2 and any(a[2].any() for a in arrs):
        cc, fn, fc, _, _, _ = pp.map_geometry.map_grid(g)
        pad = lambda a: np.vstack([a, np.zeros((1, a.shape[1]))])
        return pad(cc), pad(fc), pad(fn)
    return arrs


#: component-wise (roller) boundary conditions on rectangles: side -> Dirichlet components
#: (the other component of that side carries the exact traction).  Every component has the
#: same NUMBER of Dirichlet faces, on different faces.
ROLLERS = [({"kind": "cart", "n": [3, 3]}, {"w": [0], "e": [1], "s": [0, 1], "n": [0, 1]}),
           ({"kind": "tri", "n": [3, 3]}, {"w": [0], "s": [1], "e": [0, 1], "n": [0, 1]}),
           ({"kind": "cart", "n": [4, 2]}, {"w": [0], "e": [1], "s": [0, 1], "n": [0, 1]}),
           ({"kind": "cart", "n": [3, 3]}, {"w": [0], "s": [1], "e": [0, 1], "n": [0, 1]}),
           ({"kind": "tri", "n": [2, 2]}, {"w": [1], "e": [0], "s": [0, 1], "n": [0, 1]})]


class C13(Prop):
    id = "C13"
    props_file = "Props/C13.v"
    preamble = ("From Coq Require Import List ZArith QArith.\nImport ListNotations.\n"
                "From PP Require Import Model.C11 Model.C11_inv Model.C13 Model.C13_local.\nLocal Open Scope Z_scope.\n")
    n_cases = (24, 110)
    design_ref = "DESIGN.md §5 C13 (certificate tie K, level P-method)"
    level_text = (
        "METHOD-LEVEL Coq theorems plus per-instance certificate checks, not a proof about the "
        "vectorised Python code. (A) Interaction-region model of the weakly symmetric MPSA-W scheme "
        "over the reals, any dimension, any number of sub-cells and sub-faces: one displacement "
        "gradient per sub-cell; traction continuity (symmetric part of Hooke's law, as in the code), "
        "displacement continuity at continuity points, Dirichlet sub-faces, Neumann sub-faces with "
        "the transposed off-diagonal part taken from the weighted average gradient. For u = b + A x "
        "(ANY constant A, skew part included), one pair of Lame parameters, weights summing to one, "
        "boundary data taken from u and no elimination of the averaged part (admissibility "
        "#Neumann sub-faces <= #sub-cells, mpsa.py:_eliminate_ncasym) the constant gradient A solves "
        "every local equation (C13_linear_solves_local); the admissibility condition FOLLOWS from the "
        "property's 3-D restriction 'no two Neumann faces share an edge' on grids whose cells are simple "
        "polytopes at their vertices (C13_edge_disjoint_admissible); with a left inverse of the local "
        "system the computed gradients are A, every sub-face traction is (2 mu sym A + lambda tr A I) n "
        "(C13_unique_exact_partial; the guard is needed: C13_unique_exact_refuted exhibits a valid region "
        "without left inverse), the reconstructed displacement is u(x) (C13_bound_displacement), "
        "translations and rigid rotations give zero traction (C13_translation_zero, C13_rotation_zero); "
        "an approximate left inverse already gives uniqueness (C13_local_unique_solution). (B) Matrix "
        "level: the residuals of 'stress*u_cells + bound_stress*bdata = sigma n' and of the displacement "
        "reconstruction are linear in the twelve coefficients (b, A) (C13_linear_extension_*, "
        "C13_every_field_*). Tie = translation validation per run, exact dyadic arithmetic inside Coq, "
        "purely relative norm-wise band 1e-9: (i) the REAL matrices of pp.Mpsa for every basis field on "
        "every row of every non-Neumann face (traction) and Dirichlet face (displacement); (ii) on a "
        "third of the cases the captured matrix of all local equations applied to the constant gradient "
        "equals row by row the code's own right-hand sides (all rows but the Neumann rows; "
        "C13_local_rows_linear_extension); (iii) on a third of the cases the block inverter's output is "
        "an approximate left inverse (row defect <= 1/2) of the matrix of all local systems.")
    level_note = (
        "Not proved: that mpsa.py assembles exactly the local equations of model (A) (SubcellTopology "
        "bookkeeping, csym/casym splitting and averaging, row scaling, hf2f sums, sub-problem splitting "
        "and re-assembly) — covered by certificate (i) on the end result and (ii)/(iii) on the captured "
        "local systems of unpartitioned small runs (right-hand sides are the return values of "
        "Mpsa._create_rhs_cell_center / _create_bound_rhs; Neumann rows are skipped in (ii): they are "
        "inconsistent by construction where the averaged part is eliminated). Soundness of the boolean "
        "checkers with respect to the real-number hypotheses is NOT proved (theorems at R, certificates "
        "executed with exact dyadic arithmetic, cross-checked against Q on the first rows). "
        "C13_edge_disjoint_admissible takes 'two boundary faces of one cell meeting in a vertex share an "
        "edge' as hypothesis about the grid; the 2-D case of the property (inexact gradients only in "
        "corner regions whose faces are all Neumann) is not a theorem. Instances whose captured local "
        "systems have condition number > 1e10 are outside the left-inverse guard: excluded from the "
        "certificates, a failing oracle on them is the open finding 'singular-local-system'. 2-D grids "
        "not parallel to the xy-plane AND discretized in pieces (several subproblems or a partial update) "
        "are the input class of the open finding 'tilted-2d-partition-frame' (excluded from the "
        "certificates, oracle failures filtered by key, so another defect in that class would be masked; "
        "the large update histories are therefore never embedded). Roller (component-wise) conditions are "
        "checked by the oracle only (the Coq instance has one boundary kind per face). For a tilted 2-D grid the displacement components refer to the "
        "in-plane frame of pp.map_geometry.map_grid, which the harness calls itself (trusted). Traction "
        "is claimed on non-Neumann faces and displacement reconstruction on Dirichlet faces only. "
        "Face-wise boundary types only (no component-wise mixing, no Robin, default basis). Larger grids "
        "(24-108 cells, partitions with faces shared by three and more subproblems, perturbed hexahedra) "
        "are checked by the numpy oracle only (norm-wise relative 1e-8). Float rounding not covered. "
        "Case files are compiled in shards of 4 cases (module-level override of the shard size of "
        "harness.core.coq_eval_bools; same terms and verdicts).")
    technique = ("Coq proof of the method (interaction-region algebra over R, linearity of the matrix "
                 "residual, admissibility from the edge-disjoint restriction, uniqueness from an "
                 "approximate inverse) + per-instance certificates evaluated by vm_compute over exact "
                 "dyadic rationals on the real MPSA matrices and captured local systems + numpy oracle")
    rule = ("grids as in C11 (CartGrid, StructuredTriangleGrid, Delaunay TriangleGrid, node "
            "perturbations k/64 incl. non-planar hexahedron faces, small 3-D grids; 40% moved by "
            "x -> 2^k R x + t with exact rational rotations, translations, k in -20..10: grids in other "
            "coordinate planes, tilted, far away, tiny and huge); Lame parameters from {1/2,1,3/2,2,3} x "
            "{0,1/2,1,2,4} scaled by 2^-20..2^10; boundary: all Dirichlet, or (2-D) every boundary face "
            "independently Dirichlet/Neumann incl. all-Neumann, or (3-D) a random set of Neumann faces no "
            "two of which share an edge; half of the cases discretized in 2 or 3 overlapping subproblems; "
            "two (quick) resp. five (thorough) larger oracle-only grids incl. "
            "StructuredTetrahedralGrid([2,2,1]) / ([3,3,2]) in 4 subproblems (faces discretized three and "
            "four times) and perturbed CartGrid([2,2,2]); three random linear fields (one a pure rotation) "
            "plus one translation per case; mpsa_eta (0, 1/4, 1/3, 1/2 as scalars) and inverter (python / "
            "numba) on half of the cases; a quarter of the cases are two-step update histories (flag route "
            "or Mpsa.update_discretization()), plus oracle-only update histories on CartGrid([7,7]) (both "
            "routes, quick) and StructuredTriangleGrid([6,6]); oracle-only component-wise (roller) "
            "conditions on rectangles with the same number of Dirichlet faces per component on different "
            "faces (west u_x / east u_y, west u_x / south u_y, ...; two in quick, five in thorough), "
            "traction claimed on the non-Neumann components, displacement on the Dirichlet components; "
            "non-trivial = at least 2 cells")
    trusted = ["geometry arrays, Lame parameters, boundary flags/signs, the four matrices of the real run "
               "and the captured local matrices are passed to Coq as exact dyadic rationals",
               "pp.map_geometry.map_grid for the in-plane coordinates of tilted 2-D grids"]
    assumptions = ["constant isotropic stiffness, mu > 0, lambda >= 0 (checked per instance in Coq)",
                   "left inverse of the local systems (hypothesis; certified per instance by the "
                   "approximate-inverse certificate on a third of the small cases); admissible "
                   "interaction regions (hypothesis; derived from the 3-D edge-disjoint restriction)",
                   "after an update history the stored matrices are required to satisfy the same exactness as after a "
                   "full discretization"]

    # ------------------------------------------------------------------ generation
    def generate(self, rng, n, tier):
        # larger oracle-only cases (see harness/props/c11.py BIG_SPECS)
        big = [b for b in (BIG_SPECS[:BIG_QUICK] if tier == "quick" else BIG_SPECS)
               if not b[3].get("c11_only")]
        # component-wise (roller) boundary conditions, oracle only
        rollers = ROLLERS[:2] if tier == "quick" else ROLLERS
        nbig = min(len(big), max(0, n - 1)) if n >= 6 else 0
        nrol = min(len(rollers), max(0, n - nbig - 1)) if n >= 10 else 0
        for it in range(n):
            nsub_big = None
            extra = {}
            roller = None
            while True:
                if it >= n - nbig:
                    spec, dim, nsub_big, extra = big[it - (n - nbig)]
                    spec = dict(spec)
                    break
                if it >= n - nbig - nrol:
                    spec, roller = rollers[it - (n - nbig - nrol)]
                    spec, dim = dict(spec), 2
                    break
                spec, dim = grid_spec(rng, tier)
                if dim == 3 and tier != "quick":
                    # keep the 3-D matrices small enough for the Coq certificate
                    if spec["kind"] == "cart" and int(np.prod(spec["n"])) > 4:
                        continue
                    if spec["kind"] == "tet" and int(np.prod(spec["n"])) > 1:
                        continue
                break
            g = make_grid(spec)
            if rng.random() < 0.7 or (nsub_big is not None and spec["kind"] == "cart" and dim == 3):
                amp = rng.choice([4, 8, 12])
                nn = g.num_nodes
                for _try in range(6):
                    spec["pert"] = [[rng.randint(-amp, amp) for _ in range(dim)]
                                    for _ in range(nn)]
                    g = make_grid(spec)
                    vol = g.cell_volumes
                    # reject perturbations that flatten a cell (not a valid grid; see c11.py)
                    if np.all(np.isfinite(g.cell_centers)) and vol.min() > 1e-3 * vol.mean():
                        break
                else:
                    spec.pop("pert")
                    g = make_grid(spec)
            if rng.random() < 0.4 and roller is None and not extra.get("update"):
                # rigid motion / power-of-two scaling; the topology does not change
                spec["embed"] = embed_spec(rng)
            bfaces = [int(f) for f in g.get_all_boundary_faces()]
            rb = rng.random()
            if rb < 0.2:
                neu = []
            elif dim == 2:
                if rb < 0.3:
                    neu = list(bfaces)
                else:
                    pn = rng.choice([0.25, 0.5, 0.75])
                    neu = [f for f in bfaces if rng.random() < pn]
            else:
                neu = admissible_neumann_3d(g, rng, rng.choice([0.3, 0.6, 1.0]))
            if extra.get("bc") == "mixed":
                if dim == 2:
                    sh = list(bfaces)
                    rng.shuffle(sh)
                    neu = sorted(sh[:max(1, rng.randint(len(sh) // 3, 2 * len(sh) // 3))])
                else:
                    neu = admissible_neumann_3d(g, rng, 1.0)
            dirf = [f for f in bfaces if f not in set(neu)]
            dirc = None
            if roller is not None:
                # sides of the (unperturbed) rectangle; per side the Dirichlet components
                g0 = make_grid({k: v for k, v in spec.items() if k not in ("pert", "embed")})
                fc0 = g0.face_centers
                side = {"w": fc0[0] < 1e-9, "e": fc0[0] > fc0[0].max() - 1e-9,
                        "s": fc0[1] < 1e-9, "n": fc0[1] > fc0[1].max() - 1e-9}
                dirc = [sorted(int(f) for f in bfaces if any(side[sd_][f] and i in comps
                                                             for sd_, comps in roller.items()))
                        for i in range(2)]
                dirf = sorted(set(dirc[0]) & set(dirc[1]))
            fields = []
            for k in range(3):
                A = [[rng.randint(-3, 3) for _ in range(3)] for _ in range(3)]
                if k == 2:
                    # rigid rotation: skew gradient
                    w = [rng.randint(-3, 3) for _ in range(3)]
                    A = [[0, -w[2], w[1]], [w[2], 0, -w[0]], [-w[1], w[0], 0]]
                b = [rng.randint(-4, 4) for _ in range(3)]
                if dim == 2:
                    A = [[A[0][0], A[0][1], 0], [A[1][0], A[1][1], 0], [0, 0, 0]]
                    b[2] = 0
                fields.append({"A": A, "b": b})
            b = [rng.randint(-5, 5) for _ in range(3)]
            if dim == 2:
                b[2] = 0
            fields.append({"A": [[0] * 3] * 3, "b": b})
            sc = 2.0 ** rng.choice([0, 0, 0, -20, -6, 4, 10])
            nsub = rng.choice([None, None, 2, 3]) if g.num_cells >= 2 else None
            case = {"grid": spec, "dim": dim, "mu": sc * rng.choice([0.5, 1.0, 1.5, 2.0, 3.0]),
                    "la": sc * rng.choice([0.0, 0.5, 1.0, 2.0, 4.0]), "dir": dirf, "fields": fields,
                    "nsub": nsub, "inv": rng.random() < 0.3, "local": rng.random() < 0.34,
                    # documented optional parameters: continuity point and local inverter
                    "eta": rng.choice([None, None, 0.0, 1.0 / 3, 0.25, 0.5]),
                    "inverter": rng.choice([None, None, "python", "numba"]),
                    "update": None, "dirc": None}
            if rng.random() < 0.25:
                # two-step history: full discretization, then partial re-discretization
                case["update"] = {"route": rng.choice(["flag", "method"]),
                                  "cells": update_cells(rng, g, "random")}
            if nsub_big is not None:
                case.update(nsub=nsub_big or None, inv=False, local=False, oracle_only=True, update=None)
                if extra.get("update"):
                    case["update"] = {"route": extra["update"], "cells": update_cells(rng, g, "middle")}
            if dirc is not None:
                case.update(dirc=dirc, inv=False, local=False, oracle_only=True, nsub=None)
            yield case

    # ------------------------------------------------------------------ implementation
    _cache = (None, None)

    def _setup(self, case):
        key = repr(case)
        if self._cache[0] == key:
            return self._cache[1]
        g = make_grid(case["grid"])
        dirf = np.array(case["dir"], dtype=int)
        bc = pp.BoundaryConditionVectorial(g, dirf, ["dir"] * dirf.size)
        if case.get("dirc"):
            for i, faces in enumerate(case["dirc"]):
                bc.is_dir[i, :] = False
                bc.is_dir[i, np.array(faces, dtype=int)] = True
                bc.is_neu[i, :] = False
                bc.is_neu[i, g.get_all_boundary_faces()] = True
                bc.is_neu[i, bc.is_dir[i]] = False
        out = (g, bc)
        C13._cache = (key, out)
        return out

    def run_impl(self, case):
        g, bc = self._setup(case)
        nc = g.num_cells
        C = pp.FourthOrderTensor(case["mu"] * np.ones(nc), case["la"] * np.ones(nc))
        par = {"fourth_order_tensor": C, "bc": bc}
        if case.get("nsub"):
            par["partition_arguments"] = {"num_subproblems": int(case["nsub"])}
        if case.get("eta") is not None:
            par["mpsa_eta"] = float(case["eta"])
        if case.get("inverter"):
            par["inverter"] = case["inverter"]
        data = pp.initialize_data(g, {}, KW, par)
        discr = pp.Mpsa(KW)
        # capture the block-diagonal local systems handed to the inverter (monkey-patch, no
        # source hook) to measure their conditioning
        captured = []
        orig = pp.matrix_operations.invert_diagonal_blocks

        def spy(mat, s, method=None):
            out = orig(mat, s, method=method)
            captured.append((mat.copy(), np.array(s).copy(), out.copy()))
            return out

        pp.matrix_operations.invert_diagonal_blocks = spy
        loc = {}
        o_ds = pp.matrix_operations.diagonal_scaling_matrix
        o_rc, o_rb, o_tv = pp.Mpsa._create_rhs_cell_center, pp.Mpsa._create_bound_rhs, pp.Mpsa._tensor_vector_prod

        def w_ds(m):
            loc["n_ds"] = loc.get("n_ds", 0) + 1
            loc.setdefault("A", m.copy())
            return o_ds(m)

        def w_rc(this, *a, **k):
            out = o_rc(this, *a, **k)
            loc.setdefault("rc", out.copy())
            return out

        def w_rb(this, bound, be, st, sd, subface_rhs):
            out = o_rb(this, bound, be, st, sd, subface_rhs)
            loc.setdefault("rb", (out.copy(), be, st, subface_rhs))
            return out

        def w_tv(this, sd, c, st):
            loc.setdefault("sd", sd)
            return o_tv(this, sd, c, st)

        if case.get("local"):
            # certificate (ii): capture the local equations and both right-hand sides
            pp.matrix_operations.diagonal_scaling_matrix = w_ds
            pp.Mpsa._create_rhs_cell_center = w_rc
            pp.Mpsa._create_bound_rhs = w_rb
            pp.Mpsa._tensor_vector_prod = w_tv
        try:
            discr.discretize(g, data)
            if case.get("update"):
                run_update(discr, g, data, KW, case["update"])
        except ValueError as e:
            if "inversion of local linear systems" not in str(e):
                raise
            # exactly singular local system: the code refuses to discretize
            return {"error": "singular-local-system", "nc": int(nc), "nf": int(g.num_faces),
                    "neu_share_edge": False, "singular": True}
        finally:
            pp.matrix_operations.invert_diagonal_blocks = orig
            pp.matrix_operations.diagonal_scaling_matrix = o_ds
            pp.Mpsa._create_rhs_cell_center = o_rc
            pp.Mpsa._create_bound_rhs = o_rb
            pp.Mpsa._tensor_vector_prod = o_tv
        max_cond = 0.0
        for mat, sizes, _ in captured:
            M = mat.tocsr()
            off = np.r_[0, np.cumsum(sizes)]
            for i in range(len(sizes)):
                blk = M[off[i]:off[i + 1], off[i]:off[i + 1]].toarray()
                cnd = float(np.linalg.cond(blk)) if blk.size else 0.0
                if not np.isfinite(cnd):
                    cnd = 1e300
                max_cond = max(max_cond, cnd)
        md = data[pp.DISCRETIZATION_MATRICES][KW]
        nd = g.dim
        bfaces = [int(f) for f in g.get_all_boundary_faces()]
        cf = g.cell_faces.tocsr()
        dirset = set(int(f) for f in case["dir"])
        kinds = [0] * g.num_faces
        for f in bfaces:
            s = int(cf[f].data[0])
            kinds[f] = s * (1 if f in dirset else 2)
        # per component (roller conditions): sign * (1 Dirichlet | 2 Neumann), 0 interior
        ckinds = [[0] * g.num_faces for _ in range(nd)]
        for f in bfaces:
            s = int(cf[f].data[0])
            for i in range(nd):
                ckinds[i][f] = s * (1 if bc.is_dir[i, f] else 2)
        non_neu_rows = [f * nd + i for f in range(g.num_faces) for i in range(nd) if abs(ckinds[i][f]) != 2]
        dir_rows = [f * nd + i for f in range(g.num_faces) for i in range(nd) if abs(ckinds[i][f]) == 1]
        neu = [f for f in bfaces if abs(kinds[f]) == 2]
        local = None
        if loc.get("n_ds") == 1 and {"A", "rc", "rb", "sd"} <= set(loc):
            from porepy.numerics.fv import _fvutils
            rb, be, st, subface_rhs = loc["rb"]
            A = sps.csr_matrix(loc["A"])
            sd2 = loc["sd"]
            if not subface_rhs and A.shape[0] == A.shape[1] and A.nnz <= 2500:
                hf2f = _fvutils.map_hf_2_f(st.fno_unique, st.subfno_unique, sd2.dim)
                RB = sps.csr_matrix(rb) @ hf2f.T
                lo = int(be.exclude_bnd.shape[0])
                pad = lambda a: (np.vstack([a, np.zeros((3 - a.shape[0], a.shape[1]))])
                                 if a.shape[0] < 3 else np.asarray(a, dtype=float))
                local = {"nrows": int(A.shape[0]), "lo": lo, "hi": lo + int(be.keep_neu.shape[0]),
                         "A": canon(A), "RC": canon(loc["rc"]), "RB": canon(RB),
                         "cc": pad(sd2.cell_centers).T.tolist(), "fc": pad(sd2.face_centers).T.tolist(),
                         "nr": pad(sd2.face_normals).T.tolist()}
        inv = None
        if case.get("inv") and len(captured) == 1:
            A, _, B = captured[0]
            A, B = sps.csr_matrix(A), sps.csr_matrix(B)
            if A.shape == B.shape and A.nnz + B.nnz <= 1200:
                inv = {"n": int(A.shape[0]), "A": canon(A), "B": canon(B)}
        return {"dim": int(nd), "nf": int(g.num_faces), "nc": int(nc), "kinds": kinds, "ckinds": ckinds, "inv": inv, "local": local,
                "neu_share_edge": bool(nd == 3 and shares_edge_3d(g, neu)),
                "max_cond": max_cond, "singular": bool(max_cond > SINGULAR),
                "stress": canon(md[discr.stress_matrix_key], non_neu_rows),
                "bound_stress": canon(md[discr.bound_stress_matrix_key], non_neu_rows),
                "bdc": canon(md[discr.bound_displacement_cell_matrix_key], dir_rows),
                "bdf": canon(md[discr.bound_displacement_face_matrix_key], dir_rows)}

    # ------------------------------------------------------------------ oracle
    def oracle(self, case, res):
        if res.get("error"):
            return None  # no matrices were produced; nothing is claimed
        if res["neu_share_edge"]:
            return None  # outside the property (3-D, two Neumann faces share an edge)
        g, bc = self._setup(case)
        nd, nf, nc = res["dim"], res["nf"], res["nc"]
        S = to_dense(res["stress"], (nf * nd, nc * nd))
        BS = to_dense(res["bound_stress"], (nf * nd, nf * nd))
        DC = to_dense(res["bdc"], (nf * nd, nc * nd))
        DF = to_dense(res["bdf"], (nf * nd, nf * nd))
        kinds = np.array(res["kinds"])
        ck = np.array(res["ckinds"])              # (nd, nf), per component
        isdir = np.abs(ck) == 1
        isneu = np.abs(ck) == 2
        sgn = np.sign(ck).astype(float)
        mu, la = case["mu"], case["la"]
        cc, fcs, fns = geom(g)
        aS, aBS, aDC, aDF = (np.abs(M).sum(axis=1) for M in (S, BS, DC, DF))
        for fld in case["fields"]:
            A = np.array(fld["A"], dtype=float)[:nd, :nd]
            b = np.array(fld["b"], dtype=float)[:nd]
            uc = A @ cc[:nd] + b[:, None]
            uf = A @ fcs[:nd] + b[:, None]
            sig = mu * (A + A.T) + la * np.trace(A) * np.eye(nd)
            T = sig @ fns[:nd]
            bv = np.zeros((nd, nf))
            bv[isdir] = uf[isdir]
            bv[isneu] = sgn[isneu] * T[isneu]
            Th = (S @ uc.ravel("F") + BS @ bv.ravel("F")).reshape((nd, nf), order="F")
            # purely relative norm-wise tolerance, row by row (scale robust): 1e-8 of
            # (1-norm of the matrix rows) * (max-norm of the data) + |exact|
            umax, bmax = np.abs(uc).max(), np.abs(bv).max()
            magT = (aS * umax + aBS * bmax).reshape((nd, nf), order="F") + np.abs(T)
            excT = np.abs(Th - T) - 1e-8 * magT
            excT[isneu] = -1.0                    # nothing is claimed on Neumann components
            excT = excT.max(axis=0)
            if excT.max() > 0:
                f = int(np.argmax(excT))
                kind = "translation" if not A.any() else ("rotation" if not (A + A.T).any() else "linear field")
                return (f"{kind} A={A.tolist()} b={b.tolist()}: traction on face {f} (kind {int(kinds[f])}) "
                        f"is {Th[:, f].tolist()}, exact sigma n = {T[:, f].tolist()}")
            Uh = (DC @ uc.ravel("F") + DF @ bv.ravel("F")).reshape((nd, nf), order="F")
            magU = (aDC * umax + aDF * bmax).reshape((nd, nf), order="F") + np.abs(uf)
            excU = np.abs(Uh - uf) - 1e-8 * magU
            excU[~isdir] = -1.0
            excU = excU.max(axis=0)
            if excU.max() > 0:
                f = int(np.argmax(excU))
                return (f"linear field A={A.tolist()} b={b.tolist()}: reconstructed displacement on "
                        f"Dirichlet face {f} is {Uh[:, f].tolist()}, exact {uf[:, f].tolist()}")
        return None

    # ------------------------------------------------------------------ tie
    def _inst(self, case, res):
        g, bc = self._setup(case)
        cc, fcs, fns = geom(g)
        d = 3 if g.dim == 3 else 2
        if d == 2:
            for arr in (cc, fcs, fns):
                assert not arr[2].any()
        return ("(mk_instV {} {} {} {} {} {} {} {} {} {} {})".format(
            d, pts(cc, d), pts(fcs, d), pts(fns, d),
            pk(case["mu"]), pk(case["la"]), zlist(res["kinds"], zi),
            dcoo(res["stress"]), dcoo(res["bound_stress"]), dcoo(res["bdc"]), dcoo(res["bdf"])))

    def coq_case(self, case, res):
        if res["neu_share_edge"] or res["singular"] or case.get("oracle_only") or tilted_partition(case):
            return None  # outside the guard of the theorems / known findings / too large
        nb = sum(1 for k in res["kinds"] if k != 0)
        nn = sum(1 for k in res["kinds"] if abs(k) == 2)
        t = f"check_caseV2 {zi(res['nf'])} {zi(nb)} {zi(nn)} {self._inst(case, res)}"
        if res.get("local"):
            # certificate (ii): the captured local equations, all rows but the Neumann rows
            L = res["local"]
            d = res["dim"]
            arr = lambda key: np.array(L[key], dtype=float).T
            inst = ("(mk_instV {} {} {} {} {} {} {} {} {} [] [])".format(
                d, pts(arr("cc"), d), pts(arr("fc"), d), pts(arr("nr"), d),
                pk(case["mu"]), pk(case["la"]), zlist(res["kinds"], zi), dcoo(L["RC"]), dcoo(L["RB"])))
            t = (f"andb ({t}) (check_localV {zi(L['nrows'])} {zi(len(L['A']))} {zi(L['lo'])} "
                 f"{zi(L['hi'])} {inst} {dcoo(L['A'])})")
        if res.get("inv"):
            # the inverter's output is an approximate left inverse of all local systems
            t = f"andb ({t}) ({inv_term(res['inv'])})"
        return t

    def coq_diag(self, case, res):
        return f"diag_caseV {self._inst(case, res)}"

    def nontrivial(self, case, res):
        return res["nc"] >= 2 and not res["singular"]

    def finding_key(self, case, res, why):
        if res is not None and res.get("singular"):
            return "singular-local-system"
        if tilted_partition(case):
            return "tilted-2d-partition-frame"
        if why.startswith("translation"):
            return "translation-not-zero"
        if why.startswith("rotation"):
            return "rotation-not-zero"
        if "reconstructed displacement" in why:
            return "bound-displacement-not-exact"
        return "linear-traction-not-exact"

    def shrink(self, case, still_fails):
        for fld in case["fields"]:
            c = dict(case, fields=[fld])
            if still_fails(c):
                case = c
                break
        if case["grid"].get("pert"):
            c = dict(case, grid={k: v for k, v in case["grid"].items() if k != "pert"})
            if still_fails(c):
                case = c
        return case

    def describe(self, case):
        d = dict(case)
        d["grid"] = {k: (v if k != "pert" else f"<{len(v)} node offsets /64>") for k, v in case["grid"].items()}
        return d



# The generated case files are dominated by the time Coq needs to read the literals (the
# real matrices); the shared driver puts up to 400 cases into one file.  Smaller files let
# its existing worker pool compile them in parallel.  Same terms, same verdicts.
def _sharded_eval(pid, preamble, terms, shard=400, timeout=900, jobs=8, _orig=None):
    return _orig(pid, preamble, terms, shard=(4 if pid in ("C11", "C13") else shard),
                 timeout=timeout, jobs=jobs)


def _install_sharding():
    import functools
    from harness import core
    if getattr(core.coq_eval_bools, "_c11_sharded", False):
        return
    f = functools.partial(_sharded_eval, _orig=core.coq_eval_bools)
    f._c11_sharded = True
    core.coq_eval_bools = f


_install_sharding()

PROP = C13()
