"""C14 — FV discretisations do not depend on how the grid is split.

Theorems (Props/C14.v): the gluing of sub-discretisations and the partial update, with the
numerical kernel abstracted to a locality hypothesis.  Tie: the bookkeeping (subproblem face
sets, local-to-global maps, repetition counts, eliminated local rows, active cells/faces) of the
real `_fvutils.subproblems`, `cell_ind_for_partial_update`, `find_active_indices` and of the
loop in `Mpfa.discretize` vs the executable model, on small 2-D (thorough: 3-D) grids.
Oracle: matrix equality one-piece vs split / partial / update / other inverter, for Mpfa, Mpsa
and Biot (the locality hypothesis itself).
"""
from __future__ import annotations

import contextlib

import numpy as np
import scipy.sparse as sps

from harness.core import Prop, cnat, clist

TOL = 1e-12
BIOT_UPDATE_KEY = "biot: discretize with update_discretization=True raises TypeError (dict-valued coupling matrices indexed by rows)"
BIOT_CELLROW_KEY = "biot: update_discretization replaces cell rows computed on an incomplete stencil"
MPSA_MIXED_KEY = "mpsa: Neumann faces on grids with mixed face types (bound_stress of the one-piece discretisation is wrong)"
SHORTCUT_KEY = "split: a later subproblem covers all faces (shortcut replaces the accumulated sum)"


# ------------------------------------------------------------------ grids and data
def make_grid(spec):
    import porepy as pp

    if spec["type"] == "cart":
        g = pp.CartGrid(spec["n"])
    elif spec["type"] == "tri":
        g = pp.StructuredTriangleGrid(spec["n"])
    elif spec["type"] == "cart3":
        g = pp.CartGrid(spec["n"])
    elif spec["type"] == "tet":
        g = pp.StructuredTetrahedralGrid(spec["n"])
    elif spec["type"] == "prism":
        # extruded triangle grid: prisms with triangular AND quadrilateral faces, sheared
        base = pp.StructuredTriangleGrid(spec["n"][:2])
        base.compute_geometry()
        g, _, _ = pp.grid_extrusion.extrude_grid(base, np.arange(spec["n"][2] + 1, dtype=float))
        sh = spec.get("shear", 0.0)
        g.nodes[0] += sh * g.nodes[2]
        g.nodes[1] += 0.5 * sh * g.nodes[2]
        g.compute_geometry()
        return g
    elif spec["type"] == "delaunay":
        # unstructured triangle grid on given points / on n[0] random points
        if "points" in spec:
            g = pp.TriangleGrid(np.array(spec["points"], dtype=float))
            g.compute_geometry()
            return g
        rs = np.random.RandomState(spec["pseed"])
        for _ in range(200):  # reject slivers (keeps the local systems well conditioned)
            try:
                g = pp.TriangleGrid(rs.rand(2, spec["n"][0]))
                g.compute_geometry()
            except Exception:
                continue
            if g.num_cells >= 2 and g.cell_volumes.min() > 0.01:
                return g
        g = pp.StructuredTriangleGrid([2, 2])
        g.compute_geometry()
        return g
    else:
        raise ValueError(spec["type"])
    rs = np.random.RandomState(spec["pseed"])
    if spec["perturb"] > 0:
        g.compute_geometry()
        # move interior nodes only, so that the domain stays a box
        x = g.nodes
        lo, hi = x.min(axis=1, keepdims=True), x.max(axis=1, keepdims=True)
        interior = np.all((x[: g.dim] > lo[: g.dim] + 1e-9) & (x[: g.dim] < hi[: g.dim] - 1e-9), axis=0)
        d = (rs.rand(g.dim, g.num_nodes) - 0.5) * spec["perturb"]
        g.nodes[: g.dim, interior] += d[:, interior]
    g.compute_geometry()
    return g


def incidence(g):
    fn = g.face_nodes.tocsc()
    face_nodes = [sorted(int(x) for x in fn.indices[fn.indptr[f]:fn.indptr[f + 1]])
                  for f in range(g.num_faces)]
    cn = g.cell_nodes().tocsc()
    cell_nodes = [sorted(int(x) for x in cn.indices[cn.indptr[c]:cn.indptr[c + 1]])
                  for c in range(g.num_cells)]
    cf = g.cell_faces.tocsc()
    cell_faces = [sorted(int(x) for x in cf.indices[cf.indptr[c]:cf.indptr[c + 1]])
                  for c in range(g.num_cells)]
    return g.num_nodes, face_nodes, cell_nodes, cell_faces


def cgrid(g):
    nn, fn, cn, cf = incidence(g)
    ll = lambda L: clist(L, lambda l: clist(l, cnat))
    return f"(mkgrid {cnat(nn)} {ll(fn)} {ll(cn)} {ll(cf)})"


def copt(x):
    return "None" if x is None else f"(Some {clist(x, cnat)})"


def csub(s):
    return (f"(mksub {clist(s['faces'], cnat)} {clist(s['cells'], cnat)} "
            f"{clist(s['l2g_cells'], cnat)} {clist(s['l2g_faces'], cnat)})")


def setup(disc, g, dseed, inverter, cell_scale=None, alldir=False):
    """Parameter dictionary and discretisation object; all randomness from dseed."""
    import porepy as pp

    rs = np.random.RandomState(dseed)
    nc = g.num_cells
    bf = g.get_boundary_faces()
    scale = np.ones(nc) if cell_scale is None else cell_scale
    if disc == "mpfa":
        kxx = (1 + rs.rand(nc)) * scale
        kyy = (1 + rs.rand(nc)) * scale
        kxy = 0.3 * (rs.rand(nc) - 0.5) * scale
        if g.dim == 3:
            k = pp.SecondOrderTensor(kxx=kxx, kyy=kyy, kzz=(1 + rs.rand(nc)) * scale, kxy=kxy)
        else:
            k = pp.SecondOrderTensor(kxx=kxx, kyy=kyy, kxy=kxy)
        lab = np.array(["dir" if rs.rand() < 0.5 else "neu" for _ in bf])
        lab[0] = "dir"
        bc = pp.BoundaryCondition(g, bf, lab)
        par = {"second_order_tensor": k, "bc": bc, "mpfa_inverter": inverter}
        kw, d = "flow", pp.Mpfa("flow")
        data = pp.initialize_data({}, kw, par)
    else:
        mu = (1 + rs.rand(nc)) * scale
        lam = (1 + rs.rand(nc)) * scale
        C = pp.FourthOrderTensor(mu, lam)
        lab = np.array(["dir" if rs.rand() < 0.5 else "neu" for _ in bf])
        lab[0] = "dir"
        if alldir:
            lab[:] = "dir"
        if g.dim == 3:
            # admissible 3-D assignment for the vector schemes: no two Neumann faces share a
            # node (two Neumann faces sharing an edge make the local systems of Mpsa
            # ill-posed; the discretisation, one-piece or not, is then not well defined)
            fn = g.face_nodes.tocsc()
            used = set()
            for i, f in enumerate(bf):
                nodes = set(int(x) for x in fn.indices[fn.indptr[f]:fn.indptr[f + 1]])
                if lab[i] == "neu" and not (nodes & used):
                    used |= nodes
                else:
                    lab[i] = "dir"
        bc = pp.BoundaryConditionVectorial(g, bf, lab)
        par = {"fourth_order_tensor": C, "bc": bc, "inverter": inverter}
        kw = "mechanics"
        if disc == "biot":
            a = 1 + rs.rand(nc)
            par["scalar_vector_mappings"] = {"flow": pp.SecondOrderTensor(kxx=a, kyy=1 + rs.rand(nc))}
            d = pp.Biot(kw)
            data = pp.initialize_data({}, kw, par)
            data = pp.initialize_data(data, "flow")
        else:
            d = pp.Mpsa(kw)
            data = pp.initialize_data({}, kw, par)
    return d, data, kw


def flat(mats):
    out = {}
    for k, v in mats.items():
        if isinstance(v, dict):
            for k2, v2 in v.items():
                out[f"{k}/{k2}"] = sps.csr_matrix(v2)
        else:
            out[k] = sps.csr_matrix(v)
    return out


def maxdiff(A, B, rows=None):
    """max |A-B| relative to (1 + max|B|), optionally on the given rows only."""
    if A.shape != B.shape:
        return float("inf")
    if rows is not None:
        A, B = A[rows], B[rows]
    D = abs(A - B)
    m = D.max() if D.nnz else 0.0
    s = abs(B).max() if B.nnz else 0.0
    return float(m) / (1.0 + float(s))


@contextlib.contextmanager
def patched(obj, name, new):
    old = getattr(obj, name)
    setattr(obj, name, new)
    try:
        yield
    finally:
        setattr(obj, name, old)


def ints(a):
    return [int(x) for x in np.atleast_1d(np.asarray(a)).ravel()]


# face-row / cell-row classification of the Biot matrices
CELL_ROW = ("displacement_divergence", "bound_displacement_divergence",
            "boundary_displacement_divergence", "mpsa_consistency")


class C14(Prop):
    id = "C14"
    props_file = "Props/C14.v"
    preamble = ("From Coq Require Import List Arith.\nImport ListNotations.\n"
                "From PP Require Import Model.C14.\n")
    n_cases = (80, 600)
    design_ref = "DESIGN.md §5 C14"
    level = "proof"
    technique = ("Coq proof of the gluing / partial-update bookkeeping over the reals (kernel "
                 "locality as hypothesis) + execution correspondence of the bookkeeping + "
                 "matrix-equality oracle")
    level_text = (
        "P-core. Coq theorems (reals), for any number of subproblems and any overlap "
        "multiplicities: the sum over the subproblems of the local results with the rows "
        "outside faces_in_subgrid zeroed, mapped through l2g_faces and divided by "
        "bincount(concatenate(faces_in_subgrid)) equals the one-piece matrix on every face "
        "(C14_split_sum; the loop as it was before the repair, whose 'all faces are mine' "
        "shortcut replaced the accumulated sum, is shown wrong by C14_unrepaired_loop_wrong); after a partial update the rows of the active "
        "faces equal the one-piece rows, in update mode all other rows are untouched, otherwise "
        "zero (C14_partial_update); the boolean certificate family_ok (injective local-to-global "
        "maps, responsibility sets inside them, coverage of all faces) "
        "implies the structural hypotheses (C14_certificate_sound); the family built by the model of subproblems satisfies that "
        "certificate for EVERY consistent grid, number of parts and partition vector "
        "(C14_subproblems_family_ok, C14_grid_certificate_sound), hence the gluing theorem "
        "holds on every consistent grid for every partition (C14_split_sum_on_grid); the graph "
        "part of locality: every cell around every node of an active face, with all its faces, "
        "is in the subgrid, in all three modes (C14_locality_from_overlap, _cells_mode, "
        "_faces_mode). The executable bookkeeping "
        "model (cell_ind_for_partial_update in its three modes, subproblems, repetition counts, "
        "eliminated rows, find_active_indices) is tied to the real functions on every run and "
        "family_ok is evaluated by Coq on every real family of subproblems.")
    level_note = (
        "Repaired defects: f4eeda1b2 (Mpfa's 'all faces are mine' shortcut assigned instead of "
        "added), 56b480682 (cell_ind_for_partial_update returned repeated cells when several "
        "modes were combined); witnesses in corpus/C14. NOT proved: locality of the numerical kernel (that a subgrid with the overlap chosen by "
        "cell_ind_for_partial_update reproduces the one-piece rows of the faces it is "
        "responsible for) - hypothesis local_ok; it is exactly what the oracle tests: "
        "one-piece vs 1-8 subproblems (num_subproblems and max_memory), partial "
        "discretisation on random cell / face / node sets (rows of the active faces), update "
        "mode after a parameter change on random cells (whole matrix), python vs numba "
        "inverter, for Mpfa, Mpsa and Biot, relative tolerance 1e-12 (the graph part of "
        "locality is proved, that the kernel's rows depend only on that neighbourhood is not). "
        "pp.partition.partition is "
        "external (its output is an input of the model). Column maps (cell_map, vector "
        "expansions nd) are abstracted: local matrices have global columns. Biot's cell-row "
        "matrices are compared after partial discretisation only on cells all of whose faces "
        "are active. Open findings: Mpsa's Neumann columns are wrong on grids with mixed face "
        "types (prisms), so 3-D prism cases of the vector schemes use Dirichlet conditions; "
        "Biot.discretize with update_discretization=True raises "
        "TypeError; Biot.update_discretization (the method) returns wrong rows of the cell-row "
        "matrices for cells only some of whose faces are re-discretised (face-row matrices are "
        "exact; Mpfa and Mpsa are exact).")
    rule = ("2-D Cartesian (3x3..6x5) and structured triangle grids with perturbed interior "
            "nodes, few-cell Delaunay triangulations of random points (unbalanced partitions), structured "
            "tetrahedral grids and sheared extruded triangle grids (prisms: 3- and 4-node faces), thorough: also 3x3x2..4x3x3 Cartesian; random anisotropic tensors and mixed "
            "boundary conditions (3-D vector schemes: node-disjoint Neumann faces only); kinds: bookkeeping of subproblems(k=1..8) and of "
            "cell_ind_for_partial_update (cells/faces/nodes, single and combined; directed: sheared "
            "prism grids with node sets holding exactly 3 of the 4 nodes of a quadrilateral face), split "
            "discretisation, partial discretisation, update after parameter change through discretize(update_discretization=True) "
            "and through the method update_discretization (modified cells and faces), inverter "
            "backends; directed: simplex grids (triangles 5x5..6x6, Delaunay on 11-15 "
            "points, small tetrahedral grids) cut into 5-12 subproblems, kept only if some face is "
            "shared by >= 3 subproblems, for Mpfa, Mpsa and Biot in turn (maximum multiplicity in "
            "the evidence). Non-trivial = more than one subproblem or a proper active set.")
    trusted = [
        "pp.partition.partition (external; its output is an input of the model)",
        "locality of the MPFA/MPSA/Biot kernels: hypothesis local_ok, tested by the oracle only",
    ]
    assumptions = [
        "every face is in the responsibility set of some subproblem and the local-to-global "
        "face maps are injective (checked by Coq on every family the real code produced)",
    ]

    # ---------------------------------------------------------------- generation
    def _grid(self, rng, tier, small=False):
        r = rng.random()
        r3 = rng.random()
        if r3 < 0.12 and not small:
            # mixed face types (3- and 4-node faces)
            return {"type": "prism", "n": [rng.randint(1, 2), rng.randint(1, 2), rng.randint(1, 2)],
                    "shear": rng.choice([0.0, 0.25, 0.5]), "perturb": 0, "pseed": 0}
        if r3 < 0.2 and not small:
            n = rng.choice([[2, 2, 1], [2, 1, 1], [2, 2, 2]] + ([[3, 3, 3], [3, 2, 2]] if tier != "quick" else []))
            return {"type": "tet", "n": n, "perturb": 0, "pseed": 0}
        if tier != "quick" and r < 0.2 and not small:
            n = [rng.randint(3, 4), 3, rng.randint(2, 3)]
            t = "cart3"
        elif r < 0.15 and not small:
            # few-cell Delaunay grids: unbalanced coordinate partitions, a part can touch
            # every node (the "all faces are mine" shortcut in the middle of the loop)
            return {"type": "delaunay", "n": [rng.randint(4, 9)], "perturb": 0,
                    "pseed": rng.randrange(10**6)}
        elif r < 0.65:
            n = [rng.randint(3, 6), rng.randint(3, 5)]
            t = "cart"
        else:
            n = [rng.randint(2, 4), rng.randint(2, 4)]
            t = "tri"
        return {"type": t, "n": n, "perturb": rng.choice([0, 0.2, 0.3]) if t != "cart3" else 0,
                "pseed": rng.randrange(10**6)}

    def generate(self, rng, n, tier):
        kinds = ["book_sub", "book_active", "split", "partial", "book_sub", "book_active",
                 "split", "partial", "update", "inverter", "split", "book_active",
                 "update_method", "update_method", "dir_partial", "dir_active",
                 "dir_split", "dir_split"]
        n_dir_split = 0
        for i in range(n):
            kind = kinds[i % len(kinds)]
            if kind == "dir_split":
                # directed stream: simplex grids cut into many subproblems (5-12) so that the
                # partition has cross points: faces discretised by THREE or more subproblems
                disc = ["mpfa", "mpsa", "biot"][n_dir_split % 3]
                n_dir_split += 1
                yield self._many_parts_case(rng, tier, disc)
                continue
            if kind in ("dir_partial", "dir_active"):
                # directed stream: sheared prism grid (triangular AND quadrilateral faces),
                # node set containing exactly 3 of the 4 nodes of some quadrilateral face
                disc = rng.choice(["mpfa", "mpfa", "mpsa"])
                # large enough that the stencil of a few nodes is a proper part of the grid
                nxyz = [2, 2, 1] if disc == "mpsa" else [rng.randint(3, 4), rng.randint(2, 3),
                                                          rng.randint(2, 3)]
                yield {"kind": "partial" if kind == "dir_partial" else "book_active",
                       "grid": {"type": "prism", "n": nxyz, "shear": 0.45,
                                "perturb": 0, "pseed": 0},
                       "dseed": rng.randrange(10**6), "disc": disc,
                       # Mpsa with Neumann faces on mixed-face-type grids: open finding
                       "alldir": disc != "mpfa",
                       "spec": {"quad3": [rng.random(), rng.random(),
                                          [rng.random() for _ in range(rng.randint(0, 3))]]}}
                continue
            case = {"kind": kind, "grid": self._grid(rng, tier, small=kind in ("inverter",)),
                    "dseed": rng.randrange(10**6)}
            if kind in ("split", "partial", "update", "inverter", "update_method"):
                case["disc"] = rng.choice(["mpfa", "mpfa", "mpsa", "biot"])
                if case["grid"]["type"] == "cart3" and case["disc"] != "mpfa":
                    case["grid"]["n"] = [3, 3, 2]
                if case["grid"]["type"] in ("tet", "prism"):
                    case["disc"] = "mpfa"  # the vector schemes take minutes per 3-D simplex grid
            if kind in ("book_sub", "split"):
                case["k"] = rng.randint(1, 8)
                case["how"] = rng.choice(["num_subproblems", "max_memory"])
            if kind in ("book_active", "partial"):
                modes = rng.choice([["cells"], ["faces"], ["nodes"], ["cells"], ["nodes"],
                                    ["cells", "faces"] if kind == "book_active" else ["faces"]])
                # node sets are generic (up to a dozen nodes: faces with all / all but one
                # of their nodes specified); cell and face sets are small
                case["spec"] = {m: [rng.random() for _ in range(
                    rng.randint(1, 12) if m == "nodes" else rng.randint(1, 3))] for m in modes}
            if kind == "update_method" and rng.random() < 0.5:
                case["disc"] = "biot"  # the only scheme with cell-row matrices
            if kind in ("update", "update_method"):
                case["spec"] = {"cells": [rng.random() for _ in range(rng.randint(1, 3))]}
                if kind == "update_method" and rng.random() < 0.3:
                    case["spec"]["faces"] = [rng.random()]
            yield case

    def _many_parts_case(self, rng, tier, disc):
        from porepy.numerics.fv import _fvutils
        import warnings

        case = None
        for _ in range(12):
            r = rng.random()
            if r < 0.4:
                grid = {"type": "tri", "n": [rng.randint(5, 6), rng.randint(5, 6)],
                        "perturb": rng.choice([0, 0.2]), "pseed": rng.randrange(10**6)}
                k = rng.randint(5, 9)
            elif r < 0.8 or (disc != "mpfa" and tier == "quick"):
                grid = {"type": "delaunay", "n": [rng.randint(11, 15)], "perturb": 0,
                        "pseed": rng.randrange(10**6)}
                k = rng.randint(5, 9)
            else:
                big = tier != "quick" and disc == "mpfa"
                grid = {"type": "tet", "n": rng.choice([[2, 1, 1], [2, 2, 1]] + ([[2, 2, 2]] if big else [])),
                        "perturb": 0, "pseed": 0}
                k = rng.choice([5, 9, 12])
            case = {"kind": "split", "grid": grid, "dseed": rng.randrange(10**6), "disc": disc,
                    "k": k, "how": "num_subproblems"}
            # keep the draw only if some face is shared by at least three subproblems
            with warnings.catch_warnings():
                warnings.simplefilter("ignore")
                g = make_grid(grid)
                subs = list(_fvutils.subproblems(g, 1000, None, k))
            mult = np.bincount(np.concatenate([np.asarray(t[1], dtype=int) for t in subs]))
            if mult.max() >= 3:
                break
        return case

    def extra_evidence(self):
        return {"face_multiplicity": {
            "max_over_split_cases": self._max_mult,
            "split_cases_with_multiplicity_ge_3": dict(self._ge3),
            "split_cases": dict(self._nsplit)}}

    _max_mult = 0
    _ge3: dict = {}
    _nsplit: dict = {}

    def _note_mult(self, disc, reps):
        m = max(reps) if reps else 0
        if not self._ge3 and not self._nsplit:
            self._ge3, self._nsplit = {}, {}
        self._max_mult = max(self._max_mult, m)
        self._nsplit[disc] = self._nsplit.get(disc, 0) + 1
        if m >= 3:
            self._ge3[disc] = self._ge3.get(disc, 0) + 1

    @staticmethod
    def _pick(g, spec):
        """Index sets from fractions in [0,1) (so that they are valid on any grid)."""
        size = {"cells": g.num_cells, "faces": g.num_faces, "nodes": g.num_nodes}
        if "quad3" in spec:
            # three of the four nodes of a quadrilateral face, plus other nodes (never the fourth)
            rf, rd, others = spec["quad3"]
            fn = g.face_nodes.tocsc()
            cnt = np.diff(fn.indptr)
            quads = np.where(cnt == 4)[0]
            if quads.size == 0:
                quads = np.arange(g.num_faces)
            f = int(quads[int(rf * quads.size)])
            nodes = [int(x) for x in fn.indices[fn.indptr[f]:fn.indptr[f + 1]]]
            dropped = nodes.pop(int(rd * len(nodes)))
            extra = {int(x * g.num_nodes) for x in others} - {dropped}
            return {"cells": None, "faces": None, "nodes": sorted(set(nodes) | extra)}
        out = {}
        for m in ("cells", "faces", "nodes"):
            if m in spec:
                out[m] = sorted({int(x * size[m]) for x in spec[m]})
            else:
                out[m] = None
        return out

    # ---------------------------------------------------------------- implementation
    def run_impl(self, case):
        import porepy as pp
        from porepy.numerics.fv import _fvutils

        g = make_grid(case["grid"])
        kind = case["kind"]
        res = {"nf": g.num_faces, "nc": g.num_cells}

        if kind == "book_sub":
            parts = []
            real_part = pp.partition.partition

            def rec(sd, n):
                p = real_part(sd, n)
                parts.append(ints(p))
                return p

            with patched(pp.partition, "partition", rec):
                if case["how"] == "num_subproblems":
                    gen = _fvutils.subproblems(g, 1000, None, case["k"])
                else:
                    gen = _fvutils.subproblems(g, 1000, int(np.ceil(1000 / case["k"])), None)
                subs = [{"faces": ints(f), "cells": ints(c), "l2g_cells": ints(lc),
                         "l2g_faces": ints(lf)} for (_, f, c, lc, lf) in gen]
            num_part = int(np.ceil(1000 / int(np.ceil(1000 / case["k"])))) \
                if case["how"] == "max_memory" else case["k"]
            res.update(subs=subs, part=parts[0] if parts else [0] * g.num_cells,
                       num_part=num_part)
            res["reps"] = ints(np.bincount(np.concatenate([s["faces"] for s in subs]).astype(int)))
            res["elim"] = [int(np.sum(~np.isin(s["l2g_faces"], s["faces"]))) for s in subs]
            return res

        if kind == "book_active":
            sel = self._pick(g, case["spec"])
            par = {("specified_" + m): (np.array(v) if v is not None else None)
                   for m, v in sel.items()}
            ac, af = _fvutils.find_active_indices(par, g)
            res.update(sel=sel, active_cells=ints(ac), active_faces=ints(af))
            return res

        disc = case["disc"]
        d0, data0, kw = setup(disc, g, case["dseed"], "python", alldir=case.get("alldir", False))
        d0.discretize(g, data0)
        full = flat(data0[pp.DISCRETIZATION_MATRICES][kw])

        if kind == "inverter":
            d1, data1, _ = setup(disc, g, case["dseed"], "numba", alldir=case.get("alldir", False))
            d1.discretize(g, data1)
            other = flat(data1[pp.DISCRETIZATION_MATRICES][kw])
            res["diff"] = {k: maxdiff(other[k], full[k]) for k in full}
            return res

        if kind == "split":
            d1, data1, _ = setup(disc, g, case["dseed"], "python", alldir=case.get("alldir", False))
            peak = (d1._estimate_peak_memory(g) if disc == "mpfa"
                    else d1._estimate_peak_memory_mpsa(g))
            if case["how"] == "num_subproblems":
                pa = {"num_subproblems": case["k"]}
            else:
                pa = {"max_memory": int(np.ceil(peak / case["k"]))}
            data1[pp.PARAMETERS][kw]["partition_arguments"] = pa
            rec_subs, rec_part, rec_elim = [], [], []
            real_sub, real_part = _fvutils.subproblems, pp.partition.partition
            real_rm = _fvutils.remove_nonlocal_contribution

            def sub(*a, **k):
                for t in real_sub(*a, **k):
                    rec_subs.append({"faces": ints(t[1]), "cells": ints(t[2]),
                                     "l2g_cells": ints(t[3]), "l2g_faces": ints(t[4])})
                    yield t

            def part(sd, n):
                p = real_part(sd, n)
                rec_part.append((int(n), ints(p)))
                return p

            def rm(raw, nd, *mats):
                rec_elim.append(int(np.asarray(raw).size))
                return real_rm(raw, nd, *mats)

            with patched(_fvutils, "subproblems", sub), patched(pp.partition, "partition", part), \
                    patched(_fvutils, "remove_nonlocal_contribution", rm):
                d1.discretize(g, data1)
            got = flat(data1[pp.DISCRETIZATION_MATRICES][kw])
            res["diff"] = {k: maxdiff(got[k], full[k]) for k in full}
            res["subs"] = rec_subs
            res["num_part"] = rec_part[0][0] if rec_part else 1
            res["part"] = rec_part[0][1] if rec_part else [0] * g.num_cells
            res["reps"] = ints(np.bincount(np.concatenate([s["faces"] for s in rec_subs]).astype(int)))
            self._note_mult(disc, res["reps"])
            # one call per subproblem inside the loop (mpfa; mpsa/biot make further calls)
            res["elim"] = rec_elim[: len(rec_subs)] if disc == "mpfa" else None
            return res

        sel = self._pick(g, case["spec"])
        if kind == "partial":
            d1, data1, _ = setup(disc, g, case["dseed"], "python", alldir=case.get("alldir", False))
            for m, v in sel.items():
                if v is not None:
                    data1[pp.PARAMETERS][kw]["specified_" + m] = np.array(v)
            d1.discretize(g, data1)
            got = flat(data1[pp.DISCRETIZATION_MATRICES][kw])
            af = np.asarray(data1[pp.PARAMETERS][kw]["active_faces"])
            res["active_faces"] = ints(af)
            res["sel"] = sel
            # cells all of whose faces are active
            cf = abs(g.cell_faces)
            isact = np.zeros(g.num_faces)
            isact[af] = 1
            full_cells = np.where((cf.T @ isact) == np.asarray(cf.sum(axis=0)).ravel())[0]
            diff = {}
            for k in full:
                base = k.split("/")[0]
                nrow = full[k].shape[0]
                if base in CELL_ROW:
                    per = nrow // g.num_cells
                    rows = pp.array_operations.expand_indices_nd(full_cells, per) if per else full_cells
                else:
                    per = nrow // g.num_faces
                    rows = pp.array_operations.expand_indices_nd(af, per)
                diff[k] = maxdiff(got[k], full[k], rows=np.asarray(rows, dtype=int))
            res["diff"] = diff
            return res

        # update: the one-piece result for the OLD parameters is stored, the tensor is scaled
        # on the selected cells, and the stored matrices are updated either by
        # discretize(update_discretization=True, specified_cells) or by the method
        # update_discretization (modified_cells / modified_faces); the result must equal the
        # one-piece discretisation with the NEW parameters (whole matrices)
        import warnings
        cells = np.array(sel["cells"])
        scale = np.ones(g.num_cells)
        scale[cells] = 3.0
        dn, datan, _ = setup(disc, g, case["dseed"], "python", cell_scale=scale, alldir=case.get("alldir", False))
        dn.discretize(g, datan)
        new_full = {k: v.copy() for k, v in flat(datan[pp.DISCRETIZATION_MATRICES][kw]).items()}
        datan[pp.DISCRETIZATION_MATRICES][kw] = data0[pp.DISCRETIZATION_MATRICES][kw]
        res["sel"] = sel
        with warnings.catch_warnings():
            warnings.simplefilter("ignore")
            if kind == "update":
                datan[pp.PARAMETERS][kw]["update_discretization"] = True
                datan[pp.PARAMETERS][kw]["specified_cells"] = cells
                try:
                    dn.discretize(g, datan)
                except TypeError as e:
                    if disc != "biot":
                        raise
                    res["err"] = "TypeError: " + str(e)[:100]
                    return res
            else:
                faces = np.array(sel["faces"], dtype=int) if sel.get("faces") else np.array([], dtype=int)
                datan["update_discretization"] = {"modified_cells": cells, "modified_faces": faces}
                dn.update_discretization(g, datan)
        got = flat(datan[pp.DISCRETIZATION_MATRICES][kw])
        res["diff"] = {k: maxdiff(got[k], new_full[k]) for k in new_full}
        return res

    # ---------------------------------------------------------------- oracle
    def oracle(self, case, res):
        if "err" in res:
            return (f"{case['disc']} {case['kind']}: discretize(update_discretization=True, "
                    f"specified_cells) raised {res['err']}")
        if "diff" not in res:
            return None
        bad = {k: v for k, v in res["diff"].items() if not (v <= TOL)}
        if bad:
            k = sorted(bad, key=lambda x: -bad[x] if bad[x] == bad[x] else -1e9)[0]
            return (f"{case['disc']} {case['kind']}: matrix '{k}' differs from the one-piece "
                    f"discretisation by {bad[k]:.3e} (relative)")
        return None

    # ---------------------------------------------------------------- tie
    def coq_case(self, case, res):
        kind = case["kind"]
        if kind in ("book_sub", "split"):
            g = make_grid(case["grid"])
            elim = res.get("elim")
            subs = clist(res["subs"], csub)
            if elim is None:
                elim = [sum(1 for f in s["l2g_faces"] if f not in set(s["faces"])) for s in res["subs"]]
            return (f"tie_sub_grid {cgrid(g)} {cnat(res['num_part'])} {clist(res['part'], cnat)} "
                    f"{subs} {clist(res['reps'], cnat)} {clist(elim, cnat)}")
        if kind == "book_active":
            g = make_grid(case["grid"])
            s = res["sel"]
            return (f"tie_active {cgrid(g)} {copt(s['cells'])} {copt(s['faces'])} {copt(s['nodes'])} "
                    f"{clist(res['active_cells'], cnat)} {clist(res['active_faces'], cnat)}")
        if kind == "partial":
            g = make_grid(case["grid"])
            s = res["sel"]
            return (f"Model.C14.eqb_listN (snd (find_active_indices {cgrid(g)} {copt(s['cells'])} "
                    f"{copt(s['faces'])} {copt(s['nodes'])})) {clist(res['active_faces'], cnat)}")
        return None

    def coq_diag(self, case, res):
        if case["kind"] in ("book_sub", "split"):
            g = make_grid(case["grid"])
            return f"subproblems {cgrid(g)} {cnat(res['num_part'])} {clist(res['part'], cnat)}"
        if case["kind"] in ("book_active", "partial"):
            g = make_grid(case["grid"])
            s = res["sel"]
            return (f"find_active_indices {cgrid(g)} {copt(s['cells'])} {copt(s['faces'])} "
                    f"{copt(s['nodes'])}")
        return None

    def nontrivial(self, case, res):
        if case["kind"] in ("book_sub", "split"):
            return len(res.get("subs", [])) > 1
        if case["kind"] in ("book_active", "partial"):
            return 0 < len(res.get("active_faces", [])) < res["nf"]
        return True

    def finding_key(self, case, res, why):
        if case["kind"] == "update" and case.get("disc") == "biot" and "err" in res:
            return BIOT_UPDATE_KEY
        if (case["grid"]["type"] == "prism" and case.get("disc") in ("mpsa", "biot")
                and not case.get("alldir") and "diff" in res):
            bad = [k for k, v in res["diff"].items() if not (v <= TOL)]
            if bad and all(k.startswith("bound") for k in bad):
                return MPSA_MIXED_KEY
        if case["kind"] == "update_method" and case.get("disc") == "biot" and "diff" in res:
            bad = [k for k, v in res["diff"].items() if not (v <= TOL)]
            if bad and all(k.split("/")[0] in CELL_ROW for k in bad):
                return BIOT_CELLROW_KEY
        if case["kind"] == "split" and any(
                len(s["faces"]) == res["nf"] for s in res.get("subs", [])[1:]):
            return SHORTCUT_KEY
        return f"{case.get('disc')} {case['kind']}: {why[:30]}"


PROP = C14()
