"""C43 — unit conversion (pp.Units.convert_units, derived units, material constants) and
unit invariance of a flow run."""
import math
import os
import re
from fractions import Fraction

import numpy as np

from harness import core
from harness.core import Prop, cq, clist, cbool, cstring
from harness.translator import units_tables

import porepy as pp
import porepy.compositional.materials as materials

GEN_FILE = os.path.join(core.COQ, "Gen", "C43_tables.v")
PI_Q = cq(Fraction(math.pi))

_INFO = None


def tables():
    """Base/derived names and SI tables as the translator reads them from the repo under
    test (no file is written here)."""
    global _INFO
    if _INFO is None:
        b, d, o = units_tables.translate_units(
            os.path.join(core.REPO, "src", "porepy", "models", "units.py"))
        t = units_tables.translate_materials(
            os.path.join(core.REPO, "src", "porepy", "compositional", "materials.py"))
        _INFO = {"bases": [x[0] for x in b], "derived": [x[0] for x in d], "others": o,
                 "tables": t}
    return _INFO


# ------------------------------------------------------------------------------------------
# independent reference (oracle): the PHYSICAL definitions, not read from units.py
# ------------------------------------------------------------------------------------------
PHYS = {  # name -> (coefficient, {base: exponent});  degree = (180/pi) rad
    "Pa": (1, {"kg": 1, "m": -1, "s": -2}),
    "J": (1, {"kg": 1, "m": 2, "s": -2}),
    "N": (1, {"kg": 1, "m": 1, "s": -2}),
    "W": (1, {"kg": 1, "m": 2, "s": -3}),
    "degree": (180.0 / math.pi, {"rad": 1}),
}
BASES_PHYS = ["m", "s", "kg", "K", "mol", "rad"]
DEC = re.compile(r"[+-]?(\d+\.?\d*|\.\d+)\Z")
OUT_CHARS = set("eE_iInNfFaAtTyY")


def ref_unit_value(name, env):
    """Value of a documented unit in a unit system env (dict base -> float)."""
    if name in BASES_PHYS:
        return float(env[name])
    if name in PHYS:
        c, d = PHYS[name]
        v = float(c)
        for b, k in d.items():
            v *= float(env[b]) ** k
        return v
    return None


def ref_factor(units, env):
    """Total factor of a VALID unit string (None if it is not in the documented grammar)."""
    u = units.replace(" ", "")
    if u in ("", "1", "-"):
        return 1.0
    f = 1.0
    for sub in u.split("*"):
        parts = sub.split("^")
        if len(parts) > 2:
            return None
        x = ref_unit_value(parts[0], env)
        if x is None:
            return None
        if len(parts) == 2:
            if not DEC.match(parts[1]):
                return None
            x = x ** float(parts[1])
        f *= x
    return f


def predict(units, info):
    """'ok' | 'err' | 'unmodelled' — which class the Coq model must put the string in
    (independent re-statement of the model's classification, checked by the tie)."""
    u = units.replace(" ", "")
    if u in ("", "1", "-"):
        return "ok"
    for sub in u.split("*"):
        parts = sub.split("^")
        if len(parts) > 2:
            return "err"
        name = parts[0]
        if name in info["bases"] or name in info["derived"]:
            pass
        elif name in info["others"] or name.startswith("_"):
            return "unmodelled"
        else:
            return "err"
        if len(parts) == 2:
            p = parts[1]
            if any(c in OUT_CHARS or ord(c) >= 128 or ord(c) <= 32 for c in p):
                return "unmodelled"
            if not DEC.match(p):
                return "err"
            if Fraction(p if not p.startswith("+") else p[1:]).denominator != 1:
                return "unmodelled"  # real power: not executable in Q
    return "ok"


def rel_close(a, b, tol=1e-9):
    a, b = float(a), float(b)
    return abs(a - b) <= tol * max(abs(a), abs(b))


def mk_units(kw, s_direct=None):
    u = pp.Units(**kw)
    if s_direct is not None:
        u.s = s_direct  # "can be done by assigning to the attributes directly"
    return u


def cenv(names, vals):
    return clist(zip(names, vals), lambda p: f"({cstring(p[0])}, {cq(p[1])})")


def cqlist(vals):
    return clist(vals, cq)


# ------------------------------------------------------------------------------------------
# flow model (oracle-only part of the property)
# ------------------------------------------------------------------------------------------
def run_flow(units_kw, nfrac, perm, visc, dp):
    from porepy.applications.md_grids.model_geometries import SquareDomainOrthogonalFractures

    class Model(SquareDomainOrthogonalFractures, pp.SinglePhaseFlow):
        def bc_values_pressure(self, bg):
            vals = self.reference_variable_values.pressure * np.ones(bg.num_cells)
            faces = self.domain_boundary_sides(bg).east
            vals[faces] += self.units.convert_units(dp, "Pa")
            return vals

        def bc_type_darcy_flux(self, sd):
            sides = self.domain_boundary_sides(sd)
            return pp.BoundaryCondition(sd, sides.east + sides.west, "dir")

    units = pp.Units(**units_kw)
    solid = pp.SolidConstants(permeability=perm, porosity=0.25, residual_aperture=0.125,
                              normal_permeability=0.5)
    fluid = pp.FluidComponent(viscosity=visc, density=2.0, compressibility=0.0625)
    params = {
        "times_to_export": [], "fracture_indices": list(range(nfrac)),
        "meshing_arguments": {"cell_size": units.convert_units(0.25, "m")},
        "cartesian": True, "material_constants": {"solid": solid, "fluid": fluid},
        "units": units,
    }
    m = Model(params)
    pp.run_time_dependent_model(m, {"nl_convergence_tol_res": 1e-9, "nl_convergence_tol": 1e-9})
    sds = m.mdg.subdomains()
    out = {"p": m.units.convert_units(m.pressure(sds).value(m.equation_system), "Pa",
                                      to_si=True).tolist()}
    out["q"] = m.units.convert_units(m.darcy_flux(sds).value(m.equation_system),
                                     "Pa * m^2 * s^-1", to_si=True).tolist()
    intf = m.mdg.interfaces()
    if intf:
        out["lam"] = m.units.convert_units(
            m.interface_darcy_flux(intf).value(m.equation_system), "Pa * m^2 * s^-1",
            to_si=True).tolist()
    return out


def run_energy(units_kw, nfrac):
    from porepy.applications.md_grids.model_geometries import SquareDomainOrthogonalFractures

    class M(SquareDomainOrthogonalFractures, pp.MassAndEnergyBalance):
        def bc_type_darcy_flux(self, sd):
            s = self.domain_boundary_sides(sd); return pp.BoundaryCondition(sd, s.east + s.west, "dir")
        def bc_type_fourier_flux(self, sd):
            s = self.domain_boundary_sides(sd); return pp.BoundaryCondition(sd, s.east + s.west, "dir")
        def bc_type_enthalpy_flux(self, sd):
            s = self.domain_boundary_sides(sd); return pp.BoundaryCondition(sd, s.east + s.west, "dir")
        def bc_values_pressure(self, bg):
            v = self.reference_variable_values.pressure * np.ones(bg.num_cells)
            v[self.domain_boundary_sides(bg).west] += self.units.convert_units(1.5, "Pa"); return v
        def bc_values_temperature(self, bg):
            v = self.reference_variable_values.temperature * np.ones(bg.num_cells)
            v[self.domain_boundary_sides(bg).west] += self.units.convert_units(2.0, "K"); return v
    units = pp.Units(**units_kw)
    solid = pp.SolidConstants(permeability=0.25, porosity=0.25, residual_aperture=0.125,
                              normal_permeability=0.5, thermal_conductivity=1.5,
                              specific_heat_capacity=2.0, density=3.0)
    fluid = pp.FluidComponent(viscosity=0.75, density=2.0, compressibility=0.0625, thermal_conductivity=0.5,
                              specific_heat_capacity=1.25, thermal_expansion=0.03125, normal_thermal_conductivity=0.5)
    params = {"times_to_export": [], "fracture_indices": list(range(nfrac)),
              "meshing_arguments": {"cell_size": units.convert_units(0.25, "m")}, "cartesian": True,
              "material_constants": {"solid": solid, "fluid": fluid}, "units": units,
              "time_manager": pp.TimeManager(schedule=[0, 1.0], dt_init=1.0, constant_dt=True)}
    m = M(params)
    pp.run_time_dependent_model(m, {"nl_convergence_tol_res": 1e-9, "nl_convergence_tol": 1e-9})
    sds = m.mdg.subdomains()
    out = {"p": m.units.convert_units(m.pressure(sds).value(m.equation_system), "Pa", to_si=True),
           "T": m.units.convert_units(m.temperature(sds).value(m.equation_system), "K", to_si=True),
           "qf": m.units.convert_units(m.fourier_flux(sds).value(m.equation_system), "m^-1 * s^-1 * J", to_si=True)}
    return {k: np.asarray(v).tolist() for k, v in out.items()}

def run_momentum(units_kw, nfrac):
    from porepy.applications.md_grids.model_geometries import SquareDomainOrthogonalFractures

    class M(SquareDomainOrthogonalFractures, pp.MomentumBalance):
        def bc_type_mechanics(self, sd):
            s = self.domain_boundary_sides(sd)
            bc = pp.BoundaryConditionVectorial(sd, s.north + s.south, "dir")
            bc.internal_to_dirichlet(sd)
            return bc
        def bc_values_displacement(self, bg):
            v = np.zeros((self.nd, bg.num_cells))
            s = self.domain_boundary_sides(bg)
            v[1, s.north] = self.units.convert_units(-0.001, "m")
            v[0, s.north] = self.units.convert_units(0.0005, "m")
            return v.ravel("F")
    units = pp.Units(**units_kw)
    solid = pp.SolidConstants(shear_modulus=2.0, lame_lambda=3.0, density=1.5, residual_aperture=0.125,
                              friction_coefficient=0.5, fracture_normal_stiffness=4.0, maximum_elastic_fracture_opening=0.0, fracture_gap=0.0)
    numerical = pp.NumericalConstants(characteristic_displacement=0.001, characteristic_contact_traction=1.0)
    params = {"times_to_export": [], "fracture_indices": list(range(nfrac)),
              "meshing_arguments": {"cell_size": units.convert_units(0.25, "m")}, "cartesian": True,
              "material_constants": {"solid": solid, "numerical": numerical}, "units": units}
    m = M(params)
    pp.run_time_dependent_model(m, {"nl_convergence_tol_res": 1e-9, "nl_convergence_tol": 1e-9})
    sds = m.mdg.subdomains(dim=2)
    out = {"u": m.units.convert_units(m.displacement(sds).value(m.equation_system), "m", to_si=True),
            "sigma": m.units.convert_units(m.stress(sds).value(m.equation_system), "Pa * m", to_si=True)}
    fr = m.mdg.subdomains(dim=1)
    if fr:
        out["jump"] = m.units.convert_units(m.displacement_jump(fr).value(m.equation_system), "m", to_si=True)
        out["trac"] = m.contact_traction(fr).value(m.equation_system) * 1.0
    return {k: np.asarray(v).tolist() for k, v in out.items()}


# ------------------------------------------------------------------------------------------
class C43(Prop):
    translator_output = True  # coq/Gen/C43_tables.v is regenerated from /repo (also by setup.sh)
    id = "C43"
    props_file = "Props/C43.v"
    preamble = ("From Coq Require Import String List ZArith QArith.\nImport ListNotations.\n"
                "From PP Require Import Model.C43 Model.C43_fields Gen.C43_tables.\n"
                "Open Scope string_scope.\n"
                f"Definition pif : Q := {PI_Q}.\n"
                "Definition tab (c : string) := match assoc c si_tables with Some t => t "
                "| None => [] end.\n"
                "Definition flds (c : string) := match assoc c class_fields with Some t => t "
                "| None => [] end.\n")
    n_cases = (300, 10000)
    design_ref = "DESIGN.md §5 C43"
    level_text = (
        "Coq theorems (over the reals) about an executable transcription of "
        "Units.convert_units (the unit-string grammar exactly as the code parses it), "
        "Units.__init__, the derived-unit properties and Constants.__post_init__/to_units, with "
        "the tables (base units, bodies of the @property methods, SI_units dictionaries, "
        "dataclass fields with defaults) regenerated from units.py/materials.py by a fail-closed "
        "ast translator on every run: for every unit system with positive base units, every "
        "value list and EVERY unit string the round trip to simulation units and back is the "
        "identity and exceptions do not depend on value or direction (C43_roundtrip, integer and "
        "decimal powers); 'a*b' converts as a then b for any number type (C43_compose); Pa, J, "
        "N, W, degree equal their base-unit expressions and their spellings over base units "
        "convert identically (C43_derived, C43_derived_spellings, against the generated table); "
        "unit strings with equal dimension normal forms convert identically and never raise, "
        "for integer powers (C43_dimension_sound) and for arbitrary decimal powers "
        "(C43_dimension_sound_real_powers, C43_real_power_spellings); every SI_units entry is "
        "well-formed and every dataclass field of every material class is declared "
        "(C43_tables_wellformed, C43_fields_declared), so material constants built from any "
        "keyword values keep and recover their SI values in and across unit systems and never "
        "raise (C43_material_roundtrip[_any_table]); Units.__init__ accepts exactly numeric "
        "keywords for base units with s isclose 1 (C43_units_init); the rational instance "
        "executed by the tie is the real instance on embedded data, for convert_units and for "
        "the material wrappers (C43_transfer, C43_material_transfer).  The model is tied to the "
        "code on every run by executing both in exact rationals on random unit systems "
        "(including power-of-two scalings over 2^-60..2^60), unit strings (whitespace, markers, "
        "repeated symbols, negative/zero powers, malformed strings), python/numpy scalars, "
        "0-d, float, integer, boolean, strided and Fortran-ordered arrays, constructor "
        "arguments and material classes (defaults taken from the generated field table), Coq "
        "comparing the outputs.")
    level_note = (
        "Oracle-only (NOT proved, no model): 'a model run with scaled units gives the same SI "
        "solution' — checked by running pp.SinglePhaseFlow, pp.MassAndEnergyBalance and "
        "pp.MomentumBalance (with contact mechanics when fractured) on a small Cartesian grid "
        "with 0-2 fractures in scaled m/kg/K and comparing SI pressures, temperatures, fluxes, "
        "displacements, stresses, jumps and tractions to 1e-8. Also oracle-only: the returned "
        "array never shares memory with the argument (in-place mutation probes both ways). "
        "Theorems are over exact reals (x**float(p) = Rpower on positive x); floating-point "
        "rounding is covered only by the 1e-9 relative comparison of the tie. Decimal "
        "non-integer powers are proved (round trip, composition, dimension normal form on units "
        "with coefficient 1: base units, Pa, J, N, W) but executed only against the float "
        "oracle. Units.__init__ is modelled over Q only (no real instance needed). Power "
        "strings in exponent/inf/nan/underscore notation and method/private attribute names are "
        "outside the model (Unmodelled; the tie checks the class boundary). Composition is "
        "stated for factors that are not the whole-string dimensionless markers '', '1', '-' "
        "('1*m' raises AttributeError by the documented grammar). A keyword that is not a "
        "dataclass field (TypeError of the generated __init__) is not generated. Trusted: Coq "
        "kernel + vm_compute, the translator harness/translator/units_tables.py, the harness.")
    technique = ("Coq proof over R (field/positivity, dimension normal form) on translator-"
                 "generated unit tables + vm_compute execution correspondence in Q + oracle")
    rule = ("unit systems: base units drawn from powers of 2 and small rationals times powers "
            "of ten (passed as float or int; the model gets the exact binary value), 15% "
            "'extreme' systems with exact scalings 2^+-(20..60) on every base unit and s assigned "
            "directly; unit strings: 0-4 factors from base+derived names with integer powers in "
            "many spellings, decimal powers, random spaces, one symbol repeated 2-4 times with "
            "different powers, the markers '', '1', '-', and a stream of malformed strings "
            "(unknown names, '1*m', 'm**s', 'm^2^3', 'm^', 'm^x', 'Pa*m^3/kg', exponent "
            "notation, method names); values: dyadic python/np.float64 scalars, 0-d arrays, "
            "float / integer / boolean arrays of length 0-4 and 2x2, strided views into a larger "
            "buffer, Fortran order; each conversion is also run backwards and split at a random "
            "'*'; the returned array and the argument are overwritten in place afterwards "
            "(aliasing probe, buffer around a view checked); plus constructor argument cases, "
            "derived-unit reads, material-constant objects of every class (keyword subsets, "
            "defaults from the generated field table, to_units twice, original re-read), and "
            "scaled runs of three model families; non-trivial = a conversion with at least one "
            "non-unit factor, or a non-convert case")
    trusted = ["translator harness/translator/units_tables.py (fail-closed, grammar in its "
               "docstring)",
               "floats/ints handed to the implementation are represented exactly; comparison "
               "|impl-model| <= 1e-9*|model| inside Coq"]
    assumptions = ["base units are positive numbers",
                   "np.pi is a positive constant (theorems hold for any positive value)"]
    extra_targets = ()

    def __init__(self):
        self._gen_log = ""
        self._flow = {"runs": 0, "max_rel": 0.0}
        self._classes = {}

    # -- translator --------------------------------------------------------------------
    def regenerate(self):
        global _INFO
        _INFO = None
        try:
            info = units_tables.generate(core.REPO, GEN_FILE)
        except units_tables.TranslateError as e:
            return False, str(e)
        except (OSError, SyntaxError) as e:
            return False, f"{type(e).__name__}: {e}"
        self._gen_log = (f"{len(info['bases'])} base units, {len(info['derived'])} derived "
                         f"units, {len(info['tables'])} SI_units tables")
        return True, self._gen_log

    # -- generator ---------------------------------------------------------------------
    def _scale(self, rng):
        r = rng.random()
        if r < 0.15:
            return 1
        if r < 0.5:
            return float(Fraction(2) ** rng.randint(-6, 6))
        if r < 0.6:
            return rng.choice([2, 3, 5, 10, 1000])
        num, den = rng.choice([(1, 1), (3, 4), (5, 2), (7, 8), (9, 5), (1, 3), (11, 10)])
        return float(Fraction(num, den) * Fraction(10) ** rng.randint(-3, 3))

    def _units_kw(self, rng, info):
        keys = [b for b in info["bases"] if b != "s"]
        kw = {}
        for k in keys:
            if rng.random() < 0.6:
                kw[k] = self._scale(rng)
        if rng.random() < 0.2:
            kw["s"] = rng.choice([1, 1.0, 1.0 + 2.0 ** -30])
        s_direct = None
        if rng.random() < 0.15:
            s_direct = rng.choice([2.0, 0.5, 60.0, 0.125])
        return kw, s_direct

    def _power(self, rng):
        r = rng.random()
        if r < 0.75:
            k = rng.randint(-3, 3)
            forms = [str(k), f"{k}.0", f"{k}.", f"{k}.00"]
            if k >= 0:
                forms += [f"+{k}", f"0{k}", f"+{k}.0"]
            if k == 0:
                forms += ["-0", ".0", "-.0"]
            return rng.choice(forms)
        return rng.choice(["0.5", "-0.5", "1.5", "-1.5", "2.25", ".5", "-.25", "+0.75", "0.125"])

    def _spaces(self, rng, s):
        if rng.random() < 0.5:
            return s
        out = []
        for ch in s:
            if rng.random() < 0.15:
                out.append(" " * rng.randint(1, 2))
            out.append(ch)
        if rng.random() < 0.3:
            out.append(" ")
        return "".join(out)

    def _factor(self, rng, names):
        n = rng.choice(names)
        if rng.random() < 0.55:
            return n + "^" + self._power(rng)
        return n

    BAD = ["Q", "bar", "Pascal", "", "1", "-", "m^2^3", "kg^1^", "m^", "s^x", "m^--1", "m^1.2.3",
           "m^.", "m^+", "m^-", "m^3/kg", "m/s", "K^2,0", "M", "m^1e1", "kg^1E0", "m^inf",
           "m^nan", "s^1_0", "convert_units", "__init__", "_m", "__class__", "foo^1e1", "m^0x2",
           "Pa^(2)", "rad^2j", "mol^١"]

    def _gen_convert(self, rng, info):
        names = info["bases"] + info["derived"]
        kw, s_direct = self._units_kw(rng, info)
        mode = rng.random()
        extreme = mode < 0.15
        if extreme:
            # exact power-of-two scalings over many orders of magnitude (tiny and huge)
            kw = {k: float(2.0 ** (rng.choice([-1, 1]) * rng.randint(20, 60)))
                  for k in info["bases"] if k != "s" and rng.random() < 0.8}
            s_direct = rng.choice([None, None, 2.0 ** 20, 2.0 ** -20])
        r = rng.random()
        split = None
        valid = True
        if extreme or 0.15 <= mode < 0.27:
            if extreme:
                facs = [rng.choice(names) + rng.choice(["", "^2", "^-1", "^-2", "^1", "^0"])
                        for _ in range(rng.choice([1, 2]))]
            else:
                # one symbol repeated with different powers (they must accumulate)
                n0 = rng.choice(names)
                facs = [n0 + (("^" + self._power(rng)) if rng.random() < 0.7 else "")
                        for _ in range(rng.randint(2, 4))]
            if len(facs) >= 2:
                i = rng.randint(1, len(facs) - 1)
                a = self._spaces(rng, "*".join(facs[:i]))
                b = self._spaces(rng, "*".join(facs[i:]))
                unit = a + "*" + b
                split = [a, b]
            else:
                unit = self._spaces(rng, facs[0])
        elif r < 0.07:
            unit = self._spaces(rng, rng.choice(["", "1", "-"]))
            if rng.random() < 0.3:
                unit = " " * rng.randint(0, 3) + unit
        else:
            k = rng.choice([1, 1, 2, 2, 3, 4])
            facs = [self._factor(rng, names) for _ in range(k)]
            if r < 0.3:
                facs.insert(rng.randint(0, len(facs)), rng.choice(self.BAD))
                valid = False
            if len(facs) >= 2:
                i = rng.randint(1, len(facs) - 1)
                a = self._spaces(rng, "*".join(facs[:i]))
                b = self._spaces(rng, "*".join(facs[i:]))
                unit = a + "*" + b
                split = [a, b]
            else:
                unit = self._spaces(rng, facs[0])
        def dy():
            if rng.random() < 0.08:
                return 0.0
            return rng.randint(-(2 ** 12), 2 ** 12) / float(2 ** rng.randint(0, 8))
        r = rng.random()
        if r < 0.35:
            value, shape, dtype = [dy() if rng.random() < 0.7 else rng.randint(-50, 50)], None, "scalar"
            dtype = "int" if isinstance(value[0], int) else "float"
            scalar = True
        else:
            scalar = False
            shape = rng.choice([[0], [1], [2], [3], [4], [2, 2]])
            n = int(np.prod(shape))
            if rng.random() < 0.2:
                dtype = "int"
                value = [rng.randint(-100, 100) for _ in range(n)]
            else:
                dtype = "float"
                value = [dy() for _ in range(n)]
        vkind = "py"
        if scalar and dtype == "float" and rng.random() < 0.3:
            vkind = rng.choice(["np64", "zerod"])
            if vkind == "zerod":
                scalar, shape = False, []
        elif not scalar and dtype == "float" and rng.random() < 0.3:
            vkind = rng.choice(["view", "fortran"]) if len(shape) == 2 or rng.random() < 0.5 else "view"
            if vkind == "fortran" and len(shape) != 2:
                vkind = "view"
        elif not scalar and dtype == "int" and rng.random() < 0.3:
            vkind = "bool"
            value = [rng.randint(0, 1) for _ in value]
        return {"kind": "convert", "units_kw": kw, "s_direct": s_direct, "unit": unit,
                "to_si": rng.random() < 0.5, "split": split, "valid": valid,
                "value": value, "scalar": scalar, "shape": shape, "dtype": dtype,
                "vkind": vkind}

    def _gen_init(self, rng, info):
        kw = []
        keys = list(info["bases"])
        rng.shuffle(keys)
        for k in keys[:rng.randint(0, len(keys))]:
            if k == "s":
                v = rng.choice([1, 1.0, 1.0 + 2.0 ** -20, 1.000009, 1.00002, 0.999995,
                                0.9999, 2.0, 0])
            else:
                v = self._scale(rng)
            kw.append([k, v])
        r = rng.random()
        if r < 0.2:
            kw.insert(rng.randint(0, len(kw)), [rng.choice(["Pa", "km", "M", "length", "J"]),
                                                self._scale(rng)])
        elif r < 0.4:
            kw.insert(rng.randint(0, len(kw)), [rng.choice(keys), {"other": rng.choice(
                ["str", "none", "list", "complex"])}])
        # distinct keys (a call cannot repeat a keyword)
        seen, out = set(), []
        for k, v in kw:
            if k not in seen:
                seen.add(k)
                out.append([k, v])
        return {"kind": "init", "kwargs": out}

    def _gen_material(self, rng, info):
        classes = [c for c, t in info["tables"].items() if t]
        cls = rng.choice(classes)
        tab = info["tables"][cls]
        fields = []
        for k, _ in tab:
            if rng.random() < 0.5:
                v = rng.randint(-64, 640) / float(2 ** rng.randint(0, 6))
                if rng.random() < 0.1:
                    v = rng.randint(0, 5)
                fields.append([k, v])
        kw1, _ = self._units_kw(rng, info)
        kw2, _ = self._units_kw(rng, info)
        kw3, _ = self._units_kw(rng, info)
        return {"kind": "material", "cls": cls, "fields": fields, "units1": kw1, "units2": kw2,
                "units3": kw3}

    def generate(self, rng, n, tier):
        info = tables()
        nflow = 2 if tier == "quick" else 7
        for i in range(n):
            r = rng.random()
            if i < nflow:
                sc = [(2.0, 3.0, 1.0), (0.5, 8.0, 4.0), (4.0, 0.25, 0.5), (10.0, 1000.0, 1.0),
                      (0.125, 2.0, 16.0)]
                rng.shuffle(sc)
                family = "flow" if i == 0 else ["energy", "momentum", "flow"][(i - 1) % 3]
                yield {"kind": "flow", "family": family, "nfrac": rng.randint(0, 2),
                       "perm": rng.choice([0.25, 0.5, 2.0]), "visc": rng.choice([0.75, 1.0, 0.5]),
                       "dp": rng.choice([1.5, 1.0, 3.0]),
                       "scalings": [{"m": a, "kg": b, "K": c} for a, b, c in sc[:2]]}
            elif r < 0.72:
                yield self._gen_convert(rng, info)
            elif r < 0.8:
                kw, s_direct = self._units_kw(rng, info)
                yield {"kind": "derived", "units_kw": kw, "s_direct": s_direct}
            elif r < 0.88:
                yield self._gen_init(rng, info)
            else:
                yield self._gen_material(rng, info)

    # -- implementation ------------------------------------------------------------------
    def _env(self, u, info):
        return [getattr(u, b) for b in info["bases"]]

    def _call(self, u, value, unit, to_si, catch_all):
        self._raw = None
        try:
            r = u.convert_units(value, unit, to_si)
            self._raw = r
        except AttributeError:
            return ["err", "AttrErr"]
        except ValueError:
            return ["err", "ValueErr"]
        except Exception as e:
            if catch_all:
                return ["err", "Other:" + type(e).__name__]
            raise
        if isinstance(r, np.ndarray):
            return ["vals", [float(x) for x in r.ravel()], list(r.shape)]
        if isinstance(r, complex):
            if catch_all:
                return ["err", "Other:complex"]
            raise TypeError("complex result")
        return ["vals", [float(r)], None]

    def _value(self, case):
        vk = case.get("vkind", "py")
        if case["scalar"]:
            return np.float64(case["value"][0]) if vk == "np64" else case["value"][0]
        if vk == "zerod":
            return np.array(case["value"][0], dtype=float)
        if vk == "bool":
            return np.array(case["value"], dtype=bool).reshape(case["shape"])
        a = np.array(case["value"], dtype=(int if case["dtype"] == "int" else float)
                     ).reshape(case["shape"])
        if vk == "view":
            # non-contiguous view into a larger buffer (last axis strided)
            base = np.full(tuple(case["shape"][:-1]) + (2 * case["shape"][-1] + 1,), 123.0)
            base[..., 0:2 * case["shape"][-1]:2] = a
            self._base = base
            return base[..., 0:2 * case["shape"][-1]:2]
        if vk == "fortran":
            return np.asfortranarray(a)
        return a

    def run_impl(self, case):
        info = tables()
        kind = case["kind"]
        if kind == "convert":
            u = mk_units(case["units_kw"], case["s_direct"])
            pred = predict(case["unit"], info)
            ca = pred == "unmodelled"
            self._base = None
            value = self._value(case)
            keep = value.copy() if isinstance(value, np.ndarray) else value
            keep_base = None if self._base is None else self._base.copy()
            out = self._call(u, value, case["unit"], case["to_si"], ca)
            raw = self._raw
            unchanged = bool(np.array_equal(value, keep)) and (
                not isinstance(value, np.ndarray) or value.dtype == keep.dtype)
            alias_ok = True
            if isinstance(value, np.ndarray) and isinstance(raw, np.ndarray):
                # the returned array must be independent of the argument (also for "", "1", "-")
                alias_ok = raw is not value and not np.shares_memory(raw, value)
                snap = raw.copy()
                if raw.size and raw.dtype.kind == "f":
                    raw[...] = 4242.0
                    alias_ok = alias_ok and bool(np.array_equal(value, keep))
                    raw[...] = snap
                    if value.dtype.kind == "f":
                        value[...] = -4242.0
                        alias_ok = alias_ok and bool(np.array_equal(raw, snap, equal_nan=True))
                        value[...] = keep
            if keep_base is not None:
                unchanged = unchanged and bool(np.array_equal(self._base, keep_base))
            res = {"env": self._env(u, info), "out": out, "input_unchanged": unchanged,
                   "alias_ok": bool(alias_ok),
                   "pred": pred, "back": None, "composed": None}
            if out[0] == "vals":
                v2 = out[1][0] if out[2] is None else np.array(out[1]).reshape(out[2])
                res["back"] = self._call(u, v2, case["unit"], not case["to_si"], ca)
                if case["split"]:
                    a, b = case["split"]
                    o1 = self._call(u, self._value(case), a, case["to_si"], True)
                    if o1[0] == "vals":
                        v1 = o1[1][0] if o1[2] is None else np.array(o1[1]).reshape(o1[2])
                        res["composed"] = self._call(u, v1, b, case["to_si"], True)
                    else:
                        res["composed"] = o1
            return res
        if kind == "derived":
            u = mk_units(case["units_kw"], case["s_direct"])
            return {"env": self._env(u, info),
                    "derived": [float(getattr(u, d)) for d in info["derived"]]}
        if kind == "init":
            kw = {}
            for k, v in case["kwargs"]:
                if isinstance(v, dict):
                    v = {"str": "2.0", "none": None, "list": [1.0], "complex": 1j}[v["other"]]
                kw[k] = v
            try:
                u = pp.Units(**kw)
            except ValueError:
                return {"init": ["err", "ValueErr"]}
            except NotImplementedError:
                return {"init": ["err", "NotImplErr"]}
            return {"init": ["ok", self._env(u, info)]}
        if kind == "material":
            C = getattr(materials, case["cls"])
            u1, u2 = pp.Units(**case["units1"]), pp.Units(**case["units2"])
            try:
                c1 = C(name="x", units=u1, **dict(case["fields"]))
            except AttributeError as e:
                return {"ctor_error": "AttributeError: " + str(e)[:120]}
            c2 = c1.to_units(u2)
            cd = C(name="x", units=u2, **dict(case["fields"]))
            u3 = pp.Units(**case.get("units3", {}))
            c3 = c2.to_units(u3)          # second hop: must not depend on the path
            cd3 = C(name="x", units=u3, **dict(case["fields"]))
            keys = list(c1.constants_in_SI.keys())
            si_tab = C.SI_units

            def back(c, un):
                return [float(un.convert_units(getattr(c, k), si_tab[k], to_si=True))
                        for k in keys]
            return {"env1": self._env(u1, info), "env2": self._env(u2, info), "keys": keys,
                    "si1": [c1.constants_in_SI[k] for k in keys],
                    "si2": [c2.constants_in_SI[k] for k in keys],
                    "attrs1": [float(getattr(c1, k)) for k in keys],
                    "attrs2": [float(getattr(c2, k)) for k in keys],
                    "direct2": [float(getattr(cd, k)) for k in keys],
                    "back1": back(c1, u1), "back2": back(c2, u2),
                    "same_type": type(c2) is C, "units2_is": c2.units is u2,
                    "attrs3": [float(getattr(c3, k)) for k in keys],
                    "direct3": [float(getattr(cd3, k)) for k in keys],
                    "si3": [c3.constants_in_SI[k] for k in keys],
                    "orig_after": [float(getattr(c1, k)) for k in keys]}
        if kind == "flow":
            fam = case.get("family", "flow")

            def run(kw):
                if fam == "energy":
                    return run_energy(kw, case["nfrac"])
                if fam == "momentum":
                    return run_momentum(kw, case["nfrac"])
                return run_flow(kw, case["nfrac"], case["perm"], case["visc"], case["dp"])
            ref = run({})
            worst = 0.0
            sizes = {k: len(v) for k, v in ref.items()}
            for kw in case["scalings"]:
                r = run(kw)
                for k in ref:
                    a, b = np.array(ref[k]), np.array(r[k])
                    if a.shape != b.shape:
                        worst = float("inf")
                        continue
                    worst = max(worst, float(np.max(np.abs(a - b)) / (np.max(np.abs(a)) + 1e-300)))
            self._flow["runs"] += 1 + len(case["scalings"])
            self._flow["max_rel"] = max(self._flow["max_rel"], worst)
            self._flow.setdefault("families", {})
            self._flow["families"][fam] = self._flow["families"].get(fam, 0) + 1
            return {"max_rel_diff": worst, "sizes": sizes, "family": fam}
        raise ValueError(kind)

    # -- oracle --------------------------------------------------------------------------
    def oracle(self, case, res):
        info = tables()
        kind = case["kind"]
        if kind == "convert":
            env = dict(zip(info["bases"], res["env"]))
            if not all(b in env for b in BASES_PHYS):
                return None
            f = ref_factor(case["unit"], env) if case["valid"] else None
            out = res["out"]
            if not res["input_unchanged"]:
                return "convert_units modified its input array"
            if not res.get("alias_ok", True):
                return "convert_units returned an array that shares data with its argument"
            if f is None:
                # not a unit string of the documented grammar: the property demands nothing,
                # except that a successful conversion still round-trips
                if (out[0] == "vals" and res["back"] and res["back"][0] == "vals"
                        and all(math.isfinite(z) and z != 0.0 for z in out[1])
                        and all(math.isfinite(z) for z in res["back"][1])):
                    for x, y in zip(case["value"], res["back"][1]):
                        if not rel_close(x, y):
                            return f"round trip returned {y} for {x}"
                return None
            if out[0] != "vals":
                return (f"conversion of a {case['dtype']} "
                        f"{'scalar' if case['scalar'] else 'ndarray'} with the valid unit "
                        f"string {case['unit']!r} raised {out[1]}")
            if len(out[1]) != len(case["value"]) or (out[2] or None) != (case["shape"] or None):
                return "shape of the value changed"
            for x, y in zip(case["value"], out[1]):
                exp = x * f if case["to_si"] else x / f
                if not rel_close(y, exp):
                    return (f"converted {x} to {y}, base-unit expression of {case['unit']!r} "
                            f"gives {exp}")
            bk = res["back"]
            if bk[0] != "vals":
                return f"converting back raised {bk[1]}"
            for x, y in zip(case["value"], bk[1]):
                if not rel_close(x, y):
                    return f"round trip returned {y} for {x}"
            if case["split"] and all(s.replace(" ", "") not in ("", "1", "-")
                                     for s in case["split"]):
                cp = res["composed"]
                if cp[0] != "vals":
                    return f"converting with a then b raised {cp[1]} but a*b did not"
                for y, z in zip(out[1], cp[1]):
                    if not rel_close(y, z):
                        return f"a*b gives {y}, a then b gives {z}"
            return None
        if kind == "derived":
            env = dict(zip(info["bases"], res["env"]))
            if not all(b in env for b in BASES_PHYS):
                return None
            for d, v in zip(info["derived"], res["derived"]):
                exp = ref_unit_value(d, env)
                if exp is not None and not rel_close(v, exp, 1e-12):
                    return f"derived unit {d} = {v}, base-unit expression gives {exp}"
            return None
        if kind == "material":
            if "ctor_error" in res:
                return ("constructing " + case["cls"] + " with declared fields raised "
                        + res["ctor_error"])
            given = dict(case["fields"])
            for k, s1, s2, b1, b2, a2, d2 in zip(res["keys"], res["si1"], res["si2"], res["back1"],
                                                 res["back2"], res["attrs2"], res["direct2"]):
                if k in given and (s1 != given[k] or s2 != given[k]):
                    return f"constants_in_SI[{k}] = {s1}/{s2}, given {given[k]}"
                if s1 != s2:
                    return f"to_units changed constants_in_SI[{k}]"
                if not rel_close(b1, s1) or not rel_close(b2, s1):
                    return f"{k}: converted back to SI gives {b1}/{b2}, SI value {s1}"
                if a2 != d2:
                    return f"{k}: to_units gives {a2}, direct construction gives {d2}"
            if res.get("attrs3") is not None:
                if res["attrs3"] != res["direct3"] or res["si3"] != res["si1"]:
                    return "to_units after to_units differs from direct construction"
                if res["orig_after"] != res["attrs1"]:
                    return "to_units changed the object it was called on"
            if not res["same_type"]:
                return "to_units changed the class"
            return None
        if kind == "flow":
            if not res["max_rel_diff"] <= 1e-8:
                return (f"scaled {res.get('family', 'flow')} runs differ from the SI run by {res['max_rel_diff']:.3e} "
                        "(relative, in SI)")
            return None
        return None

    # -- tie -----------------------------------------------------------------------------
    def _iout(self, o):
        if o[0] == "vals":
            return f"(IVals {cqlist(o[1])})"
        e = o[1] if o[1] in ("AttrErr", "ValueErr") else "AttrErr"
        return f"(IErr {e})"

    def coq_case(self, case, res):
        info = tables()
        kind = case["kind"]
        if kind == "convert":
            env = cenv(info["bases"], res["env"])
            vals = cqlist(case["value"])
            modelled = res["pred"] != "unmodelled"
            impl = self._iout(res["out"]) if modelled else "(IErr AttrErr)"  # ignored if unmodelled
            t = (f"agree_convert pif derived_table other_attrs {env} {vals} "
                 f"{cstring(case['unit'])} {cbool(case['to_si'])} {cbool(modelled)} {impl}")
            if modelled and res["out"][0] == "vals" and res["back"][0] == "vals":
                # the backward conversion of the implementation's own result
                t = (f"({t}) && agree_convert pif derived_table other_attrs {env} "
                     f"{cqlist(res['out'][1])} {cstring(case['unit'])} "
                     f"{cbool(not case['to_si'])} true {self._iout(res['back'])}")
            return t
        if kind == "derived":
            env = cenv(info["bases"], res["env"])
            return (f"agree_getattr pif derived_table other_attrs {env} "
                    f"{clist(info['derived'], cstring)} {cqlist(res['derived'])}")
        if kind == "init":
            def kv(p):
                k, v = p
                return f"({cstring(k)}, {'KOther' if isinstance(v, dict) else 'KNum ' + cq(v)})"
            o = res["init"]
            impl = f"(InitOk {cqlist(o[1])})" if o[0] == "ok" else f"(InitErr {o[1]})"
            return f"agree_init base_units {clist(case['kwargs'], kv)} {impl}"
        if kind == "material":
            if "ctor_error" in res:
                return "false"
            given = cenv([k for k, _ in case["fields"]], [v for _, v in case["fields"]])
            return (f"agree_material_given pif derived_table other_attrs "
                    f"(tab {cstring(case['cls'])}) (flds {cstring(case['cls'])}) "
                    f"{cenv(info['bases'], res['env1'])} {cenv(info['bases'], res['env2'])} {given} "
                    f"{clist(res['keys'], cstring)} "
                    f"{cqlist(res['attrs1'])} {cqlist(res['si1'])} {cqlist(res['attrs2'])} "
                    f"{cqlist(res['si2'])}")
        return None

    def coq_diag(self, case, res):
        info = tables()
        if case["kind"] == "convert":
            return (f"convert (QOps pif) derived_table other_attrs {cenv(info['bases'], res['env'])} "
                    f"{cqlist(case['value'])} {cstring(case['unit'])} {cbool(case['to_si'])}")
        if case["kind"] == "init":
            return None
        if case["kind"] == "derived":
            return (f"map (getattr (QOps pif) derived_table other_attrs "
                    f"{cenv(info['bases'], res['env'])}) {clist(info['derived'], cstring)}")
        return None

    def nontrivial(self, case, res):
        if case["kind"] != "convert":
            return True
        return res["out"][0] == "vals" and case["unit"].replace(" ", "") not in ("", "1", "-")

    def finding_key(self, case, res, why):
        if case["kind"] == "convert":
            if (case["dtype"] == "int" and not case["scalar"] and "raised" in why
                    and "valid unit string" in why):
                return "convert_units: integer ndarray input"
            if "base-unit expression" in why:
                return "convert_units: value differs from base-unit expression"
            if "round trip" in why:
                return "convert_units: round trip"
            if "a then b" in why:
                return "convert_units: composition"
            return "convert_units: other"
        return case["kind"] + ": " + why.split(":")[0][:40]

    def shrink(self, case, still_fails):
        if case["kind"] != "convert":
            return case
        c = dict(case)
        for trial in (dict(c, units_kw={k: v for k, v in c["units_kw"].items() if k == kk})
                      for kk in list(c["units_kw"])):
            if still_fails(trial):
                c = trial
                break
        if not c["scalar"] and len(c["value"]) > 1:
            t = dict(c, value=c["value"][:1], shape=[1])
            if still_fails(t):
                c = t
        return c

    def extra_evidence(self):
        return {"translator": {"generated": "coq/Gen/C43_tables.v", "summary": self._gen_log,
                               "sources": ["src/porepy/models/units.py",
                                           "src/porepy/compositional/materials.py"]},
                "oracle_only_flow_runs": dict(self._flow)}


PROP = C43()
