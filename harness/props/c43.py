"""C43 — unit conversion (pp.Units.convert_units, derived units, material constants) and
unit invariance of a flow run."""
import math
import os
import re
from fractions import Fraction

import numpy as np

from harness import core
from harness.core import Prop, cq, clist, cbool, cstring
from harness.translator import units_tables

import porepy as pp
import porepy.compositional.materials as materials

GEN_FILE = os.path.join(core.COQ, "Gen", "C43_tables.v")
PI_Q = cq(Fraction(math.pi))

_INFO = None


def tables():
    """Base/derived names and SI tables as the translator reads them from the repo under
    test (no file is written here)."""
    global _INFO
    if _INFO is None:
        b, d, o = units_tables.translate_units(
            os.path.join(core.REPO, "src", "porepy", "models", "units.py"))
        t = units_tables.translate_materials(
            os.path.join(core.REPO, "src", "porepy", "compositional", "materials.py"))
        _INFO = {"bases": [x[0] for x in b], "derived": [x[0] for x in d], "others": o,
                 "tables": t}
    return _INFO


# ------------------------------------------------------------------------------------------
# independent reference (oracle): the PHYSICAL definitions, not read from units.py
# ------------------------------------------------------------------------------------------
PHYS = {  # name -> (coefficient, {base: exponent});  degree = (180/pi) rad
    "Pa": (1, {"kg": 1, "m": -1, "s": -2}),
    "J": (1, {"kg": 1, "m": 2, "s": -2}),
    "N": (1, {"kg": 1, "m": 1, "s": -2}),
    "W": (1, {"kg": 1, "m": 2, "s": -3}),
    "degree": (180.0 / math.pi, {"rad": 1}),
}
BASES_PHYS = ["m", "s", "kg", "K", "mol", "rad"]
DEC = re.compile(r"[+-]?(\d+\.?\d*|\.\d+)\Z")
OUT_CHARS = set("eE_iInNfFaAtTyY")


def ref_unit_value(name, env):
    """Value of a documented unit in a unit system env (dict base -> float)."""
    if name in BASES_PHYS:
        return float(env[name])
    if name in PHYS:
        c, d = PHYS[name]
        v = float(c)
        for b, k in d.items():
            v *= float(env[b]) ** k
        return v
    return None


def ref_factor(units, env):
    """Total factor of a VALID unit string (None if it is not in the documented grammar)."""
    u = units.replace(" ", "")
    if u in ("", "1", "-"):
        return 1.0
    f = 1.0
    for sub in u.split("*"):
        parts = sub.split("^")
        if len(parts) > 2:
            return None
        x = ref_unit_value(parts[0], env)
        if x is None:
            return None
        if len(parts) == 2:
            if not DEC.match(parts[1]):
                return None
            x = x ** float(parts[1])
        f *= x
    return f


def predict(units, info):
    """'ok' | 'err' | 'unmodelled' — which class the Coq model must put the string in
    (independent re-statement of the model's classification, checked by the tie)."""
    u = units.replace(" ", "")
    if u in ("", "1", "-"):
        return "ok"
    for sub in u.split("*"):
        parts = sub.split("^")
        if len(parts) > 2:
            return "err"
        name = parts[0]
        if name in info["bases"] or name in info["derived"]:
            pass
        elif name in info["others"] or name.startswith("_"):
            return "unmodelled"
        else:
            return "err"
        if len(parts) == 2:
            p = parts[1]
            if any(c in OUT_CHARS or ord(c) >= 128 or ord(c) <= 32 for c in p):
                return "unmodelled"
            if not DEC.match(p):
                return "err"
            if Fraction(p if not p.startswith("+") else p[1:]).denominator != 1:
                return "unmodelled"  # real power: not executable in Q
    return "ok"


def rel_close(a, b, tol=1e-9):
    a, b = float(a), float(b)
    return abs(a - b) <= tol * max(abs(a), abs(b))


def mk_units(kw, s_direct=None):
    u = pp.Units(**kw)
    if s_direct is not None:
        u.s = s_direct  # "can be done by assigning to the attributes directly"
    return u


def cenv(names, vals):
    return clist(zip(names, vals), lambda p: f"({cstring(p[0])}, {cq(p[1])})")


def cqlist(vals):
    return clist(vals, cq)


# ------------------------------------------------------------------------------------------
# flow model (oracle-only part of the property)
# ------------------------------------------------------------------------------------------
def run_flow(units_kw, nfrac, perm, visc, dp):
    from porepy.applications.md_grids.model_geometries import SquareDomainOrthogonalFractures

    class Model(SquareDomainOrthogonalFractures, pp.SinglePhaseFlow):
        def bc_values_pressure(self, bg):
            vals = self.reference_variable_values.pressure * np.ones(bg.num_cells)
            faces = self.domain_boundary_sides(bg).east
            vals[faces] += self.units.convert_units(dp, "Pa")
            return vals

        def bc_type_darcy_flux(self, sd):
            sides = self.domain_boundary_sides(sd)
            return pp.BoundaryCondition(sd, sides.east + sides.west, "dir")

    units = pp.Units(**units_kw)
    solid = pp.SolidConstants(permeability=perm, porosity=0.25, residual_aperture=0.125,
                              normal_permeability=0.5)
    fluid = pp.FluidComponent(viscosity=visc, density=2.0, compressibility=0.0625)
    params = {
        "times_to_export": [], "fracture_indices": list(range(nfrac)),
        "meshing_arguments": {"cell_size": units.convert_units(0.25, "m")},
        "cartesian": True, "material_constants": {"solid": solid, "fluid": fluid},
        "units": units,
    }
    m = Model(params)
    pp.run_time_dependent_model(m, {"nl_convergence_tol_res": 1e-9, "nl_convergence_tol": 1e-9})
    sds = m.mdg.subdomains()
    out = {"p": m.units.convert_units(m.pressure(sds).value(m.equation_system), "Pa",
                                      to_si=True).tolist()}
    out["q"] = m.units.convert_units(m.darcy_flux(sds).value(m.equation_system),
                                     "Pa * m^2 * s^-1", to_si=True).tolist()
    intf = m.mdg.interfaces()
    if intf:
        out["lam"] = m.units.convert_units(
            m.interface_darcy_flux(intf).value(m.equation_system), "Pa * m^2 * s^-1",
            to_si=True).tolist()
    return out


# ------------------------------------------------------------------------------------------
class C43(Prop):
    translator_output = True  # coq/Gen/C43_tables.v is regenerated from /repo (also by setup.sh)
    id = "C43"
    props_file = "Props/C43.v"
    preamble = ("From Coq Require Import String List ZArith QArith.\nImport ListNotations.\n"
                "From PP Require Import Model.C43 Gen.C43_tables.\nOpen Scope string_scope.\n"
                f"Definition pif : Q := {PI_Q}.\n"
                "Definition tab (c : string) := match assoc c si_tables with Some t => t "
                "| None => [] end.\n")
    n_cases = (300, 10000)
    design_ref = "DESIGN.md §5 C43"
    level_text = (
        "Coq theorems (over the reals) about an executable transcription of "
        "Units.convert_units (the unit-string grammar exactly as the code parses it), the "
        "derived-unit properties and Constants.__post_init__/to_units, with the unit tables "
        "(base units, bodies of the @property methods, SI_units dictionaries) regenerated "
        "from units.py/materials.py by a fail-closed ast translator on every run: for every "
        "unit system with positive base units, every value list and EVERY unit string the "
        "round trip to simulation units and back is the identity and exceptions do not depend "
        "on value or direction (C43_roundtrip, integer and decimal powers); 'a*b' converts as "
        "a then b for any number type (C43_compose); Pa, J, N, W, degree equal their base-unit "
        "expressions and their spellings over base units convert identically (C43_derived, "
        "C43_derived_spellings, proved against the generated table); unit strings with equal "
        "dimension normal forms convert identically and never raise (C43_dimension_sound); "
        "every SI_units entry is well-formed (C43_tables_wellformed); material constants of "
        "every class keep and recover their SI values in and across unit systems "
        "(C43_material_roundtrip[_any_table]); the rational instance executed by the tie is the "
        "real instance on embedded data (C43_transfer).  The model is tied to the code on every run "
        "by executing both in exact rationals on random unit systems, unit strings (incl. "
        "whitespace, markers, repeated units, negative/zero powers, malformed strings), "
        "scalar/array/integer values, constructor arguments and material classes, Coq "
        "comparing the outputs.")
    level_note = (
        "Oracle-only (NOT proved, no model): 'a flow model run with scaled length and mass "
        "units gives the same SI solution' — checked by running pp.SinglePhaseFlow on a small "
        "fractured Cartesian grid with scaled m/kg and comparing SI pressures/fluxes to 1e-8. "
        "Theorems are over exact reals (x**float(p) = Rpower on positive x); floating-point "
        "rounding is covered only by the 1e-9 relative comparison of the tie. For convert_units "
        "the Q instance executed in the tie is proved to be the R instance of the theorems on "
        "the embedded data (C43_transfer); for Units.__init__ and the material-constant "
        "wrappers (which only call convert) no separate transfer lemma is stated. "
        "Decimal non-integer powers are proved (round trip, composition) but executed only "
        "against the float oracle; C43_dimension_sound covers integer powers only. Power "
        "strings in exponent/inf/nan/underscore notation and method/private attribute names "
        "are outside the model (Unmodelled; the tie checks the class boundary). Composition is "
        "stated for factors that are not the whole-string dimensionless markers '', '1', '-' "
        "('1*m' raises AttributeError by the documented grammar). Trusted: Coq kernel + "
        "vm_compute, the translator harness/translator/units_tables.py, the harness.")
    technique = ("Coq proof over R (field/positivity, dimension normal form) on translator-"
                 "generated unit tables + vm_compute execution correspondence in Q + oracle")
    rule = ("unit systems: base units drawn from powers of 2 and small rationals times powers "
            "of ten (passed as float or int; the model gets the exact binary value); unit "
            "strings: 0-4 factors from base+derived names with integer powers in many "
            "spellings, decimal powers, random spaces, the markers '', '1', '-', and a stream "
            "of malformed strings (unknown names, '1*m', 'm**s', 'm^2^3', 'm^', 'm^x', "
            "'Pa*m^3/kg', exponent notation, method names); values: dyadic scalars, float and "
            "integer arrays of length 0-4 and 2x2; each conversion is also run backwards and "
            "split at a random '*'; plus constructor argument cases, derived-unit reads, "
            "material-constant objects of every class (construction, to_units), and scaled "
            "flow runs; non-trivial = a conversion with at least one non-unit factor, or a "
            "non-convert case")
    trusted = ["translator harness/translator/units_tables.py (fail-closed, grammar in its "
               "docstring)",
               "floats/ints handed to the implementation are represented exactly; comparison "
               "|impl-model| <= 1e-9*|model| inside Coq"]
    assumptions = ["base units are positive numbers",
                   "np.pi is a positive constant (theorems hold for any positive value)"]
    extra_targets = ()

    def __init__(self):
        self._gen_log = ""
        self._flow = {"runs": 0, "max_rel": 0.0}
        self._classes = {}

    # -- translator --------------------------------------------------------------------
    def regenerate(self):
        global _INFO
        _INFO = None
        try:
            info = units_tables.generate(core.REPO, GEN_FILE)
        except units_tables.TranslateError as e:
            return False, str(e)
        except (OSError, SyntaxError) as e:
            return False, f"{type(e).__name__}: {e}"
        self._gen_log = (f"{len(info['bases'])} base units, {len(info['derived'])} derived "
                         f"units, {len(info['tables'])} SI_units tables")
        return True, self._gen_log

    # -- generator ---------------------------------------------------------------------
    def _scale(self, rng):
        r = rng.random()
        if r < 0.15:
            return 1
        if r < 0.5:
            return float(Fraction(2) ** rng.randint(-6, 6))
        if r < 0.6:
            return rng.choice([2, 3, 5, 10, 1000])
        num, den = rng.choice([(1, 1), (3, 4), (5, 2), (7, 8), (9, 5), (1, 3), (11, 10)])
        return float(Fraction(num, den) * Fraction(10) ** rng.randint(-3, 3))

    def _units_kw(self, rng, info):
        keys = [b for b in info["bases"] if b != "s"]
        kw = {}
        for k in keys:
            if rng.random() < 0.6:
                kw[k] = self._scale(rng)
        if rng.random() < 0.2:
            kw["s"] = rng.choice([1, 1.0, 1.0 + 2.0 ** -30])
        s_direct = None
        if rng.random() < 0.15:
            s_direct = rng.choice([2.0, 0.5, 60.0, 0.125])
        return kw, s_direct

    def _power(self, rng):
        r = rng.random()
        if r < 0.75:
            k = rng.randint(-3, 3)
            forms = [str(k), f"{k}.0", f"{k}.", f"{k}.00"]
            if k >= 0:
                forms += [f"+{k}", f"0{k}", f"+{k}.0"]
            if k == 0:
                forms += ["-0", ".0", "-.0"]
            return rng.choice(forms)
        return rng.choice(["0.5", "-0.5", "1.5", "-1.5", "2.25", ".5", "-.25", "+0.75", "0.125"])

    def _spaces(self, rng, s):
        if rng.random() < 0.5:
            return s
        out = []
        for ch in s:
            if rng.random() < 0.15:
                out.append(" " * rng.randint(1, 2))
            out.append(ch)
        if rng.random() < 0.3:
            out.append(" ")
        return "".join(out)

    def _factor(self, rng, names):
        n = rng.choice(names)
        if rng.random() < 0.55:
            return n + "^" + self._power(rng)
        return n

    BAD = ["Q", "bar", "Pascal", "", "1", "-", "m^2^3", "kg^1^", "m^", "s^x", "m^--1", "m^1.2.3",
           "m^.", "m^+", "m^-", "m^3/kg", "m/s", "K^2,0", "M", "m^1e1", "kg^1E0", "m^inf",
           "m^nan", "s^1_0", "convert_units", "__init__", "_m", "__class__", "foo^1e1", "m^0x2",
           "Pa^(2)", "rad^2j", "mol^١"]

    def _gen_convert(self, rng, info):
        names = info["bases"] + info["derived"]
        kw, s_direct = self._units_kw(rng, info)
        r = rng.random()
        split = None
        valid = True
        if r < 0.07:
            unit = self._spaces(rng, rng.choice(["", "1", "-"]))
            if rng.random() < 0.3:
                unit = " " * rng.randint(0, 3) + unit
        else:
            k = rng.choice([1, 1, 2, 2, 3, 4])
            facs = [self._factor(rng, names) for _ in range(k)]
            if r < 0.3:
                facs.insert(rng.randint(0, len(facs)), rng.choice(self.BAD))
                valid = False
            if len(facs) >= 2:
                i = rng.randint(1, len(facs) - 1)
                a = self._spaces(rng, "*".join(facs[:i]))
                b = self._spaces(rng, "*".join(facs[i:]))
                unit = a + "*" + b
                split = [a, b]
            else:
                unit = self._spaces(rng, facs[0])
        def dy():
            if rng.random() < 0.08:
                return 0.0
            return rng.randint(-(2 ** 12), 2 ** 12) / float(2 ** rng.randint(0, 8))
        r = rng.random()
        if r < 0.35:
            value, shape, dtype = [dy() if rng.random() < 0.7 else rng.randint(-50, 50)], None, "scalar"
            dtype = "int" if isinstance(value[0], int) else "float"
            scalar = True
        else:
            scalar = False
            shape = rng.choice([[0], [1], [2], [3], [4], [2, 2]])
            n = int(np.prod(shape))
            if rng.random() < 0.2:
                dtype = "int"
                value = [rng.randint(-100, 100) for _ in range(n)]
            else:
                dtype = "float"
                value = [dy() for _ in range(n)]
        return {"kind": "convert", "units_kw": kw, "s_direct": s_direct, "unit": unit,
                "to_si": rng.random() < 0.5, "split": split, "valid": valid,
                "value": value, "scalar": scalar, "shape": shape, "dtype": dtype}

    def _gen_init(self, rng, info):
        kw = []
        keys = list(info["bases"])
        rng.shuffle(keys)
        for k in keys[:rng.randint(0, len(keys))]:
            if k == "s":
                v = rng.choice([1, 1.0, 1.0 + 2.0 ** -20, 1.000009, 1.00002, 0.999995,
                                0.9999, 2.0, 0])
            else:
                v = self._scale(rng)
            kw.append([k, v])
        r = rng.random()
        if r < 0.2:
            kw.insert(rng.randint(0, len(kw)), [rng.choice(["Pa", "km", "M", "length", "J"]),
                                                self._scale(rng)])
        elif r < 0.4:
            kw.insert(rng.randint(0, len(kw)), [rng.choice(keys), {"other": rng.choice(
                ["str", "none", "list", "complex"])}])
        # distinct keys (a call cannot repeat a keyword)
        seen, out = set(), []
        for k, v in kw:
            if k not in seen:
                seen.add(k)
                out.append([k, v])
        return {"kind": "init", "kwargs": out}

    def _gen_material(self, rng, info):
        classes = [c for c, t in info["tables"].items() if t]
        cls = rng.choice(classes)
        tab = info["tables"][cls]
        fields = []
        for k, _ in tab:
            if rng.random() < 0.5:
                v = rng.randint(-64, 640) / float(2 ** rng.randint(0, 6))
                if rng.random() < 0.1:
                    v = rng.randint(0, 5)
                fields.append([k, v])
        kw1, _ = self._units_kw(rng, info)
        kw2, _ = self._units_kw(rng, info)
        return {"kind": "material", "cls": cls, "fields": fields, "units1": kw1, "units2": kw2}

    def generate(self, rng, n, tier):
        info = tables()
        nflow = 1 if tier == "quick" else 3
        for i in range(n):
            r = rng.random()
            if i < nflow:
                sc = [(2.0, 3.0), (0.5, 8.0), (4.0, 0.25), (10.0, 1000.0), (0.125, 2.0)]
                rng.shuffle(sc)
                yield {"kind": "flow", "nfrac": rng.randint(0, 2),
                       "perm": rng.choice([0.25, 0.5, 2.0]), "visc": rng.choice([0.75, 1.0, 0.5]),
                       "dp": rng.choice([1.5, 1.0, 3.0]),
                       "scalings": [{"m": a, "kg": b} for a, b in sc[:2]]}
            elif r < 0.72:
                yield self._gen_convert(rng, info)
            elif r < 0.8:
                kw, s_direct = self._units_kw(rng, info)
                yield {"kind": "derived", "units_kw": kw, "s_direct": s_direct}
            elif r < 0.88:
                yield self._gen_init(rng, info)
            else:
                yield self._gen_material(rng, info)

    # -- implementation ------------------------------------------------------------------
    def _env(self, u, info):
        return [getattr(u, b) for b in info["bases"]]

    def _call(self, u, value, unit, to_si, catch_all):
        try:
            r = u.convert_units(value, unit, to_si)
        except AttributeError:
            return ["err", "AttrErr"]
        except ValueError:
            return ["err", "ValueErr"]
        except Exception as e:
            if catch_all:
                return ["err", "Other:" + type(e).__name__]
            raise
        if isinstance(r, np.ndarray):
            return ["vals", [float(x) for x in r.ravel()], list(r.shape)]
        if isinstance(r, complex):
            if catch_all:
                return ["err", "Other:complex"]
            raise TypeError("complex result")
        return ["vals", [float(r)], None]

    def _value(self, case):
        if case["scalar"]:
            return case["value"][0]
        return np.array(case["value"], dtype=(int if case["dtype"] == "int" else float)
                        ).reshape(case["shape"])

    def run_impl(self, case):
        info = tables()
        kind = case["kind"]
        if kind == "convert":
            u = mk_units(case["units_kw"], case["s_direct"])
            pred = predict(case["unit"], info)
            ca = pred == "unmodelled"
            value = self._value(case)
            keep = value.copy() if isinstance(value, np.ndarray) else value
            out = self._call(u, value, case["unit"], case["to_si"], ca)
            unchanged = bool(np.array_equal(value, keep)) and (
                not isinstance(value, np.ndarray) or value.dtype == keep.dtype)
            res = {"env": self._env(u, info), "out": out, "input_unchanged": unchanged,
                   "pred": pred, "back": None, "composed": None}
            if out[0] == "vals":
                v2 = out[1][0] if out[2] is None else np.array(out[1]).reshape(out[2])
                res["back"] = self._call(u, v2, case["unit"], not case["to_si"], ca)
                if case["split"]:
                    a, b = case["split"]
                    o1 = self._call(u, self._value(case), a, case["to_si"], True)
                    if o1[0] == "vals":
                        v1 = o1[1][0] if o1[2] is None else np.array(o1[1]).reshape(o1[2])
                        res["composed"] = self._call(u, v1, b, case["to_si"], True)
                    else:
                        res["composed"] = o1
            return res
        if kind == "derived":
            u = mk_units(case["units_kw"], case["s_direct"])
            return {"env": self._env(u, info),
                    "derived": [float(getattr(u, d)) for d in info["derived"]]}
        if kind == "init":
            kw = {}
            for k, v in case["kwargs"]:
                if isinstance(v, dict):
                    v = {"str": "2.0", "none": None, "list": [1.0], "complex": 1j}[v["other"]]
                kw[k] = v
            try:
                u = pp.Units(**kw)
            except ValueError:
                return {"init": ["err", "ValueErr"]}
            except NotImplementedError:
                return {"init": ["err", "NotImplErr"]}
            return {"init": ["ok", self._env(u, info)]}
        if kind == "material":
            C = getattr(materials, case["cls"])
            u1, u2 = pp.Units(**case["units1"]), pp.Units(**case["units2"])
            c1 = C(name="x", units=u1, **dict(case["fields"]))
            c2 = c1.to_units(u2)
            cd = C(name="x", units=u2, **dict(case["fields"]))
            keys = list(c1.constants_in_SI.keys())
            si_tab = C.SI_units

            def back(c, un):
                return [float(un.convert_units(getattr(c, k), si_tab[k], to_si=True))
                        for k in keys]
            return {"env1": self._env(u1, info), "env2": self._env(u2, info), "keys": keys,
                    "si1": [c1.constants_in_SI[k] for k in keys],
                    "si2": [c2.constants_in_SI[k] for k in keys],
                    "attrs1": [float(getattr(c1, k)) for k in keys],
                    "attrs2": [float(getattr(c2, k)) for k in keys],
                    "direct2": [float(getattr(cd, k)) for k in keys],
                    "back1": back(c1, u1), "back2": back(c2, u2),
                    "same_type": type(c2) is C, "units2_is": c2.units is u2}
        if kind == "flow":
            ref = run_flow({}, case["nfrac"], case["perm"], case["visc"], case["dp"])
            worst = 0.0
            sizes = {k: len(v) for k, v in ref.items()}
            for kw in case["scalings"]:
                r = run_flow(kw, case["nfrac"], case["perm"], case["visc"], case["dp"])
                for k in ref:
                    a, b = np.array(ref[k]), np.array(r[k])
                    if a.shape != b.shape:
                        worst = float("inf")
                        continue
                    worst = max(worst, float(np.max(np.abs(a - b)) / (np.max(np.abs(a)) + 1e-300)))
            self._flow["runs"] += 1 + len(case["scalings"])
            self._flow["max_rel"] = max(self._flow["max_rel"], worst)
            return {"max_rel_diff": worst, "sizes": sizes,
                    "p_range": [min(ref["p"]), max(ref["p"])]}
        raise ValueError(kind)

    # -- oracle --------------------------------------------------------------------------
    def oracle(self, case, res):
        info = tables()
        kind = case["kind"]
        if kind == "convert":
            env = dict(zip(info["bases"], res["env"]))
            if not all(b in env for b in BASES_PHYS):
                return None
            f = ref_factor(case["unit"], env) if case["valid"] else None
            out = res["out"]
            if not res["input_unchanged"]:
                return "convert_units modified its input array"
            if f is None:
                # not a unit string of the documented grammar: the property demands nothing,
                # except that a successful conversion still round-trips
                if (out[0] == "vals" and res["back"] and res["back"][0] == "vals"
                        and all(math.isfinite(z) and z != 0.0 for z in out[1])
                        and all(math.isfinite(z) for z in res["back"][1])):
                    for x, y in zip(case["value"], res["back"][1]):
                        if not rel_close(x, y):
                            return f"round trip returned {y} for {x}"
                return None
            if out[0] != "vals":
                return (f"conversion of a {case['dtype']} "
                        f"{'scalar' if case['scalar'] else 'ndarray'} with the valid unit "
                        f"string {case['unit']!r} raised {out[1]}")
            if len(out[1]) != len(case["value"]) or (out[2] or None) != (case["shape"] or None):
                return "shape of the value changed"
            for x, y in zip(case["value"], out[1]):
                exp = x * f if case["to_si"] else x / f
                if not rel_close(y, exp):
                    return (f"converted {x} to {y}, base-unit expression of {case['unit']!r} "
                            f"gives {exp}")
            bk = res["back"]
            if bk[0] != "vals":
                return f"converting back raised {bk[1]}"
            for x, y in zip(case["value"], bk[1]):
                if not rel_close(x, y):
                    return f"round trip returned {y} for {x}"
            if case["split"] and all(s.replace(" ", "") not in ("", "1", "-")
                                     for s in case["split"]):
                cp = res["composed"]
                if cp[0] != "vals":
                    return f"converting with a then b raised {cp[1]} but a*b did not"
                for y, z in zip(out[1], cp[1]):
                    if not rel_close(y, z):
                        return f"a*b gives {y}, a then b gives {z}"
            return None
        if kind == "derived":
            env = dict(zip(info["bases"], res["env"]))
            if not all(b in env for b in BASES_PHYS):
                return None
            for d, v in zip(info["derived"], res["derived"]):
                exp = ref_unit_value(d, env)
                if exp is not None and not rel_close(v, exp, 1e-12):
                    return f"derived unit {d} = {v}, base-unit expression gives {exp}"
            return None
        if kind == "material":
            given = dict(case["fields"])
            for k, s1, s2, b1, b2, a2, d2 in zip(res["keys"], res["si1"], res["si2"], res["back1"],
                                                 res["back2"], res["attrs2"], res["direct2"]):
                if k in given and (s1 != given[k] or s2 != given[k]):
                    return f"constants_in_SI[{k}] = {s1}/{s2}, given {given[k]}"
                if s1 != s2:
                    return f"to_units changed constants_in_SI[{k}]"
                if not rel_close(b1, s1) or not rel_close(b2, s1):
                    return f"{k}: converted back to SI gives {b1}/{b2}, SI value {s1}"
                if a2 != d2:
                    return f"{k}: to_units gives {a2}, direct construction gives {d2}"
            if not res["same_type"]:
                return "to_units changed the class"
            return None
        if kind == "flow":
            if not res["max_rel_diff"] <= 1e-8:
                return (f"scaled flow runs differ from the SI run by {res['max_rel_diff']:.3e} "
                        "(relative, in SI)")
            return None
        return None

    # -- tie -----------------------------------------------------------------------------
    def _iout(self, o):
        if o[0] == "vals":
            return f"(IVals {cqlist(o[1])})"
        e = o[1] if o[1] in ("AttrErr", "ValueErr") else "AttrErr"
        return f"(IErr {e})"

    def coq_case(self, case, res):
        info = tables()
        kind = case["kind"]
        if kind == "convert":
            env = cenv(info["bases"], res["env"])
            vals = cqlist(case["value"])
            modelled = res["pred"] != "unmodelled"
            impl = self._iout(res["out"]) if modelled else "(IErr AttrErr)"  # ignored if unmodelled
            t = (f"agree_convert pif derived_table other_attrs {env} {vals} "
                 f"{cstring(case['unit'])} {cbool(case['to_si'])} {cbool(modelled)} {impl}")
            if modelled and res["out"][0] == "vals" and res["back"][0] == "vals":
                # the backward conversion of the implementation's own result
                t = (f"({t}) && agree_convert pif derived_table other_attrs {env} "
                     f"{cqlist(res['out'][1])} {cstring(case['unit'])} "
                     f"{cbool(not case['to_si'])} true {self._iout(res['back'])}")
            return t
        if kind == "derived":
            env = cenv(info["bases"], res["env"])
            return (f"agree_getattr pif derived_table other_attrs {env} "
                    f"{clist(info['derived'], cstring)} {cqlist(res['derived'])}")
        if kind == "init":
            def kv(p):
                k, v = p
                return f"({cstring(k)}, {'KOther' if isinstance(v, dict) else 'KNum ' + cq(v)})"
            o = res["init"]
            impl = f"(InitOk {cqlist(o[1])})" if o[0] == "ok" else f"(InitErr {o[1]})"
            return f"agree_init base_units {clist(case['kwargs'], kv)} {impl}"
        if kind == "material":
            cs = cenv(res["keys"], res["si1"])
            return (f"agree_material pif derived_table other_attrs (tab {cstring(case['cls'])}) "
                    f"{cenv(info['bases'], res['env1'])} {cenv(info['bases'], res['env2'])} {cs} "
                    f"{cqlist(res['attrs1'])} {cqlist(res['si1'])} {cqlist(res['attrs2'])} "
                    f"{cqlist(res['si2'])}")
        return None

    def coq_diag(self, case, res):
        info = tables()
        if case["kind"] == "convert":
            return (f"convert (QOps pif) derived_table other_attrs {cenv(info['bases'], res['env'])} "
                    f"{cqlist(case['value'])} {cstring(case['unit'])} {cbool(case['to_si'])}")
        if case["kind"] == "init":
            return None
        if case["kind"] == "derived":
            return (f"map (getattr (QOps pif) derived_table other_attrs "
                    f"{cenv(info['bases'], res['env'])}) {clist(info['derived'], cstring)}")
        return None

    def nontrivial(self, case, res):
        if case["kind"] != "convert":
            return True
        return res["out"][0] == "vals" and case["unit"].replace(" ", "") not in ("", "1", "-")

    def finding_key(self, case, res, why):
        if case["kind"] == "convert":
            if (case["dtype"] == "int" and not case["scalar"] and "raised" in why
                    and "valid unit string" in why):
                return "convert_units: integer ndarray input"
            if "base-unit expression" in why:
                return "convert_units: value differs from base-unit expression"
            if "round trip" in why:
                return "convert_units: round trip"
            if "a then b" in why:
                return "convert_units: composition"
            return "convert_units: other"
        return case["kind"] + ": " + why.split(":")[0][:40]

    def shrink(self, case, still_fails):
        if case["kind"] != "convert":
            return case
        c = dict(case)
        for trial in (dict(c, units_kw={k: v for k, v in c["units_kw"].items() if k == kk})
                      for kk in list(c["units_kw"])):
            if still_fails(trial):
                c = trial
                break
        if not c["scalar"] and len(c["value"]) > 1:
            t = dict(c, value=c["value"][:1], shape=[1])
            if still_fails(t):
                c = t
        return c

    def extra_evidence(self):
        return {"translator": {"generated": "coq/Gen/C43_tables.v", "summary": self._gen_log,
                               "sources": ["src/porepy/models/units.py",
                                           "src/porepy/compositional/materials.py"]},
                "oracle_only_flow_runs": dict(self._flow)}


PROP = C43()
