"""C05 — degree-of-freedom layout of pp.ad.EquationSystem is a bijection under any
create/remove history; identify_dof / projection_to / set-get agree with the layout."""
import numpy as np

from harness.core import Prop, cz, cnat, cbool, clist, coption

import porepy as pp
from porepy.applications.md_grids.mdg_library import (
    square_with_orthogonal_fractures,
    cube_with_orthogonal_fractures,
)

NAMES = ["v0", "v1", "v2", "v3"]
ERRS = {KeyError: "KeyErr", ValueError: "ValueErr", AssertionError: "AssertErr",
        IndexError: "IndexErr"}

# ----------------------------------------------------------------------------------------
# md-grids (tiny Cartesian meshes, 0-2 fractures); built once per process, the solution
# dictionaries the EquationSystem writes into are cleared before every case
# ----------------------------------------------------------------------------------------
_POOL = {}
_ORIG = {}

QUICK_GRIDS = [
    {"kind": "sq", "fracs": fr, "cs": cs}
    for fr in ([], [0], [1], [0, 1])
    for cs in ([0.5, 0.5], [0.5, 1.0], [1.0, 0.5], [1.0, 1.0])
]
# md-grids whose grid ids are NOT monotone in dimension: the mesher-built md-grid is
# re-assembled by hand from copies that are created in reversed ("rev": lowest dimension
# first) or shuffled ("mix") order, subdomains and interfaces alike, so that the order of
# mdg.subdomains()/mdg.interfaces() (descending dimension, then id) differs from id order
QUICK_GRIDS = QUICK_GRIDS + [
    {"kind": "sq", "fracs": fr, "cs": cs, "ids": ids}
    for fr, cs, ids in (
        ([0, 1], [0.5, 0.5], "rev"), ([0, 1], [0.5, 1.0], "mix"), ([0, 1], [1.0, 1.0], "rev"),
        ([0, 1], [1.0, 0.5], "mix"), ([0, 1], [0.5, 0.5], "mix"), ([0], [0.5, 0.5], "rev"),
        ([1], [1.0, 0.5], "rev"), ([1], [0.5, 0.5], "mix"),
    )
]
THOROUGH_GRIDS = QUICK_GRIDS + [
    {"kind": "cube", "fracs": [0, 1], "cs": [0.5, 0.5], "ids": "rev"},
    {"kind": "sq", "fracs": [0, 1], "cs": [0.25, 0.5]},
    {"kind": "sq", "fracs": [1], "cs": [0.25, 0.5]},
    {"kind": "cube", "fracs": [], "cs": [0.5, 0.5]},
    {"kind": "cube", "fracs": [0, 1], "cs": [0.5, 0.5]},
]


def _reassemble(mdg, mode, key):
    """A new md-grid from copies of the grids of ``mdg``, created in another order."""
    import random as _random
    sds, ifs = mdg.subdomains(), mdg.interfaces()
    osd, oif = list(range(len(sds)))[::-1], list(range(len(ifs)))[::-1]
    if mode == "mix":
        r = _random.Random(repr(key))
        r.shuffle(osd)
        r.shuffle(oif)
        if len(sds) > 1 and osd == list(range(len(sds))):
            osd = osd[::-1]
    new = pp.MixedDimensionalGrid()
    cp = {}
    for k in osd:
        cp[sds[k]] = sds[k].copy()
    new.add_subdomains([cp[sds[k]] for k in osd])
    for k in oif:
        intf = ifs[k]
        fc = mdg.interface_data(intf)["face_cells"]
        hi, lo = mdg.interface_to_subdomain_pair(intf)
        mg = pp.MortarGrid(intf.dim, {s: g.copy() for s, g in intf.side_grids.items()}, fc)
        new.add_interface(mg, (cp[hi], cp[lo]), fc)
    new.set_boundary_grid_projections()
    ids = [g.id for g in new.subdomains()]
    assert len(sds) < 2 or ids != sorted(ids), "grid ids are still monotone in dimension"
    return new


def get_mdg(spec):
    key = (spec["kind"], tuple(spec["fracs"]), tuple(spec["cs"]), spec.get("ids"))
    if key not in _POOL:
        if spec["kind"] == "sq":
            mdg, _ = square_with_orthogonal_fractures(
                "cartesian",
                {"cell_size_x": spec["cs"][0], "cell_size_y": spec["cs"][1]},
                list(spec["fracs"]),
            )
        else:
            mdg, _ = cube_with_orthogonal_fractures(
                "cartesian", {"cell_size": spec["cs"][0]}, list(spec["fracs"])
            )
        if spec.get("ids"):
            mdg = _reassemble(mdg, spec["ids"], key)
        _POOL[key] = mdg
        _ORIG[key] = ([(g.num_cells, g.num_faces, g.num_nodes) for g in mdg.subdomains()],
                      [i.num_cells for i in mdg.interfaces()])
    mdg = _POOL[key]
    for g, (nc, nf, nn) in zip(mdg.subdomains(), _ORIG[key][0]):
        g.num_cells, g.num_faces, g.num_nodes = nc, nf, nn
    for i, nc in zip(mdg.interfaces(), _ORIG[key][1]):
        i.num_cells = nc
    for _, d in mdg.subdomains(return_data=True):
        d.pop(pp.TIME_STEP_SOLUTIONS, None)
        d.pop(pp.ITERATE_SOLUTIONS, None)
    for _, d in mdg.interfaces(return_data=True):
        d.pop(pp.TIME_STEP_SOLUTIONS, None)
        d.pop(pp.ITERATE_SOLUTIONS, None)
    for bg in mdg.boundaries():
        d = mdg.boundary_grid_data(bg)
        d.pop(pp.TIME_STEP_SOLUTIONS, None)
        d.pop(pp.ITERATE_SOLUTIONS, None)
    return mdg


def grid_numbers(spec):
    """(cells, faces, nodes) per subdomain in mdg.subdomains() order; cells per interface
    in mdg.interfaces() order -- the only facts about the md-grid the model receives."""
    mdg = get_mdg(spec)
    sds = [[int(g.num_cells), int(g.num_faces), int(g.num_nodes)] for g in mdg.subdomains()]
    intfs = [int(i.num_cells) for i in mdg.interfaces()]
    return sds, intfs


# ----------------------------------------------------------------------------------------
# an independent bookkeeping of what is registered (used by the generator to produce
# mostly-valid operations and by the oracle to state the property)
# ----------------------------------------------------------------------------------------
class Shadow:
    def __init__(self, sds, intfs):
        self.sds, self.intfs = [list(x) for x in sds], list(intfs)
        self.alive = {}      # id -> dict(name, kind, g, dof, size)
        self.registry = {}   # every variable ever created
        self.next_id = 0
        self.groups = []     # ids created by one call
        self.dead = []
        self.values = {}     # (loc, name, kind, g) -> list | None (unknown)

    def fresh_size(self, v):
        """dof count from the CURRENT grid sizes"""
        c, f, n = v["dof"]
        if v["kind"] == "sd":
            nc, nf, nn = self.sds[v["g"]]
            return nc * c + nf * f + nn * n
        return self.intfs[v["g"]] * c

    def size(self, v):
        """dof count the system knows (set at creation / update_variable_num_dofs)"""
        return v["size"]

    def rank(self, v):
        return v["g"] if v["kind"] == "sd" else len(self.sds) + v["g"]

    def order(self):
        return sorted(self.alive, key=lambda i: (self.rank(self.alive[i]), i))

    def layout(self):
        """id -> (start, size) in the order the property prescribes."""
        out, pos = {}, 0
        for i in self.order():
            n = self.size(self.alive[i])
            out[i] = (pos, n)
            pos += n
        return out, pos

    def _plain(self, refs):
        if refs is None:
            return sorted(self.alive)
        ids = []
        for r in refs:
            if r[0] == "id":
                ids.append(r[1])
            elif r[0] == "name":
                ids += [i for i in sorted(self.alive) if self.alive[i]["name"] == r[1]]
            else:
                ids += list(r[1])
        return ids

    def parse_full(self, refs):
        """(python truthiness of the argument, ids) or None when building the argument
        itself raises (md_variable on an unknown / mixed-kind name)."""
        if refs is None:
            return False, sorted(self.alive)
        ids, count = [], 0
        for r in refs:
            if r[0] in ("id", "name", "md"):
                ids += self._plain([r])
                count += 1
            elif r[0] == "mdname":
                vs = [i for i in sorted(self.alive) if self.alive[i]["name"] == r[1]]
                if r[2] is None:
                    if not vs or len({self.alive[i]["kind"] for i in vs}) > 1:
                        return None
                else:
                    doms = [tuple(d) for d in r[2]]
                    vs = [i for i in vs
                          if (self.alive[i]["kind"], self.alive[i]["g"]) in doms]
                ids += vs
                count += 1
            elif r[0] == "getvars":
                if r[1] is None and r[2] is None:
                    got = sorted(self.alive)
                else:
                    doms = ([tuple(d) for d in r[2]] if r[2] is not None else
                            [(v["kind"], v["g"]) for v in self.alive.values()])
                    got = [i for i in self._plain(r[1])
                           if i in self.registry
                           and (self.registry[i]["kind"], self.registry[i]["g"]) in doms]
                ids += got
                count += len(got)
            else:
                raise ValueError(r[0])
        return count > 0, ids

    def parse(self, refs):
        p = self.parse_full(refs)
        return None if p is None else p[1]

    def create(self, name, dof, kind, grids):
        ids = []
        for g in grids:
            v = {"name": name, "kind": kind, "g": g, "dof": tuple(dof)}
            v["size"] = self.fresh_size(v)
            self.alive[self.next_id] = v
            self.registry[self.next_id] = v
            ids.append(self.next_id)
            self.next_id += 1
        self.groups.append(ids)
        return ids

    def remove(self, ids, upto=None):
        for i in ids:
            if i not in self.alive:
                return False
            del self.alive[i]
            self.dead.append(i)
        return True

    def regrid(self, sds, intfs):
        self.sds, self.intfs = [list(x) for x in sds], list(intfs)

    def update(self):
        for v in self.alive.values():
            v["size"] = self.fresh_size(v)


def _dof_of(op):
    return tuple(op[2]) if op[2] is not None else (1, 0, 0)


class C05(Prop):
    id = "C05"
    props_file = "Props/C05.v"
    preamble = ("From Coq Require Import List ZArith.\nImport ListNotations.\n"
                "From PP Require Import Model.C05 Model.C05x.\n")
    n_cases = (300, 2400)
    design_ref = "DESIGN.md §5 C05"
    level_text = ("Coq theorems (14, no axioms) over an executable transcription of EquationSystem's "
                  "variable bookkeeping (create_variables, remove_variables, _append_dofs, "
                  "_cluster_dofs_gridwise, _parse_variable_type, dofs_of, identify_dof, "
                  "projection_to, set/get_variable_values; extended model: md_variable, "
                  "get_variables, variables, update_variable_num_dofs): after ANY history of "
                  "operations (failing calls included) whose created variables live on grids of "
                  "the md-grid, the blocks of the registered variables are contiguous, pairwise "
                  "disjoint, cover 0..num_dofs-1, have the variable's dof count as size and are "
                  "ordered by (subdomain order, interface order, creation order); every index has "
                  "exactly one owner and identify_dof returns it (empty blocks included), "
                  "out-of-range indices are rejected; projection_to selects exactly the sorted "
                  "indices of the requested variables, for distinct variables strictly increasing "
                  "and equal to the blocks in global order (the positions set/get dissect); a "
                  "well-sized write followed by a read of the same selection (or of any id list) "
                  "returns the written vector; additive writes onto arbitrary stored arrays of the "
                  "right sizes add elementwise; wrongly sized writes end in the assertion; after "
                  "the grids change size update_variable_num_dofs re-establishes the whole layout "
                  "statement for the new sizes, also along histories with repeated re-sizing. The "
                  "model is tied to the code on every run: random interleavings of all operations "
                  "are executed on a real EquationSystem over generated md-grids and Coq compares "
                  "every output.")
    level_note = ("Trusted: Coq kernel + vm_compute; the harness (generator, literal emission incl. "
                  "the lossless run encodings zruns/orep decoded in Coq, mapping of Variable/grid "
                  "objects to creation/order indices); the order of mdg.subdomains()/interfaces() "
                  "is an input (property C24); integer-valued arrays stand for stored vectors; "
                  "storage index 0 only (deeper indices and shifts through EquationSystem: C08's "
                  "wrapper stream). The theorems are about the model; the implementation is "
                  "covered on the generated histories only. Not proved (tie/oracle only): error "
                  "branch of additive writes (missing or wrongly sized stored arrays, numpy "
                  "broadcasting), histories that create/remove variables between a re-sizing of "
                  "the grids and update_variable_num_dofs, tags. A grid listed twice in one "
                  "create_variables call used to corrupt the system (fixed in /repo 8d664ba3d, "
                  "known_findings/C05.json); the model transcribes the repaired code, so the "
                  "round-trip theorems need no guard any more.")
    technique = ("Coq proof (invariant by induction over operation histories) + vm_compute "
                 "execution correspondence")
    rule = ("random histories (<=40 ops quick, <=80 thorough) of create (cells/faces/nodes "
            "multiplicities 0-3, subdomains or interfaces, random grid subsets/orders, a grid "
            "listed twice, default and partial dof_info, error inputs), remove (by object, name, "
            "md-variable, all, stale and duplicate references), set/get (subsets, additive, both "
            "storage locations, wrong sizes, float or int arrays, contiguous or strided views, "
            "every array overwritten afterwards), dofs_of, identify_dof, projection_to, num_dofs, "
            "variables, references produced by md_variable(name[, domains]) (unknown and "
            "mixed-kind names included) and get_variables(variables, grids) (stale objects "
            "included), re-sizing of the grids (num_cells/faces/nodes patched, 0 included) with "
            "and without a following update_variable_num_dofs, and full snapshots on 24 (quick) "
            "/ 29 (thorough) Cartesian md-grids with 0-2 fractures, 8 / 9 of them re-assembled "
            "by hand from grid copies created in reversed or shuffled order so that grid ids are "
            "not monotone in dimension (mdg.subdomains()/interfaces() order differs from id order); non-trivial = at least one "
            "removal followed by a creation or a snapshot with >= 2 registered variables; "
            "distinct by (case, output)")
    trusted = ["integer-valued arrays (exact in binary64 / int64) stand for the stored vectors; "
               "numpy '+=' on 1-d arrays = elementwise addition for equal sizes, scalar "
               "broadcast for size 1, ValueError otherwise",
               "the harness maps Variable objects to creation indices and grids to their "
               "position in mdg.subdomains()/mdg.interfaces(); re-sizing of grids is simulated "
               "by patching num_cells/num_faces/num_nodes of the real grid objects (the only "
               "grid attributes the modelled code reads)"]
    assumptions = ["variables are created on grids of the md-grid only",
                   "one dtype (float or int) per history: mixing int storage with float "
                   "additive updates is numpy casting behaviour, not modelled"]

    # ------------------------------------------------------------------ generation
    def _refs(self, rng, sh, allow_none=True, stale=0.1):
        r = rng.random()
        alive = sorted(sh.alive)
        if allow_none and r < 0.2:
            return None
        if r < 0.3:
            return [["name", rng.randrange(len(NAMES))] for _ in range(rng.randint(1, 2))]
        if r < 0.4 and sh.groups:
            return [["md", list(rng.choice(sh.groups))]]
        if r < 0.45:
            return []
        k = rng.randint(1, max(1, min(4, len(alive))))
        ids = rng.sample(alive, min(k, len(alive))) if alive else []
        out = [["id", i] for i in ids]
        if sh.dead and rng.random() < stale:
            out.insert(rng.randint(0, len(out)), ["id", rng.choice(sh.dead)])
        if out and rng.random() < 0.07:
            out.append(rng.choice(out))
        if rng.random() < 0.15:
            out.append(["name", rng.randrange(len(NAMES))])
        return out

    def _doms(self, rng, sh):
        alld = [["sd", i] for i in range(len(sh.sds))] + [["intf", i] for i in range(len(sh.intfs))]
        k = rng.randint(0, min(3, len(alld)))
        out = rng.sample(alld, k)
        if out and rng.random() < 0.1:
            out.append(out[0])
        return out

    def _xrefs(self, rng, sh, allow_none=True, stale=0.1):
        """references that may also be produced by md_variable / get_variables"""
        refs = self._refs(rng, sh, allow_none, stale)
        if rng.random() > 0.3:
            return refs
        extra = []
        for _ in range(rng.randint(1, 2)):
            if rng.random() < 0.5:
                extra.append(["mdname", rng.randrange(len(NAMES)),
                              None if rng.random() < 0.5 else self._doms(rng, sh)])
            else:
                inner = None if rng.random() < 0.4 else self._refs(rng, sh, False, 0.2)
                grids = None if rng.random() < 0.3 else self._doms(rng, sh)
                if sh.dead and rng.random() < 0.35:
                    # removed Variable objects: only kept when their grid still carries a
                    # registered variable (grids=None means variable_domains)
                    inner = [["id", i] for i in rng.sample(sh.dead, min(3, len(sh.dead)))]
                    if sh.alive and rng.random() < 0.5:
                        inner.append(["id", rng.choice(sorted(sh.alive))])
                    if rng.random() < 0.6:
                        grids = None
                extra.append(["getvars", inner, grids])
        if refs is None or rng.random() < 0.4:
            return extra
        refs = list(refs)
        for e in extra:
            refs.insert(rng.randint(0, len(refs)), e)
        return refs

    def generate(self, rng, n, tier):
        maxops = 40 if tier == "quick" else 80
        cap = 350 if tier == "quick" else 500
        pool = QUICK_GRIDS if tier == "quick" else THOROUGH_GRIDS
        for _ in range(n):
            spec = rng.choice(pool)
            sds, intfs = grid_numbers(spec)
            sh = Shadow(sds, intfs)
            nops = rng.randint(1, maxops)
            ops = []
            for _k in range(nops):
                r = rng.random()
                _, total = sh.layout()
                if r < 0.27 and len(sh.alive) < 9:
                    name = rng.randrange(len(NAMES))
                    dof = [rng.choice([0, 1, 1, 1, 2, 3]), rng.choice([0, 0, 0, 1, 2, 3]),
                           rng.choice([0, 0, 0, 1, 2, 3])]
                    if total > cap // 2:
                        dof = [rng.choice([0, 1]), 0, rng.choice([0, 0, 1])]
                    if total > cap:
                        dof = [rng.choice([0, 1]), 0, 0]
                    omit = rng.random() < 0.5
                    dofarg = None if rng.random() < 0.1 else dof
                    e = rng.random()
                    intf = rng.random() < 0.35
                    ng = len(intfs) if intf else len(sds)
                    k = 0 if rng.random() < 0.05 else rng.randint(1, max(1, ng))
                    grids = rng.sample(range(ng), min(k, ng))
                    if grids and rng.random() < 0.06:      # the same grid twice in one call
                        grids.insert(rng.randint(0, len(grids)), rng.choice(grids))
                    sub, itf = (None, grids) if intf else (grids, None)
                    bad = False
                    if e < 0.03:
                        sub, itf = None, None
                    elif e < 0.06:
                        sub, itf = list(range(len(sds)))[:1], list(range(len(intfs)))[:1]
                    elif e < 0.09:
                        bad = True
                    op = ["create", name, dofarg, bad, sub, itf, omit]
                    ops.append(op)
                    ok = ((not bad) and ((sub is None) != (itf is None))
                          and len(set(grids)) == len(grids))
                    if ok:
                        kind = "sd" if sub is not None else "intf"
                        if not any(v["name"] == name and v["kind"] == kind and v["g"] in grids
                                   for v in sh.alive.values()):
                            sh.create(name, _dof_of(op), kind, grids)
                elif r < 0.36:
                    refs = self._xrefs(rng, sh, allow_none=rng.random() < 0.25, stale=0.15)
                    ops.append(["remove", refs])
                    if sh.parse(refs) is not None:
                        sh.remove(sh.parse(refs))
                elif r < 0.40:
                    if rng.random() < 0.45:
                        pick = lambda x: rng.choice([x, x, rng.randint(0, 6), x + 1])
                        nsds = [[pick(a), pick(b), pick(c)] for a, b, c in sh.sds]
                        nint = [pick(a) for a in sh.intfs]
                        ops.append(["regrid", nsds, nint])
                        sh.regrid(nsds, nint)
                        if rng.random() < 0.6:
                            ops.append(["update"])
                            sh.update()
                    elif rng.random() < 0.6:
                        ops.append(["update"])
                        sh.update()
                    else:
                        ops.append(["vars"])
                elif r < 0.52:
                    refs = self._xrefs(rng, sh, stale=0.1)
                    ids = set(sh.parse(refs) or [])
                    need = sum(sh.size(sh.alive[i]) for i in ids if i in sh.alive)
                    if rng.random() < 0.12:
                        need = max(0, need + rng.choice([-2, -1, 1, 2, 5]))
                    vals = [rng.randint(-50, 50) for _ in range(need)]
                    ops.append(["set", refs, vals, rng.choice(["iter", "iter", "ts", "both"]),
                                rng.random() < 0.3])
                elif r < 0.62:
                    ops.append(["get", self._xrefs(rng, sh, stale=0.1), rng.choice(["iter", "ts"])])
                elif r < 0.70:
                    ops.append(["dofs", self._xrefs(rng, sh, stale=0.08)])
                elif r < 0.76:
                    ops.append(["ident", rng.randint(-2, total + 2)])
                elif r < 0.84:
                    ops.append(["proj", self._xrefs(rng, sh, stale=0.05)])
                elif r < 0.87:
                    ops.append(["num"])
                else:
                    ops.append(["snap"])
            ops.append(["snap"])
            yield {"grid": spec, "sds": sds, "intfs": intfs, "ops": ops,
                   "dtype": rng.choice(["float", "float", "int"]),
                   "strided": rng.random() < 0.3}

    # ------------------------------------------------------------------ implementation
    def run_impl(self, case):
        mdg = get_mdg(case["grid"])
        sdl, ifl = mdg.subdomains(), mdg.interfaces()
        sds, intfs = grid_numbers(case["grid"])
        assert sds == case["sds"] and intfs == case["intfs"], "md-grid differs from the case"
        es = pp.ad.EquationSystem(mdg)
        created = []          # every Variable object, in creation order
        index = {}            # Variable.id -> creation index
        mds = {}

        def dom(d):
            return sdl[d[1]] if d[0] == "sd" else ifl[d[1]]

        def resolve(refs):
            if refs is None:
                return None
            out = []
            for r in refs:
                if r[0] == "id":
                    if r[1] >= len(created):
                        raise RuntimeError("harness: reference to a variable never created")
                    out.append(created[r[1]])
                elif r[0] == "name":
                    out.append(NAMES[r[1]])
                elif r[0] == "mdname":
                    doms = None if r[2] is None else [dom(d) for d in r[2]]
                    out.append(es.md_variable(NAMES[r[1]], doms))
                elif r[0] == "getvars":
                    grids = None if r[2] is None else [dom(d) for d in r[2]]
                    got = es.get_variables(resolve(r[1]), grids=grids)
                    assert isinstance(got, list)
                    out += got
                else:
                    key = tuple(r[1])
                    if key not in mds:
                        if any(i >= len(created) for i in key):
                            raise RuntimeError("harness: reference to a variable never created")
                        mds[key] = pp.ad.MixedDimensionalVariable([created[i] for i in key])
                    out.append(mds[key])
            return out

        def ints(a):
            a = np.asarray(a)
            out = [int(x) for x in a]
            assert all(float(i) == float(x) for i, x in zip(out, a)), "non-integer value"
            return out

        def kw(w):
            d = {}
            if w in ("iter", "both"):
                d["iterate_index"] = 0
            if w in ("ts", "both"):
                d["time_step_index"] = 0
            return d

        outs = []
        for o in case["ops"]:
            k = o[0]
            try:
                if k == "create":
                    _, name, dof, bad, sub, itf, omit = o
                    if dof is None:
                        info = None
                    else:
                        info = {key: m for key, m in zip(("cells", "faces", "nodes"), dof)
                                if not (omit and m == 0)}
                    if bad:
                        info = dict(info or {"cells": 1})
                        info["edges"] = 1
                    try:
                        md = es.create_variables(
                            NAMES[name], info,
                            subdomains=None if sub is None else [sdl[i] for i in sub],
                            interfaces=None if itf is None else [ifl[i] for i in itf],
                        )
                    except (KeyError, ValueError, AssertionError, IndexError) as e:
                        # a rejected call must not have registered anything; if it did,
                        # record the objects so that the history stays addressable
                        leaked = []
                        for v in es.variables:
                            if v.id not in index:
                                index[v.id] = len(created)
                                leaked.append(len(created))
                                created.append(v)
                        err = ERRS[[t for t in ERRS if isinstance(e, t)][0]]
                        outs.append(["err", err] + ([leaked] if leaked else []))
                        continue
                    ids = []
                    for v in md.sub_vars:
                        index[v.id] = len(created)
                        ids.append(len(created))
                        created.append(v)
                    assert [index[v.id] for v in es.variables if v.id in index] == \
                        [index[v.id] for v in es.variables], "unregistered Variable object"
                    mds[tuple(ids)] = md
                    outs.append(["created", ids])
                elif k == "remove":
                    es.remove_variables(resolve(o[1]))
                    outs.append(["done"])
                elif k == "set":
                    arr = np.array(o[2], dtype=int if case.get("dtype") == "int" else float)
                    if case.get("strided"):       # a non-contiguous view
                        big = np.full(2 * len(o[2]), 555, dtype=arr.dtype)
                        big[::2] = arr
                        arr = big[::2]
                    try:
                        es.set_variable_values(arr, resolve(o[1]), additive=o[4], **kw(o[3]))
                    finally:
                        arr[:] = 977.0      # aliasing probe
                    outs.append(["done"])
                elif k == "get":
                    v = es.get_variable_values(resolve(o[1]), **kw(o[2]))
                    outs.append(["vals", ints(v)])
                    v[:] = -977.0           # aliasing probe
                elif k == "dofs":
                    outs.append(["idx", [int(x) for x in es.dofs_of(resolve(o[1]))]])
                elif k == "ident":
                    outs.append(["var", index[es.identify_dof(o[1]).id]])
                elif k == "proj":
                    P = es.projection_to(resolve(o[1])).tocsr()
                    P.sort_indices()
                    rows = []
                    for i in range(P.shape[0]):
                        sl = slice(P.indptr[i], P.indptr[i + 1])
                        rows.append([[int(c), int(x)] for c, x in zip(P.indices[sl], P.data[sl])
                                     if x != 0])
                        assert all(float(int(x)) == x for x in P.data[sl])
                    outs.append(["proj", rows, int(P.shape[1])])
                elif k == "num":
                    outs.append(["num", int(es.num_dofs())])
                elif k == "vars":
                    outs.append(["idx", [index[v.id] for v in es.variables]])
                elif k == "regrid":
                    for g, (nc, nf, nn) in zip(sdl, o[1]):
                        g.num_cells, g.num_faces, g.num_nodes = nc, nf, nn
                    for i, nc in zip(ifl, o[2]):
                        i.num_cells = nc
                    outs.append(["done"])
                elif k == "update":
                    es.update_variable_num_dofs()
                    outs.append(["done"])
                elif k == "snap":
                    n = int(es.num_dofs())
                    dofs = []
                    for v in created:
                        try:
                            dofs.append([int(x) for x in es.dofs_of([v])])
                        except (ValueError, AssertionError):
                            dofs.append(None)
                    owners = []
                    for i in range(n):
                        try:
                            owners.append(index[es.identify_dof(i).id])
                        except (KeyError, AssertionError):
                            owners.append(None)
                    edge = []
                    for i in (-1, n):
                        try:
                            es.identify_dof(i)
                            edge.append(False)
                        except KeyError:
                            edge.append(True)
                        except AssertionError:
                            edge.append(False)
                    outs.append(["snap", n, dofs, owners, edge[0], edge[1]])
                else:
                    raise RuntimeError(k)
            except (KeyError, ValueError, AssertionError, IndexError) as e:
                outs.append(["err", ERRS[[t for t in ERRS if isinstance(e, t)][0]]])
        return {"outs": outs}

    # ------------------------------------------------------------------ oracle
    def oracle(self, case, res):
        sh = Shadow(case["sds"], case["intfs"])
        for n_op, (o, out) in enumerate(zip(case["ops"], res["outs"])):
            k = o[0]
            lay, total = sh.layout()
            where = f"op {n_op} {k}: "

            def blocks(ids):
                x = []
                for i in ids:
                    x += list(range(lay[i][0], lay[i][0] + lay[i][1]))
                return x

            if k in ("remove", "set", "get", "dofs", "proj") and sh.parse_full(o[1]) is None:
                # md_variable() on an unknown or mixed-kind name raises before the call
                if out[0] != "err":
                    return where + f"unresolvable reference was accepted: {out}"
                continue
            if k == "vars":
                if out != ["idx", sorted(sh.alive)]:
                    return where + f"variables -> {out}, registered {sorted(sh.alive)}"
            elif k == "regrid":
                sh.regrid(o[1], o[2])
            elif k == "update":
                if out != ["done"]:
                    return where + f"update_variable_num_dofs answered {out}"
                sh.update()
            elif k == "create":
                _, name, dof, bad, sub, itf, omit = o
                ok = (not bad) and ((sub is None) != (itf is None))
                if out[0] == "created":
                    if not ok:
                        return where + "invalid create_variables call was accepted"
                    kind = "sd" if sub is not None else "intf"
                    grids = sub if sub is not None else itf
                    if len(set(grids)) != len(grids):
                        return where + "one variable name was registered twice on one grid"
                    ids = sh.create(name, _dof_of(o), kind, grids)
                    if ids != out[1]:
                        return where + "harness: creation indices out of step"
                elif out[0] != "err":
                    return where + f"unexpected answer {out}"
                elif len(out) > 2 and out[2]:
                    return where + (f"rejected create_variables call ({out[1]}) registered "
                                    f"variables {out[2]}")
            elif k == "remove":
                ids = sh.parse(o[1])
                if out == ["done"]:
                    if not sh.remove(ids):
                        return where + "removal of an unregistered variable was accepted"
                elif out == ["err", "ValueErr"]:
                    if sh.remove(ids):
                        return where + "removal of registered variables was rejected"
                else:
                    return where + f"unexpected answer {out}"
            elif k == "snap":
                _, n, dofs, owners, below, above = out
                if n != total:
                    return where + f"num_dofs {n}, variables have {total} dofs"
                cat = []
                for i in sh.order():
                    if dofs[i] is None:
                        return where + f"registered variable {i} has no dofs"
                    if len(dofs[i]) != lay[i][1]:
                        return where + (f"variable {i} has a block of {len(dofs[i])} indices, "
                                        f"expected {lay[i][1]}")
                    cat += dofs[i]
                if cat != list(range(total)):
                    return where + ("blocks in (subdomain, interface, creation) order do not "
                                    f"enumerate 0..{total - 1}: {cat[:40]}")
                for i, own in enumerate(owners):
                    if own is None or own not in lay or not (
                            lay[own][0] <= i < lay[own][0] + lay[own][1]):
                        return where + f"identify_dof({i}) -> {own}, which does not own it"
                if not (below and above):
                    return where + "identify_dof accepted an out-of-range index"
            elif k == "num":
                if out != ["num", total]:
                    return where + f"num_dofs {out}, expected {total}"
            elif k == "ident":
                i = o[1]
                if 0 <= i < total:
                    if out[0] != "var" or out[1] not in lay or not (
                            lay[out[1]][0] <= i < sum(lay[out[1]])):
                        return where + f"identify_dof({i}) -> {out}"
                elif out != ["err", "KeyErr"]:
                    return where + f"identify_dof({i}) out of range -> {out}"
            elif k in ("dofs", "proj"):
                ids = sh.parse(o[1])
                if all(i in sh.alive for i in ids):
                    exp = blocks(ids)
                    if k == "proj" and not sh.parse_full(o[1])[0]:
                        exp = []      # documented: no variables given -> empty projection
                    if k == "dofs":
                        if out != ["idx", exp]:
                            return where + f"dofs_of -> {str(out)[:200]}, expected {exp[:40]}"
                    else:
                        rows = [[[c, 1]] for c in sorted(exp)]
                        if out != ["proj", rows, total]:
                            return where + f"projection rows {str(out)[:200]}, expected columns {sorted(exp)[:40]}"
            elif k == "set":
                _, refs, vals, w, additive = o
                ids = set(sh.parse(refs))
                sel = [i for i in sh.order() if i in ids]
                need = sum(lay[i][1] for i in sel)
                locs = {"iter": ["iter"], "ts": ["ts"], "both": ["iter", "ts"]}[w]
                keys = [(l, sh.alive[i]["name"], sh.alive[i]["kind"], sh.alive[i]["g"])
                        for i in sel for l in locs]
                if out == ["done"] and len(vals) == need:
                    pos = 0
                    for i in sel:
                        v = sh.alive[i]
                        piece = vals[pos:pos + lay[i][1]]
                        pos += lay[i][1]
                        for l in locs:
                            key = (l, v["name"], v["kind"], v["g"])
                            if additive:
                                old = sh.values.get(key)
                                if old is None or len(old) != len(piece):
                                    sh.values[key] = None
                                else:
                                    sh.values[key] = [a + b for a, b in zip(old, piece)]
                            else:
                                sh.values[key] = list(piece)
                else:
                    if len(vals) == need and not additive and len(set(keys)) == len(keys):
                        return where + f"a write of the right size ({need}) was rejected: {out}"
                    if out == ["done"] and len(vals) != need:
                        return where + f"a write of size {len(vals)} != {need} was accepted"
                    for key in keys:
                        sh.values[key] = None
            elif k == "get":
                _, refs, l = o
                ids = set(sh.parse(refs))
                sel = [i for i in sh.order() if i in ids]
                exp = []
                for i in sel:
                    v = sh.alive[i]
                    x = sh.values.get((l, v["name"], v["kind"], v["g"]))
                    if x is None or len(x) != lay[i][1]:
                        exp = None
                        break
                    exp += x
                if exp is not None and out != ["vals", exp]:
                    return where + f"read returned {str(out)[:200]}, written {exp[:40]}"
        return None

    # ------------------------------------------------------------------ Coq emission
    @staticmethod
    def _nl(l):
        return clist(l, cnat)

    def _crefs(self, refs):
        def one(r):
            if r[0] == "id":
                return f"ById {cnat(r[1])}"
            if r[0] == "name":
                return f"ByName {cnat(r[1])}"
            return f"ByMd {self._nl(r[1])}"
        return coption(refs, lambda l: clist(l, one))

    def _cop(self, o):
        k = o[0]
        if k == "create":
            _, name, dof, bad, sub, itf, omit = o
            d = coption(dof, lambda t: f"({cnat(t[0])}, {cnat(t[1])}, {cnat(t[2])})")
            return (f"OpCreate {cnat(name)} {d} {cbool(bad)} {coption(sub, self._nl)} "
                    f"{coption(itf, self._nl)}")
        if k == "remove":
            return f"OpRemove {self._crefs(o[1])}"
        if k == "set":
            w = {"iter": "WIter", "ts": "WTs", "both": "WBoth"}[o[3]]
            return f"OpSet {self._crefs(o[1])} {clist(o[2], cz)} {w} {cbool(o[4])}"
        if k == "get":
            return f"OpGet {self._crefs(o[1])} {'LIter' if o[2] == 'iter' else 'LTs'}"
        if k == "dofs":
            return f"OpDofs {self._crefs(o[1])}"
        if k == "ident":
            return f"OpIdent {cz(o[1])}"
        if k == "proj":
            return f"OpProj {self._crefs(o[1])}"
        if k == "num":
            return "OpNum"
        if k == "snap":
            return "OpSnap"
        raise ValueError(k)

    @staticmethod
    def _cobs(o):
        k = o[0]

        def zl(l):
            # maximal runs of consecutive integers (lossless), decoded by zruns in Coq
            runs = []
            for x in l:
                if runs and x == runs[-1][0] + runs[-1][1]:
                    runs[-1][1] += 1
                else:
                    runs.append([x, 1])
            return "(zruns " + clist(runs, lambda r: f"({cz(r[0])}, {cz(r[1])})") + ")"

        def orep(l):
            reps = []
            for x in l:
                if reps and x == reps[-1][0]:
                    reps[-1][1] += 1
                else:
                    reps.append([x, 1])
            return "(orep " + clist(reps, lambda r: f"({coption(r[0], cz)}, {cz(r[1])})") + ")"
        if k == "done":
            return "BDone"
        if k == "created":
            return f"BCreated {zl(o[1])}"
        if k == "idx":
            return f"BIdx {zl(o[1])}"
        if k == "var":
            return f"BVarId {cz(o[1])}"
        if k == "proj":
            if all(len(r) == 1 and r[0][1] == 1 for r in o[1]):
                return f"BProjCols {zl([r[0][0] for r in o[1]])} {cz(o[2])}"
            rows = clist(o[1], lambda r: clist(r, lambda p: f"({cz(p[0])}, {cz(p[1])})"))
            return f"BProj {rows} {cz(o[2])}"
        if k == "vals":
            return f"BVals {clist(o[1], cz)}"
        if k == "num":
            return f"BNumDofs {cz(o[1])}"
        if k == "snap":
            dofs = clist(o[2], lambda d: coption(d, zl))
            owners = orep(o[3])
            return f"BSnap {cz(o[1])} {dofs} {owners} {cbool(o[4])} {cbool(o[5])}"
        if k == "err":
            return f"BErr {o[1]}"
        raise ValueError(k)

    def _cgrid(self, case):
        sds = clist(case["sds"], lambda t: f"({cnat(t[0])}, {cnat(t[1])}, {cnat(t[2])})")
        return "{| sds := " + sds + "; intfs := " + self._nl(case["intfs"]) + " |}"

    # extended operations / references (Model.C05x)
    @staticmethod
    def _cdom(d):
        return f"{'Sd' if d[0] == 'sd' else 'Intf'} {cnat(d[1])}"

    @staticmethod
    def _plain_refs(refs):
        return refs is None or all(r[0] in ("id", "name", "md") for r in refs)

    def _cxrefs(self, refs):
        def one(r):
            if r[0] == "mdname":
                return (f"XMdName {cnat(r[1])} "
                        f"{coption(r[2], lambda l: clist(l, self._cdom))}")
            if r[0] == "getvars":
                return (f"XGetVars {self._crefs(r[1])} "
                        f"{coption(r[2], lambda l: clist(l, self._cdom))}")
            return f"XV ({self._crefs([r])[7:-2]})"      # strip '(Some [' ... '])'
        return coption(refs, lambda l: clist(l, one))

    def _cxop(self, o):
        k = o[0]
        if k == "vars":
            return "XVariables"
        if k == "update":
            return "XUpdate"
        if k == "regrid":
            return f"XRegrid {self._cgrid({'sds': o[1], 'intfs': o[2]})}"
        if k in ("remove", "set", "get", "dofs", "proj") and not self._plain_refs(o[1]):
            r = self._cxrefs(o[1])
            if k == "remove":
                return f"XRemove {r}"
            if k == "set":
                w = {"iter": "WIter", "ts": "WTs", "both": "WBoth"}[o[3]]
                return f"XSet {r} {clist(o[2], cz)} {w} {cbool(o[4])}"
            if k == "get":
                return f"XGet {r} {'LIter' if o[2] == 'iter' else 'LTs'}"
            if k == "dofs":
                return f"XDofs {r}"
            return f"XProj {r}"
        return f"XBase ({self._cop(o)})"

    def coq_case(self, case, res):
        return (f"xagree {self._cgrid(case)} {clist(case['ops'], self._cxop)} "
                f"{clist(res['outs'], lambda o: '(' + self._cobs(o) + ')')}")

    def coq_diag(self, case, res):
        return f"snd (xrun (xinit {self._cgrid(case)}) {clist(case['ops'], self._cxop)})"

    def nontrivial(self, case, res):
        seen_remove = False
        for o, out in zip(case["ops"], res["outs"]):
            if o[0] == "remove" and out == ["done"]:
                seen_remove = True
            if o[0] == "create" and out[0] == "created" and seen_remove and out[1]:
                return True
            if o[0] == "snap" and sum(1 for d in out[2] if d is not None) >= 2:
                return True
        return False

    def finding_key(self, case, res, why):
        return "dof-layout: " + why.split(":")[1].strip()[:60] if ":" in why else "dof-layout"

    def shrink(self, case, still_fails):
        ops = list(case["ops"])
        changed = True
        while changed and len(ops) > 1:
            changed = False
            for i in range(len(ops)):
                c = dict(case, ops=ops[:i] + ops[i + 1:])
                if still_fails(c):
                    ops = c["ops"]
                    changed = True
                    break
        return dict(case, ops=ops)


PROP = C05()
