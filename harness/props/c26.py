"""C26 — mortar projections conserve extensive and preserve intensive quantities
(pp.MortarGrid: _init_projections/_set_projections/update_mortar/update_secondary/update_primary,
pp.MixedDimensionalGrid.replace_subdomains_and_interfaces)."""
from fractions import Fraction as F

import numpy as np
import scipy.sparse as sps

from harness.core import Prop, cq, clist, cnat, coption

import porepy as pp
from porepy.fracs import meshing
from porepy.grids import mortar_grid as mgm

NAMES = ["primary_to_mortar_int", "primary_to_mortar_avg", "secondary_to_mortar_int",
         "secondary_to_mortar_avg", "mortar_to_primary_int", "mortar_to_primary_avg",
         "mortar_to_secondary_int", "mortar_to_secondary_avg"]
STEP = 64


def _coords(m):
    m = sps.coo_matrix(m)
    m.sum_duplicates()
    out = sorted((int(r), int(c), float(v)) for r, c, v in zip(m.row, m.col, m.data))
    return [[r, c, v] for r, c, v in out if v != 0.0]


def _entry(e):
    return f"({cnat(e[0])}, {cnat(e[1])}, {cq(e[2])})"


def _mat(l):
    return clist(l, _entry)


def _cells(cs):
    return clist(cs, lambda c: f"({cq(c[0])}, {cq(c[1])})")


def _grid_cells(g, k):
    """cells of a 1-D grid as pairs of the coordinate k of their two nodes (the model's input)"""
    cn = g.cell_nodes().tocsc()
    idx = cn.indices.reshape((2, g.num_cells), order="F")
    return [[float(g.nodes[k, idx[0, c]]), float(g.nodes[k, idx[1, c]])]
            for c in range(g.num_cells)]


class C26(Prop):
    id = "C26"
    props_file = "Props/C26.v"
    preamble = ("From Coq Require Import List QArith.\nImport ListNotations.\n"
                "From PP Require Import Model.C33 Model.C26.\nOpen Scope Q_scope.\n")
    n_cases = (80, 200)
    design_ref = "DESIGN.md §5 C26"
    level_text = (
        "P-core.  Coq theorems over an exact-rational transcription of MortarGrid._init_projections, "
        "_set_projections, update_mortar, update_secondary and _check_mappings (1-D mortar grids, "
        "match_1d weights from the C33 model): after construction and after EVERY history of mortar / "
        "secondary replacements the mortar-to-grid integrated maps are the transposes of the "
        "grid-to-mortar averaged maps and vice versa (C26_transposes, C26_transpose_sums); every block "
        "the updates build has unit row sums ('averaged') / unit column sums ('integrated') for grids "
        "tessellating the same segment (C26_block_weights, by C33's overlap theorem); the matrix "
        "product the updates perform preserves unit row sums and per-side column sums "
        "(C26_avg_rows_preserved_partial, C26_int_side_cols_preserved_partial); the updates raise "
        "IndexError only for zero-length cells (C26_update_error).  The model is tied to the code on "
        "every run: real MortarGrids of small 2-D md-grids with one fracture, all eight projection "
        "matrices compared (1e-9) after construction and after each replacement; the property "
        "itself (per-side row/column sums, transposes) is evaluated exactly on the real matrices, "
        "also after update_primary.")
    level_note = (
        "NOT proved in Coq (covered only by the execution correspondence and the oracle on the "
        "generated histories): that the block-diagonal / stacked arrangement (sps.bmat) of the proved "
        "blocks satisfies the hypotheses of the two _partial preservation theorems (index "
        "bookkeeping), the sums right after _init_projections (stable sort and even/odd split of the "
        "face-cell pairs), update_primary / match_grids_along_1d_mortar, 2-D mortar grids (match_2d, "
        "shapely), sign_of_mortar_sides.  Trusted: Coq kernel + vm_compute, the harness, the inputs "
        "read off the real objects (captured primary_secondary matrix, node coordinates).  Theorems "
        "are over Q; floating-point rounding is not covered.  Defect found and repaired (fix commit "
        "32834ce81): update_primary after a non-matching update_mortar counted interface faces "
        "repeatedly.")
    technique = ("Coq proof (invariant of the projection bookkeeping preserved by every update, using "
                 "C33's overlap theorem) + vm_compute execution correspondence on real MortarGrids")
    rule = ("2-D Cartesian md-grids (nx,ny in 2..5, occasionally simplex from pp.mdg_library) with one "
            "axis-aligned fracture; histories of 0..4 operations: replace one or both mortar side grids "
            "(update_mortar, directly or via replace_subdomains_and_interfaces) and replace the "
            "fracture grid (update_secondary) by random non-matching 1-D grids with nodes in Z/64 of "
            "the fracture length (also reversed node order, identical grids), replace the 2-D grid "
            "(update_primary; oracle only); all eight projection matrices dumped after construction "
            "and after every operation.  Non-trivial = at least one replacement by a non-matching grid.")
    trusted = ["the harness reads the inputs of the modelled functions off the real objects "
               "(primary_secondary matrix and face_duplicate_ind captured at MortarGrid construction, "
               "node coordinates of the side grids)",
               "update_primary / match_grids_along_1d_mortar and 2-D mortar grids are not modelled "
               "(oracle on the real matrices only)"]
    assumptions = ["1-D mortar grids on an axis-aligned line; every new grid tessellates the same "
                   "segment as the grid it replaces and has no zero-length cell"]

    # ------------------------------------------------------------------ generation
    def _breaks(self, rng, n):
        n = max(1, min(n, STEP - 1))
        inner = sorted(rng.sample(range(1, STEP), n - 1)) if n > 1 else []
        b = [0.0] + [k / STEP for k in inner] + [1.0]
        if rng.random() < 0.4:
            b.reverse()
        return b

    def generate(self, rng, n, tier):
        for _ in range(n):
            simplex = rng.random() < 0.1
            nx, ny = rng.randint(2, 5), rng.randint(2, 5)
            horizontal = rng.random() < 0.5
            # fracture along a grid line, between grid nodes (immersed, touching or crossing)
            if horizontal:
                j = rng.randint(1, ny - 1)
                a = rng.randint(0, nx - 1)
                b = rng.randint(a + 1, nx)
                frac = [[a / nx, b / nx], [j / ny, j / ny]]
            else:
                j = rng.randint(1, nx - 1)
                a = rng.randint(0, ny - 1)
                b = rng.randint(a + 1, ny)
                frac = [[j / nx, j / nx], [a / ny, b / ny]]
            ops = []
            for _ in range(rng.randint(0, 4 if tier == "quick" else 5)):
                r = rng.random()
                if r < 0.5:
                    which = rng.choice([["L"], ["R"], ["L", "R"], ["R", "L"]])
                    ops.append({"op": "mortar", "via": rng.choice(["direct", "mdg"]),
                                "sides": {s: self._breaks(rng, rng.randint(1, 7)) for s in which}})
                elif r < 0.85:
                    ops.append({"op": "secondary", "t": self._breaks(rng, rng.randint(1, 7))})
                elif r < 0.93:
                    ops.append({"op": "mortar-same"})      # replace by identical copies
                else:
                    ops.append({"op": "primary", "n": [nx * rng.randint(1, 2), ny * rng.randint(1, 2)]})
            yield {"simplex": simplex, "n": [nx, ny], "frac": frac, "horizontal": horizontal,
                   "ops": ops}

    # ------------------------------------------------------------------ implementation
    def _build(self, case, n=None):
        n = n or case["n"]
        f = np.array(case["frac"], dtype=float)
        cap = []
        orig = mgm.MortarGrid._init_projections

        def wrapped(self_, ps, fdi=None):
            cap.append((self_, sps.csc_matrix(ps, copy=True), None if fdi is None else
                        [int(i) for i in np.atleast_1d(fdi)]))
            return orig(self_, ps, fdi)

        mgm.MortarGrid._init_projections = wrapped
        try:
            if case["simplex"]:
                from porepy.fracs.fracture_network_2d import FractureNetwork2d  # noqa: F401
                fr = [pp.LineFracture(f)]
                dom = pp.Domain({"xmin": 0, "xmax": 1, "ymin": 0, "ymax": 1})
                net = pp.create_fracture_network(fr, dom)
                mdg = pp.create_mdg("simplex", {"cell_size": 1.0 / max(n)}, net)
            else:
                mdg = meshing.cart_grid([f], n, physdims=[1, 1])
        finally:
            mgm.MortarGrid._init_projections = orig
        intf = mdg.interfaces(dim=1)[0]
        rec = [c for c in cap if c[0] is intf][0]
        return mdg, intf, rec

    def _line_grid(self, case, ts):
        f = np.array(case["frac"], dtype=float)
        start = np.array([f[0, 0], f[1, 0], 0.0])
        end = np.array([f[0, 1], f[1, 1], 0.0])
        ts = np.array(ts, dtype=float)
        nodes = start.reshape((3, 1)) + np.outer(end - start, ts)
        g = pp.TensorGrid(ts.copy())
        g.nodes = nodes
        g.compute_geometry()
        return g

    def _dump(self, intf, k):
        return {"mats": [_coords(getattr(intf, nm)()) for nm in NAMES],
                "side_sizes": [int(g.num_cells) for g in intf.side_grids.values()],
                "side_cells": [_grid_cells(g, k) for g in intf.side_grids.values()],
                "shape": [int(x) for x in intf.primary_to_mortar_int().shape]
                + [int(intf.secondary_to_mortar_int().shape[1])]}

    def run_impl(self, case):
        mdg, intf, rec = self._build(case)
        k = 0 if case["horizontal"] else 1
        _, ps, fdi = rec
        sec, prim, data = pp.matrix_operations.sparse_array_to_row_col_data(ps)
        sides = list(intf.side_grids.keys())
        out = {"ps": [[int(a), int(b), float(c)] for a, b, c in zip(sec, prim, data)],
               "ps_shape": [int(ps.shape[0]), int(ps.shape[1])], "fdi": fdi,
               "side_names": [s.name for s in sides], "k": k,
               "states": [self._dump(intf, k)], "ops_done": []}
        key = {"L": mgm.MortarSides.LEFT_SIDE, "R": mgm.MortarSides.RIGHT_SIDE}
        for o in case["ops"]:
            done = dict(o)
            try:
                if o["op"] == "mortar":
                    new = {key[s]: self._line_grid(case, t) for s, t in o["sides"].items()
                           if key[s] in intf.side_grids}
                    done["cells"] = {s: _grid_cells(self._line_grid(case, t), k)
                                     for s, t in o["sides"].items() if key[s] in intf.side_grids}
                    if o["via"] == "direct":
                        intf.update_mortar(new, 1e-4)
                    else:
                        mdg.replace_subdomains_and_interfaces(interface_map={intf: new})
                elif o["op"] == "mortar-same":
                    new = {s: g.copy() for s, g in intf.side_grids.items()}
                    done["cells"] = {("L" if s == mgm.MortarSides.LEFT_SIDE else "R"):
                                     _grid_cells(g, k) for s, g in new.items()}
                    intf.update_mortar(new, 1e-4)
                elif o["op"] == "secondary":
                    g_old = mdg.interface_to_subdomain_pair(intf)[1]
                    g_new = self._line_grid(case, o["t"])
                    done["cells"] = _grid_cells(g_new, k)
                    mdg.replace_subdomains_and_interfaces(sd_map={g_old: g_new})
                else:
                    g_old = mdg.interface_to_subdomain_pair(intf)[0]
                    mdg2, _, _ = self._build(dict(case, simplex=False), o["n"])
                    g_new = mdg2.subdomains(dim=2)[0]
                    mdg.replace_subdomains_and_interfaces(sd_map={g_old: g_new})
            except IndexError:
                out["ops_done"].append(done)
                out["states"].append({"err": "MIndexErr"})
                break
            except ValueError as e:
                if "Check not satisfied" not in str(e):
                    raise
                out["ops_done"].append(done)
                out["states"].append({"err": "MValueErr"})
                break
            out["ops_done"].append(done)
            out["states"].append(self._dump(intf, k))
        return out

    # ------------------------------------------------------------------ oracle
    @staticmethod
    def _close(a, b, tol=F(1, 10 ** 9)):
        return abs(F(a) - F(b)) <= tol * (1 + abs(F(b)))

    def _check_state(self, st, tag):
        if "err" in st:
            return f"{tag}: raised {st['err']}"
        mats = dict(zip(NAMES, st["mats"]))
        nm, npr, nsec = st["shape"]
        ranges, off = [], 0
        for sz in st["side_sizes"]:
            ranges.append(range(off, off + sz))
            off += sz
        if off != nm:
            return f"{tag}: side sizes {st['side_sizes']} do not add up to {nm} mortar cells"

        def rowsum(m, i, cols=None):
            return sum(F(v) for r, c, v in m if r == i and (cols is None or c in cols))

        def colsum(m, j, rows=None):
            return sum(F(v) for r, c, v in m if c == j and (rows is None or r in rows))

        # transposes
        for a, b in (("mortar_to_primary_int", "primary_to_mortar_avg"),
                     ("mortar_to_primary_avg", "primary_to_mortar_int"),
                     ("mortar_to_secondary_int", "secondary_to_mortar_avg"),
                     ("mortar_to_secondary_avg", "secondary_to_mortar_int")):
            ta = sorted((c, r, v) for r, c, v in mats[a])
            tb = sorted((r, c, v) for r, c, v in mats[b])
            if len(ta) != len(tb) or any(x[:2] != y[:2] or not self._close(x[2], y[2], F(1, 10 ** 12))
                                         for x, y in zip(ta, tb)):
                return f"{tag}: {a} is not the transpose of {b}"
        for v in (e[2] for m in st["mats"] for e in m):
            if v < 0:
                return f"{tag}: negative projection weight {v}"
        # averaged grid -> mortar: unit row sums on every mortar cell
        for name in ("primary_to_mortar_avg", "secondary_to_mortar_avg"):
            for m in range(nm):
                s = rowsum(mats[name], m)
                if not self._close(s, 1):
                    return f"{tag}: {name} row {m} sums to {float(s)}"
        # integrated mortar -> grid: unit column sums on every mortar cell
        for name in ("mortar_to_primary_int", "mortar_to_secondary_int"):
            for m in range(nm):
                s = colsum(mats[name], m)
                if not self._close(s, 1):
                    return f"{tag}: {name} column {m} sums to {float(s)}"
        for si, rg in enumerate(ranges):
            rows = set(rg)
            # integrated grid -> mortar, per side: unit column sums on covered entities
            m = mats["primary_to_mortar_int"]
            for f_ in sorted({c for r, c, v in m if r in rows}):
                s = colsum(m, f_, rows)
                if not self._close(s, 1):
                    return f"{tag}: primary_to_mortar_int side {si}: column of face {f_} sums to {float(s)}"
            m = mats["secondary_to_mortar_int"]
            for c_ in range(nsec):
                s = colsum(m, c_, rows)
                if not self._close(s, 1):
                    return f"{tag}: secondary_to_mortar_int side {si}: column of cell {c_} sums to {float(s)}"
            # averaged mortar -> grid, per side: unit row sums on covered entities
            m = mats["mortar_to_primary_avg"]
            for f_ in sorted({r for r, c, v in m if c in rows}):
                s = rowsum(m, f_, rows)
                if not self._close(s, 1):
                    return f"{tag}: mortar_to_primary_avg side {si}: row of face {f_} sums to {float(s)}"
            m = mats["mortar_to_secondary_avg"]
            for c_ in range(nsec):
                s = rowsum(m, c_, rows)
                if not self._close(s, 1):
                    return f"{tag}: mortar_to_secondary_avg side {si}: row of cell {c_} sums to {float(s)}"
        return None

    def oracle(self, case, res):
        # the number of covered primary faces per side must not change by mortar/secondary updates
        for i, st in enumerate(res["states"]):
            tag = "after construction" if i == 0 else f"after operation {i} ({res['ops_done'][i - 1]['op']})"
            why = self._check_state(st, tag)
            if why:
                return why
        return None

    # ------------------------------------------------------------------ tie
    def _prefix(self, res):
        """operations before the first update_primary (which is not modelled)"""
        n = 0
        for o in res["ops_done"]:
            if o["op"] == "primary":
                break
            n += 1
        return n

    def _op(self, res, o):
        if o["op"] in ("mortar", "mortar-same"):
            per = []
            for nm in res["side_names"]:
                s = "L" if nm == "LEFT_SIDE" else "R"
                per.append(coption(o["cells"].get(s), _cells))
            return f"(UpdMortar {clist(per)})"
        return f"(UpdSecondary {_cells(o['cells'])})"

    def _state(self, st):
        if "err" in st:
            return f"(inl {st['err']})"
        return f"(inr {clist(st['mats'], _mat)})"

    def coq_case(self, case, res):
        n = self._prefix(res)
        st0 = res["states"][0]
        sides = clist(st0["side_cells"], _cells)
        ps = clist(res["ps"], lambda t: f"({cnat(t[0])}, {cnat(t[1])}, {cq(t[2])})")
        fdi = coption(res["fdi"], lambda l: clist(l, cnat))
        ops = clist([self._op(res, o) for o in res["ops_done"][:n]])
        impl = clist([self._state(s) for s in res["states"][:n + 1]])
        # tolerances of the calls: update_mortar(…, 1e-4) directly, 1e-6 through the md-grid;
        # the 'averaged'/'integrated' scalings do not use it
        return (f"agree_hist 1 {cq(1e-4)} {sides} {cnat(res['ps_shape'][1])} "
                f"{cnat(res['ps_shape'][0])} {ps} {fdi} {ops} {impl}")

    def nontrivial(self, case, res):
        return any(o["op"] in ("mortar", "secondary") for o in res["ops_done"]) and \
            all("err" not in s for s in res["states"])

    def finding_key(self, case, res, why):
        return why.split(":")[1].strip()[:60] if ":" in why else why[:60]

    def shrink(self, case, still_fails):
        ops = list(case["ops"])
        changed = True
        while changed and ops:
            changed = False
            for i in range(len(ops)):
                c = dict(case, ops=ops[:i] + ops[i + 1:])
                if still_fails(c):
                    ops = c["ops"]
                    changed = True
                    break
        return dict(case, ops=ops)


PROP = C26()
