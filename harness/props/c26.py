"""C26 — mortar projections conserve extensive and preserve intensive quantities
(pp.MortarGrid: _init_projections/_set_projections/update_mortar/update_secondary/update_primary,
pp.MixedDimensionalGrid.replace_subdomains_and_interfaces)."""
from fractions import Fraction as F

import numpy as np
import scipy.sparse as sps

from harness.core import Prop, cq, clist, cnat, coption

import porepy as pp
from porepy.fracs import meshing
from porepy.grids import mortar_grid as mgm

NAMES = ["primary_to_mortar_int", "primary_to_mortar_avg", "secondary_to_mortar_int",
         "secondary_to_mortar_avg", "mortar_to_primary_int", "mortar_to_primary_avg",
         "mortar_to_secondary_int", "mortar_to_secondary_avg"]
STEP = 64


def _coords(m):
    m = sps.coo_matrix(m)
    m.sum_duplicates()
    out = sorted((int(r), int(c), float(v)) for r, c, v in zip(m.row, m.col, m.data))
    return [[r, c, v] for r, c, v in out if v != 0.0]


def _entry(e):
    return f"({cnat(e[0])}, {cnat(e[1])}, {cq(e[2])})"


def _mat(l):
    return clist(l, _entry)


def _cells(cs):
    return clist(cs, lambda c: f"({cq(c[0])}, {cq(c[1])})")


# isometries of the plane into 3-D with rational entries (images of e_x, e_y, common divisor)
PLANES = [
    ((0, 1, 0), (0, 0, 1), 1),      # x = const
    ((1, 0, 0), (0, 0, 1), 1),      # y = const
    ((0, 0, 1), (0, 1, 0), 1),      # x = const, other orientation
    ((1, 2, 2), (2, 1, -2), 3),
    ((2, 3, 6), (3, -6, 2), 7),
    ((3, 4, 0), (0, 0, 5), 5),
    ((1, 0, 0), (0, 1, 0), 1),      # the xy-plane
]


def _tri_grid(spec, plane, org):
    """triangle grid of the unit square (structured or Delaunay) embedded in a plane"""
    if "structured" in spec:
        g = pp.StructuredTriangleGrid(np.array(spec["structured"]), np.array([1.0, 1.0]))
    else:
        g = pp.TriangleGrid(np.array(spec["points"], dtype=float))
    ex, ey, nr = PLANES[plane]
    p2 = g.nodes[:2].copy()
    ex, ey = np.array(ex, dtype=float) / nr, np.array(ey, dtype=float) / nr
    g.nodes = (np.array(org, dtype=float).reshape((3, 1))
               + np.outer(ex, p2[0]) + np.outer(ey, p2[1]))
    g.compute_geometry()
    return g


def _kblock(rec):
    return ("{| kb_vnew := " + clist(rec["v_new"], cq) + "; kb_vold := " + clist(rec["v_old"], cq)
            + "; kb_isect := " + _mat(rec["isect"]) + " |}")


class _Capture2d:
    """records, for every match_2d call, the overlap list of triangulations and the volumes"""

    def __enter__(self):
        self.calls = []
        self._m2 = pp.match_grids.match_2d
        self._tr = pp.intersections.triangulations
        outer = self

        def tri(*a):
            r = outer._tr(*a)
            outer._last = [[int(i), int(j), float(w)] for i, j, w in r]
            return r

        def m2(new_g, old_g, tol, scaling=None):
            r = outer._m2(new_g, old_g, tol, scaling)
            outer.calls.append({"scaling": scaling, "isect": outer._last,
                                "v_new": [float(v) for v in new_g.cell_volumes],
                                "v_old": [float(v) for v in old_g.cell_volumes]})
            return r

        pp.intersections.triangulations = tri
        pp.match_grids.match_2d = m2
        return self

    def __exit__(self, *a):
        pp.intersections.triangulations = self._tr
        pp.match_grids.match_2d = self._m2

    def pairs(self):
        """the calls come in (averaged, integrated) pairs with the same overlaps"""
        out = []
        assert len(self.calls) % 2 == 0
        for a, b in zip(self.calls[0::2], self.calls[1::2]):
            assert a["scaling"] == "averaged" and b["scaling"] == "integrated"
            assert a["isect"] == b["isect"]
            out.append(a)
        return out


def _grid_cells(g, k):
    """cells of a 1-D grid as pairs of the coordinate k of their two nodes (the model's input)"""
    cn = g.cell_nodes().tocsc()
    idx = cn.indices.reshape((2, g.num_cells), order="F")
    return [[float(g.nodes[k, idx[0, c]]), float(g.nodes[k, idx[1, c]])]
            for c in range(g.num_cells)]


class C26(Prop):
    id = "C26"
    props_file = "Props/C26.v"
    preamble = ("From Coq Require Import List QArith.\nImport ListNotations.\n"
                "From PP Require Import Model.C33 Model.C26.\nOpen Scope Q_scope.\n")
    n_cases = (60, 160)
    design_ref = "DESIGN.md §5 C26"
    level_text = (
        "P-core.  Coq theorems over an exact-rational transcription of MortarGrid._init_projections, "
        "_set_projections, update_mortar, update_secondary and _check_mappings (1-D mortar grids, "
        "match_1d weights from the C33 model): after construction and after EVERY history of mortar / "
        "secondary replacements the mortar-to-grid integrated maps are the transposes of the "
        "grid-to-mortar averaged maps and vice versa (C26_transposes, C26_transpose_sums); every block "
        "the updates build has unit row sums ('averaged') / unit column sums ('integrated') for grids "
        "tessellating the same segment (C26_block_weights, by C33's overlap theorem); the matrix "
        "product the updates perform preserves unit row sums and per-side column sums "
        "(C26_avg_rows_preserved_partial, C26_int_side_cols_preserved_partial); the updates raise "
        "IndexError only for zero-length cells (C26_update_error).  The model is tied to the code on "
        "every run: real MortarGrids of small 2-D md-grids with one fracture, all eight projection "
        "matrices compared (1e-9) after construction and after each replacement; the property "
        "itself (per-side row/column sums, transposes) is evaluated exactly on the real matrices, "
        "also after update_primary.  2-D mortar grids (fracture planes in 3-D, tilted/rotated planes, "
        "one real gmsh 3-D md-grid per run): same bookkeeping model with the shapely overlap areas as "
        "data of each operation (C26_block_weights_2d gives unit sums from C33's area contract, which "
        "Coq checks on the captured data); histories of mortar/secondary replacements by "
        "non-matching triangle grids are compared matrix by matrix and evaluated by the oracle.")
    level_note = (
        "NOT proved in Coq (covered only by the execution correspondence and the oracle on the "
        "generated histories): that the block-diagonal / stacked arrangement (sps.bmat) of the proved "
        "blocks satisfies the hypotheses of the two _partial preservation theorems (index "
        "bookkeeping), the sums right after _init_projections (stable sort and even/odd split of the "
        "face-cell pairs), update_primary / match_grids_along_1d_mortar, the geometric part of match_2d "
        "(projection to the plane, shapely: its overlap areas are inputs of the model, validated "
        "against the area contract), sign_of_mortar_sides.  Trusted: Coq kernel + vm_compute, the harness, the inputs "
        "read off the real objects (captured primary_secondary matrix, node coordinates).  Theorems "
        "are over Q; floating-point rounding is not covered.  Defect found and repaired (fix commit "
        "32834ce81): update_primary after a non-matching update_mortar counted interface faces "
        "repeatedly.  The 2-D mortar cases also exposed a regression of the C33 repair of "
        "triangulations (GeometryCollection results dropped), repaired in 87f7f5389.")
    technique = ("Coq proof (invariant of the projection bookkeeping preserved by every update, using "
                 "C33's overlap theorem) + vm_compute execution correspondence on real MortarGrids")
    rule = ("2-D Cartesian md-grids (nx,ny in 2..5, occasionally simplex from pp.mdg_library) with one "
            "axis-aligned fracture; histories of 0..4 operations: replace one or both mortar side grids "
            "(update_mortar, directly or via replace_subdomains_and_interfaces) and replace the "
            "fracture grid (update_secondary) by random non-matching 1-D grids with nodes in Z/64 of "
            "the fracture length (also reversed node order, identical grids), replace the 2-D grid "
            "(update_primary; oracle only); all eight projection matrices dumped after construction "
            "and after every operation.  2-D mortar grids: two-sided MortarGrids over triangle grids "
            "of the unit square embedded in x=const / y=const / rationally rotated planes (3 per quick "
            "run) and one real simplex 3-D md-grid with a fracture plane (gmsh), mortar sides and "
            "secondary replaced by non-matching triangle grids (uniform structured, graded tensor "
            "lattices, random Delaunay); the overlap areas of every match_2d call are captured and "
            "handed to the model as data together with a Coq check of the C33 area contract.  In every "
            "dumped state also project_to_side_grids, sign_of_mortar_sides and cell_volumes are "
            "compared with the model and the per-side statements are evaluated on the cells that "
            "project_to_side_grids selects; most histories give the two sides different cell counts.  Non-trivial = at least one replacement by a non-matching grid.")
    trusted = ["the harness reads the inputs of the modelled functions off the real objects "
               "(primary_secondary matrix and face_duplicate_ind captured at MortarGrid construction, "
               "node coordinates of the side grids)",
               "update_primary / match_grids_along_1d_mortar is not modelled (oracle on the real "
               "matrices only)",
               "2-D mortar grids: the overlap areas of every match_2d call (shapely, via "
               "intersections.triangulations) are captured and handed to the model as data; Coq checks "
               "the C33 area contract on them (sums = cell volumes to 1e-9) and recomputes weights, "
               "block arrangement and products"]
    assumptions = ["1-D mortar grids on an axis-aligned line; every new grid tessellates the same "
                   "segment as the grid it replaces and has no zero-length cell"]

    # ------------------------------------------------------------------ generation
    def _breaks(self, rng, n):
        n = max(1, min(n, STEP - 1))
        inner = sorted(rng.sample(range(1, STEP), n - 1)) if n > 1 else []
        b = [0.0] + [k / STEP for k in inner] + [1.0]
        if rng.random() < 0.4:
            b.reverse()
        return b

    # -- 2-D mortar grids (fracture planes in 3-D) ---------------------------------------
    def _spec2d(self, rng, tier):
        r = rng.random()
        if r < 0.35:
            n = rng.randint(1, 3 if tier == "quick" else 4)
            return {"structured": [n, rng.choice([n, n, rng.randint(1, 3)])]}
        if r < 0.75:
            # tensor lattice graded towards one side (Delaunay)
            def axis():
                k = rng.randint(2, 4)
                xs = [0.0] + [2.0 ** -e for e in range(k, -1, -1)]
                if rng.random() < 0.5:
                    xs = sorted(1.0 - x for x in xs)
                return xs
            xs = axis()
            ys = axis() if rng.random() < 0.4 else [0.0, rng.choice([0.25, 0.5, 0.75]), 1.0]
            if rng.random() < 0.5:
                xs, ys = ys, xs
            pts = [(x, y) for x in xs for y in ys]
            rng.shuffle(pts)
            return {"points": [[x for x, _ in pts], [y for _, y in pts]]}
        pts = {(0, 0), (16, 0), (0, 16), (16, 16)}
        for _ in range(rng.randint(0, 4)):
            pts.add((rng.randint(1, 15), rng.randint(1, 15)))
        for _ in range(rng.randint(0, 3)):
            t = rng.randint(1, 15)
            pts.add(rng.choice([(t, 0), (t, 16), (0, t), (16, t)]))
        pts = sorted(pts)
        rng.shuffle(pts)
        return {"points": [[x / 16 for x, _ in pts], [y / 16 for _, y in pts]]}

    def _gen2d(self, rng, tier, real3d):
        ops = []
        for _ in range(rng.randint(1, 3 if tier == "quick" else 4)):
            r = rng.random()
            if r < 0.5:
                which = rng.choice([["L"], ["R"], ["L", "R"], ["R", "L"]])
                ops.append({"op": "mortar", "sides": {s_: self._spec2d(rng, tier) for s_ in which}})
            elif r < 0.9:
                ops.append({"op": "secondary", "spec": self._spec2d(rng, tier)})
            else:
                ops.append({"op": "mortar-same"})
        case = {"kind": "m2d", "real3d": real3d, "ops": ops}
        if real3d:
            case["frac"] = rng.randrange(3)
        else:
            case.update({"plane": rng.randrange(len(PLANES)), "base": self._spec2d(rng, tier),
                         "org": [rng.randint(-4, 4) / 2 for _ in range(3)],
                         "fdi": rng.random() < 0.5})
        return case

    def generate(self, rng, n, tier):
        n2 = 3 if tier == "quick" else max(n // 10, 8)
        n3 = 1 if tier == "quick" else 3
        for case in self._gen1d(rng, n - n2 - n3, tier):
            yield case
        for _ in range(n2):
            yield self._gen2d(rng, tier, False)
        for _ in range(n3):
            yield self._gen2d(rng, tier, True)

    def _gen1d(self, rng, n, tier):
        for _ in range(n):
            simplex = rng.random() < 0.1
            nx, ny = rng.randint(2, 5), rng.randint(2, 5)
            horizontal = rng.random() < 0.5
            # fracture along a grid line, between grid nodes (immersed, touching or crossing)
            if horizontal:
                j = rng.randint(1, ny - 1)
                a = rng.randint(0, nx - 1)
                b = rng.randint(a + 1, nx)
                frac = [[a / nx, b / nx], [j / ny, j / ny]]
            else:
                j = rng.randint(1, nx - 1)
                a = rng.randint(0, ny - 1)
                b = rng.randint(a + 1, ny)
                frac = [[j / nx, j / nx], [a / ny, b / ny]]
            ops = []
            for _ in range(rng.randint(0, 4 if tier == "quick" else 5)):
                r = rng.random()
                if r < 0.5:
                    which = rng.choice([["L"], ["R"], ["L", "R"], ["R", "L"]])
                    ops.append({"op": "mortar", "via": rng.choice(["direct", "mdg"]),
                                "sides": {s: self._breaks(rng, rng.randint(1, 7)) for s in which}})
                elif r < 0.85:
                    ops.append({"op": "secondary", "t": self._breaks(rng, rng.randint(1, 7))})
                elif r < 0.93:
                    ops.append({"op": "mortar-same"})      # replace by identical copies
                else:
                    ops.append({"op": "primary", "n": [nx * rng.randint(1, 2), ny * rng.randint(1, 2)]})
            yield {"simplex": simplex, "n": [nx, ny], "frac": frac, "horizontal": horizontal,
                   "ops": ops}

    # ------------------------------------------------------------------ implementation
    def _build(self, case, n=None):
        n = n or case["n"]
        f = np.array(case["frac"], dtype=float)
        cap = []
        orig = mgm.MortarGrid._init_projections

        def wrapped(self_, ps, fdi=None):
            cap.append((self_, sps.csc_matrix(ps, copy=True), None if fdi is None else
                        [int(i) for i in np.atleast_1d(fdi)]))
            return orig(self_, ps, fdi)

        mgm.MortarGrid._init_projections = wrapped
        try:
            if case["simplex"]:
                from porepy.fracs.fracture_network_2d import FractureNetwork2d  # noqa: F401
                fr = [pp.LineFracture(f)]
                dom = pp.Domain({"xmin": 0, "xmax": 1, "ymin": 0, "ymax": 1})
                net = pp.create_fracture_network(fr, dom)
                mdg = pp.create_mdg("simplex", {"cell_size": 1.0 / max(n)}, net)
            else:
                mdg = meshing.cart_grid([f], n, physdims=[1, 1])
        finally:
            mgm.MortarGrid._init_projections = orig
        intf = mdg.interfaces(dim=1)[0]
        rec = [c for c in cap if c[0] is intf][0]
        return mdg, intf, rec

    def _line_grid(self, case, ts):
        f = np.array(case["frac"], dtype=float)
        start = np.array([f[0, 0], f[1, 0], 0.0])
        end = np.array([f[0, 1], f[1, 1], 0.0])
        ts = np.array(ts, dtype=float)
        nodes = start.reshape((3, 1)) + np.outer(end - start, ts)
        g = pp.TensorGrid(ts.copy())
        g.nodes = nodes
        g.compute_geometry()
        return g

    def _dump(self, intf, k):
        projs, side_vols = [], []
        for proj, g in intf.project_to_side_grids():
            assert proj.shape[1] == intf.num_cells
            projs.append({"shape": [int(x) for x in proj.shape], "ents": _coords(proj)})
            side_vols.append([float(v) for v in g.cell_volumes])
        return {"projs": projs, "side_vols": side_vols,
                "sign": [float(v) for v in intf.sign_of_mortar_sides().diagonal()],
                "cell_volumes": [float(v) for v in intf.cell_volumes],
                "num_cells": int(intf.num_cells), "dim": int(intf.dim),
                "mats": [_coords(getattr(intf, nm)()) for nm in NAMES],
                "side_sizes": [int(g.num_cells) for g in intf.side_grids.values()],
                "side_cells": [_grid_cells(g, k) if g.dim == 1 else [[0.0, 0.0]] * g.num_cells
                               for g in intf.side_grids.values()],
                "shape": [int(x) for x in intf.primary_to_mortar_int().shape]
                + [int(intf.secondary_to_mortar_int().shape[1])]}

    def _run2d(self, case):
        key = {"L": mgm.MortarSides.LEFT_SIDE, "R": mgm.MortarSides.RIGHT_SIDE}
        grids_ok = []

        def chk(g):
            grids_ok.append(bool(g.cell_volumes.min() > 1e-9 and abs(g.cell_volumes.sum() - 1) < 1e-9))
            return g

        mdg = None
        if case["real3d"]:
            cap = []
            orig = mgm.MortarGrid._init_projections

            def wrapped(self_, ps, fdi=None):
                cap.append((self_, sps.csc_matrix(ps, copy=True), None if fdi is None else
                            [int(i) for i in np.atleast_1d(fdi)]))
                return orig(self_, ps, fdi)

            mgm.MortarGrid._init_projections = wrapped
            try:
                mdg, _ = pp.mdg_library.cube_with_orthogonal_fractures(
                    "simplex", {"cell_size": 0.5}, fracture_indices=[case["frac"]])
            finally:
                mgm.MortarGrid._init_projections = orig
            intf = mdg.interfaces(dim=2)[0]
            _, ps, fdi = [c for c in cap if c[0] is intf][0]
            plane = [0, 1, 6][case["frac"]]
            org = [0.0, 0.0, 0.0]
            org[case["frac"]] = 0.5
            chk(mdg.interface_to_subdomain_pair(intf)[1])
        else:
            plane, org = case["plane"], case["org"]
            g_sec = chk(_tri_grid(case["base"], plane, org))
            n = g_sec.num_cells
            cells = np.arange(n)
            if case["fdi"]:
                left, right = 2 * cells + 1, 2 * cells
                fdi = [int(i) for i in right]
            else:
                left, right = 2 + cells, 2 + n + cells
                fdi = None
            ps = sps.csc_matrix((np.ones(2 * n, dtype=bool),
                                 (np.r_[cells, cells], np.r_[left, right])), shape=(n, 2 * n + 3))
            intf = mgm.MortarGrid(2, {key["L"]: g_sec.copy(), key["R"]: g_sec.copy()}, ps,
                                  face_duplicate_ind=None if fdi is None else np.array(fdi))
        sec, prim, data = pp.matrix_operations.sparse_array_to_row_col_data(ps)
        out = {"ps": [[int(a), int(b), float(c)] for a, b, c in zip(sec, prim, data)],
               "ps_shape": [int(ps.shape[0]), int(ps.shape[1])], "fdi": fdi,
               "side_names": [s_.name for s_ in intf.side_grids.keys()], "k": 0,
               "states": [self._dump(intf, 0)], "ops_done": []}
        for o in case["ops"]:
            done = {"op": o["op"]}
            try:
                with _Capture2d() as cap2:
                    if o["op"] == "mortar":
                        new = {key[s_]: chk(_tri_grid(sp, plane, org)) for s_, sp in o["sides"].items()}
                        intf.update_mortar(new, 1e-6)
                        order = list(o["sides"].keys())
                    elif o["op"] == "mortar-same":
                        new = {s_: g.copy() for s_, g in intf.side_grids.items()}
                        intf.update_mortar(new, 1e-6)
                        order = ["L" if s_ == key["L"] else "R" for s_ in new]
                    else:
                        g_new = chk(_tri_grid(o["spec"], plane, org))
                        if mdg is not None:
                            g_old = mdg.interface_to_subdomain_pair(intf)[1]
                            mdg.replace_subdomains_and_interfaces(sd_map={g_old: g_new})
                        else:
                            intf.update_secondary(g_new, 1e-6)
                        done["nsec"] = int(g_new.num_cells)
                        order = None
                pairs = cap2.pairs()
                if order is None:
                    done["blocks"] = pairs
                else:
                    assert len(pairs) == len(order)
                    done["blocks"] = dict(zip(order, pairs))
            except ValueError as e:
                if "Check not satisfied" not in str(e):
                    raise
                out["ops_done"].append(done)
                out["states"].append({"err": "MValueErr"})
                break
            out["ops_done"].append(done)
            out["states"].append(self._dump(intf, 0))
        out["valid2d"] = all(grids_ok)
        return out

    def run_impl(self, case):
        if case.get("kind") == "m2d":
            return self._run2d(case)
        mdg, intf, rec = self._build(case)
        k = 0 if case["horizontal"] else 1
        _, ps, fdi = rec
        sec, prim, data = pp.matrix_operations.sparse_array_to_row_col_data(ps)
        sides = list(intf.side_grids.keys())
        out = {"ps": [[int(a), int(b), float(c)] for a, b, c in zip(sec, prim, data)],
               "ps_shape": [int(ps.shape[0]), int(ps.shape[1])], "fdi": fdi,
               "side_names": [s.name for s in sides], "k": k,
               "states": [self._dump(intf, k)], "ops_done": []}
        key = {"L": mgm.MortarSides.LEFT_SIDE, "R": mgm.MortarSides.RIGHT_SIDE}
        for o in case["ops"]:
            done = dict(o)
            try:
                if o["op"] == "mortar":
                    new = {key[s]: self._line_grid(case, t) for s, t in o["sides"].items()
                           if key[s] in intf.side_grids}
                    done["cells"] = {s: _grid_cells(self._line_grid(case, t), k)
                                     for s, t in o["sides"].items() if key[s] in intf.side_grids}
                    if o["via"] == "direct":
                        intf.update_mortar(new, 1e-4)
                    else:
                        mdg.replace_subdomains_and_interfaces(interface_map={intf: new})
                elif o["op"] == "mortar-same":
                    new = {s: g.copy() for s, g in intf.side_grids.items()}
                    done["cells"] = {("L" if s == mgm.MortarSides.LEFT_SIDE else "R"):
                                     _grid_cells(g, k) for s, g in new.items()}
                    intf.update_mortar(new, 1e-4)
                elif o["op"] == "secondary":
                    g_old = mdg.interface_to_subdomain_pair(intf)[1]
                    g_new = self._line_grid(case, o["t"])
                    done["cells"] = _grid_cells(g_new, k)
                    mdg.replace_subdomains_and_interfaces(sd_map={g_old: g_new})
                else:
                    g_old = mdg.interface_to_subdomain_pair(intf)[0]
                    mdg2, _, _ = self._build(dict(case, simplex=False), o["n"])
                    g_new = mdg2.subdomains(dim=2)[0]
                    mdg.replace_subdomains_and_interfaces(sd_map={g_old: g_new})
            except IndexError:
                out["ops_done"].append(done)
                out["states"].append({"err": "MIndexErr"})
                break
            except ValueError as e:
                if "Check not satisfied" not in str(e):
                    raise
                out["ops_done"].append(done)
                out["states"].append({"err": "MValueErr"})
                break
            out["ops_done"].append(done)
            out["states"].append(self._dump(intf, k))
        return out

    # ------------------------------------------------------------------ oracle
    @staticmethod
    def _close(a, b, tol=F(1, 10 ** 9)):
        return abs(F(a) - F(b)) <= tol * (1 + abs(F(b)))

    def _check_state(self, st, tag):
        if "err" in st:
            return f"{tag}: raised {st['err']}"
        mats = dict(zip(NAMES, st["mats"]))
        nm, npr, nsec = st["shape"]
        ranges, off = [], 0
        for sz in st["side_sizes"]:
            ranges.append(range(off, off + sz))
            off += sz
        if off != nm or st["num_cells"] != nm:
            return f"{tag}: side sizes {st['side_sizes']} do not add up to {nm} mortar cells"
        # project_to_side_grids: one restriction per side, each picks the cells of that side
        # (every mortar cell exactly once, side after side); per-side statements below are
        # evaluated on the cells these operators select
        if len(st["projs"]) != len(ranges):
            return f"{tag}: project_to_side_grids yields {len(st['projs'])} operators for {len(ranges)} sides"
        seen, op_rows = [], []
        for si, (pj, rg) in enumerate(zip(st["projs"], ranges)):
            if pj["shape"] != [len(rg), nm]:
                return f"{tag}: project_to_side_grids side {si} has shape {pj['shape']}"
            if [e[0] for e in pj["ents"]] != list(range(len(rg))) or any(e[2] != 1.0 for e in pj["ents"]):
                return f"{tag}: project_to_side_grids side {si} is not a selection of one mortar cell per side cell"
            cols = [e[1] for e in pj["ents"]]
            seen += cols
            op_rows.append(set(cols))
            # restriction of the mortar cell volumes = cell volumes of the side grid
            vol = [st["cell_volumes"][c] if c < len(st["cell_volumes"]) else None for c in cols]
            if len(st["cell_volumes"]) != nm or any(
                    v is None or not self._close(v, w, F(1, 10 ** 12)) for v, w in zip(vol, st["side_vols"][si])):
                return f"{tag}: project_to_side_grids side {si} does not map cell_volumes to the side grid's cell volumes"
        if seen != list(range(nm)):
            return (f"{tag}: project_to_side_grids does not pick every mortar cell exactly once, "
                    f"side after side (picked {seen})")
        # sign_of_mortar_sides: -1 on the first (LEFT) side, +1 on the second
        sg = st["sign"]
        exp = [1.0] * nm if len(ranges) == 1 else [-1.0] * len(ranges[0]) + [1.0] * len(ranges[1])
        if sg != exp:
            return f"{tag}: sign_of_mortar_sides diagonal {sg} differs from {exp}"
        ranges = op_rows

        def rowsum(m, i, cols=None):
            return sum(F(v) for r, c, v in m if r == i and (cols is None or c in cols))

        def colsum(m, j, rows=None):
            return sum(F(v) for r, c, v in m if c == j and (rows is None or r in rows))

        # transposes
        for a, b in (("mortar_to_primary_int", "primary_to_mortar_avg"),
                     ("mortar_to_primary_avg", "primary_to_mortar_int"),
                     ("mortar_to_secondary_int", "secondary_to_mortar_avg"),
                     ("mortar_to_secondary_avg", "secondary_to_mortar_int")):
            ta = sorted((c, r, v) for r, c, v in mats[a])
            tb = sorted((r, c, v) for r, c, v in mats[b])
            if len(ta) != len(tb) or any(x[:2] != y[:2] or not self._close(x[2], y[2], F(1, 10 ** 12))
                                         for x, y in zip(ta, tb)):
                return f"{tag}: {a} is not the transpose of {b}"
        for v in (e[2] for m in st["mats"] for e in m):
            if v < 0:
                return f"{tag}: negative projection weight {v}"
        # averaged grid -> mortar: unit row sums on every mortar cell
        for name in ("primary_to_mortar_avg", "secondary_to_mortar_avg"):
            for m in range(nm):
                s = rowsum(mats[name], m)
                if not self._close(s, 1):
                    return f"{tag}: {name} row {m} sums to {float(s)}"
        # integrated mortar -> grid: unit column sums on every mortar cell
        for name in ("mortar_to_primary_int", "mortar_to_secondary_int"):
            for m in range(nm):
                s = colsum(mats[name], m)
                if not self._close(s, 1):
                    return f"{tag}: {name} column {m} sums to {float(s)}"
        for si, rg in enumerate(ranges):
            rows = set(rg)   # the mortar cells selected by project_to_side_grids for this side
            # integrated grid -> mortar, per side: unit column sums on covered entities
            m = mats["primary_to_mortar_int"]
            for f_ in sorted({c for r, c, v in m if r in rows}):
                s = colsum(m, f_, rows)
                if not self._close(s, 1):
                    return f"{tag}: primary_to_mortar_int side {si}: column of face {f_} sums to {float(s)}"
            m = mats["secondary_to_mortar_int"]
            for c_ in range(nsec):
                s = colsum(m, c_, rows)
                if not self._close(s, 1):
                    return f"{tag}: secondary_to_mortar_int side {si}: column of cell {c_} sums to {float(s)}"
            # averaged mortar -> grid, per side: unit row sums on covered entities
            m = mats["mortar_to_primary_avg"]
            for f_ in sorted({r for r, c, v in m if c in rows}):
                s = rowsum(m, f_, rows)
                if not self._close(s, 1):
                    return f"{tag}: mortar_to_primary_avg side {si}: row of face {f_} sums to {float(s)}"
            m = mats["mortar_to_secondary_avg"]
            for c_ in range(nsec):
                s = rowsum(m, c_, rows)
                if not self._close(s, 1):
                    return f"{tag}: mortar_to_secondary_avg side {si}: row of cell {c_} sums to {float(s)}"
        return None

    def oracle(self, case, res):
        if res.get("valid2d") is False:
            return None   # a generated 2-D grid is not a tessellation of the fracture polygon
        # the number of covered primary faces per side must not change by mortar/secondary updates
        for i, st in enumerate(res["states"]):
            tag = "after construction" if i == 0 else f"after operation {i} ({res['ops_done'][i - 1]['op']})"
            why = self._check_state(st, tag)
            if why:
                return why
        return None

    # ------------------------------------------------------------------ tie
    def _prefix(self, res):
        """operations before the first update_primary (which is not modelled)"""
        n = 0
        for o in res["ops_done"]:
            if o["op"] == "primary":
                break
            n += 1
        return n

    def _op(self, res, o):
        if "blocks" in o:
            if o["op"] == "secondary":
                return f"(UpdSecondaryK {clist(o['blocks'], _kblock)} {cnat(o['nsec'])})"
            per = []
            for nm in res["side_names"]:
                s = "L" if nm == "LEFT_SIDE" else "R"
                per.append(coption(o["blocks"].get(s), _kblock))
            return f"(UpdMortarK {clist(per)})"
        if o["op"] in ("mortar", "mortar-same"):
            per = []
            for nm in res["side_names"]:
                s = "L" if nm == "LEFT_SIDE" else "R"
                per.append(coption(o["cells"].get(s), _cells))
            return f"(UpdMortar {clist(per)})"
        return f"(UpdSecondary {_cells(o['cells'])})"

    def _state(self, st):
        if "err" in st:
            return f"(inl {st['err']})"
        projs = clist([p["ents"] for p in st["projs"]], _mat)
        vols = coption(st["cell_volumes"] if st["dim"] == 1 else None, lambda l: clist(l, cq))
        return (f"(inr ({clist(st['mats'], _mat)}, {projs}, {clist(st['sign'], cq)}, {vols}))")

    def coq_case(self, case, res):
        n = self._prefix(res)
        st0 = res["states"][0]
        sides = clist(st0["side_cells"], _cells)
        ps = clist(res["ps"], lambda t: f"({cnat(t[0])}, {cnat(t[1])}, {cq(t[2])})")
        fdi = coption(res["fdi"], lambda l: clist(l, cnat))
        ops = clist([self._op(res, o) for o in res["ops_done"][:n]])
        impl = clist([self._state(s) for s in res["states"][:n + 1]])
        # tolerances of the calls: update_mortar(…, 1e-4) directly, 1e-6 through the md-grid;
        # the 'averaged'/'integrated' scalings do not use it
        return (f"agree_hist 1 {cq(1e-4)} {sides} {cnat(res['ps_shape'][1])} "
                f"{cnat(res['ps_shape'][0])} {ps} {fdi} {ops} {impl}")

    def nontrivial(self, case, res):
        return any(o["op"] in ("mortar", "secondary") for o in res["ops_done"]) and \
            all("err" not in s for s in res["states"])

    def finding_key(self, case, res, why):
        return why.split(":")[1].strip()[:60] if ":" in why else why[:60]

    def shrink(self, case, still_fails):
        ops = list(case["ops"])
        changed = True
        while changed and ops:
            changed = False
            for i in range(len(ops)):
                c = dict(case, ops=ops[:i] + ops[i + 1:])
                if still_fails(c):
                    ops = c["ops"]
                    changed = True
                    break
        return dict(case, ops=ops)


PROP = C26()
