"""C44 — geometric clipping keeps exactly the parts inside the domain
(constrain_geometry.lines_by_polygon, polygons_by_polyhedron)."""
import math
from fractions import Fraction as F

import numpy as np

from harness.core import Prop, clist, cbool

import porepy as pp
from porepy.geometry import constrain_geometry

EPS = F(1, 10 ** 9)
CONTACT_KEY = "polygons_by_polyhedron: exact contact with a non-box polyhedron"

W_POLY = [[0, 0], [10, 0], [10, 5], [8, 5], [8, 1], [6, 1], [5, 3], [4, 1], [2, 1], [2, 5], [0, 5]]
L_POLY = [[0, 0], [4, 0], [4, 4], [2, 4], [2, 2], [0, 2]]
U_POLY = [[0, 0], [6, 0], [6, 5], [4, 5], [4, 2], [2, 2], [2, 5], [0, 5]]
# directions sorted by angle (star-shaped polygons around the origin)
DIRS = [(1, 0), (2, 1), (1, 1), (1, 2), (0, 1), (-1, 2), (-1, 1), (-2, 1), (-1, 0), (-2, -1),
        (-1, -1), (-1, -2), (0, -1), (1, -2), (1, -1), (2, -1)]


def cross(ax, ay, bx, by):
    return ax * by - ay * bx


def convex_hull(points):
    pts = sorted(set(map(tuple, points)))
    if len(pts) < 3:
        return pts

    def half(ps):
        h = []
        for p in ps:
            while len(h) >= 2 and cross(h[-1][0] - h[-2][0], h[-1][1] - h[-2][1],
                                        p[0] - h[-2][0], p[1] - h[-2][1]) <= 0:
                h.pop()
            h.append(p)
        return h
    lo, up = half(pts), half(pts[::-1])
    return lo[:-1] + up[:-1]


# ------------------------------------------------------------------------------------------
# exact reference: segment against polygon, in fractions
# ------------------------------------------------------------------------------------------
def on_segment(p, a, b):
    if cross(b[0] - a[0], b[1] - a[1], p[0] - a[0], p[1] - a[1]) != 0:
        return False
    return (min(a[0], b[0]) <= p[0] <= max(a[0], b[0])
            and min(a[1], b[1]) <= p[1] <= max(a[1], b[1]))


def classify(p, poly):
    """'bd' on the boundary, 'in' strictly inside, 'out' outside (exact)."""
    n = len(poly)
    for i in range(n):
        if on_segment(p, poly[i], poly[(i + 1) % n]):
            return "bd"
    inside = False
    for i in range(n):
        a, b = poly[i], poly[(i + 1) % n]
        if (a[1] > p[1]) != (b[1] > p[1]):
            x = a[0] + (p[1] - a[1]) * (b[0] - a[0]) / (b[1] - a[1])
            if p[0] < x:
                inside = not inside
    return "in" if inside else "out"


def elementary_intervals(p0, p1, poly):
    """Parameters where the segment meets the polygon's edges, and the class of every open
    interval between consecutive ones."""
    d = (p1[0] - p0[0], p1[1] - p0[1])
    dd = d[0] * d[0] + d[1] * d[1]
    ts = {F(0), F(1)}
    n = len(poly)
    for i in range(n):
        a, b = poly[i], poly[(i + 1) % n]
        e = (b[0] - a[0], b[1] - a[1])
        den = cross(d[0], d[1], e[0], e[1])
        w = (a[0] - p0[0], a[1] - p0[1])
        if den != 0:
            t = cross(w[0], w[1], e[0], e[1]) / den
            s = cross(w[0], w[1], d[0], d[1]) / den
            if 0 <= s <= 1 and 0 < t < 1:
                ts.add(t)
        elif cross(w[0], w[1], d[0], d[1]) == 0:
            for q in (a, b):
                t = ((q[0] - p0[0]) * d[0] + (q[1] - p0[1]) * d[1]) / dd
                if 0 < t < 1:
                    ts.add(t)
    ts = sorted(ts)
    out = []
    for ta, tb in zip(ts[:-1], ts[1:]):
        tm = (ta + tb) / 2
        m = (p0[0] + tm * d[0], p0[1] + tm * d[1])
        out.append((ta, tb, classify(m, poly)))
    return out


# ------------------------------------------------------------------------------------------
# exact reference: convex polygon against a box, in fractions
# ------------------------------------------------------------------------------------------
def clip_poly_halfspace(verts, axis, bound, keep_below):
    out = []
    n = len(verts)
    for i in range(n):
        a, b = verts[i], verts[(i + 1) % n]
        fa = (a[axis] - bound) if keep_below else (bound - a[axis])
        fb = (b[axis] - bound) if keep_below else (bound - b[axis])
        if fa <= 0:
            out.append(a)
        if (fa < 0 < fb) or (fb < 0 < fa):
            t = fa / (fa - fb)
            out.append(tuple(a[k] + t * (b[k] - a[k]) for k in range(3)))
    return out


def clip_poly_plane(verts, n, c):
    """Clip a convex polygon (3-D vertex list) by the half-space n.x <= c, exactly."""
    out = []
    m = len(verts)
    f = lambda p: sum(n[k] * p[k] for k in range(3)) - c
    for i in range(m):
        a, b = verts[i], verts[(i + 1) % m]
        fa, fb = f(a), f(b)
        if fa <= 0:
            out.append(a)
        if (fa < 0 < fb) or (fb < 0 < fa):
            t = fa / (fa - fb)
            out.append(tuple(a[k] + t * (b[k] - a[k]) for k in range(3)))
    return out


def corner_polyhedron(shape, A, B, C, mirror=0):
    """Convex polyhedra all of whose vertices are corners of the box [0,A]x[0,B]x[0,C] but
    which are not the box: sides (vertex lists) and the half-spaces n.x <= c describing them.
    mirror: bit k reflects coordinate k in the box."""
    O, X, Y, Z = (0, 0, 0), (A, 0, 0), (0, B, 0), (0, 0, C)
    XY, YZ = (A, B, 0), (0, B, C)
    if shape == "tet":
        sides = [[O, X, Y], [O, X, Z], [O, Y, Z], [X, Y, Z]]
        hs = [((-1, 0, 0), 0), ((0, -1, 0), 0), ((0, 0, -1), 0), ((B * C, A * C, A * B), A * B * C)]
    elif shape == "wedge":
        sides = [[O, X, Z], [Y, XY, YZ], [O, Y, YZ, Z], [O, X, XY, Y], [X, XY, YZ, Z]]
        hs = [((-1, 0, 0), 0), ((0, -1, 0), 0), ((0, 0, -1), 0), ((0, 1, 0), B),
              ((C, 0, A), A * C)]
    elif shape == "pyramid":
        sides = [[O, X, XY, Y], [O, Y, Z], [O, X, Z], [X, XY, Z], [XY, Y, Z]]
        hs = [((-1, 0, 0), 0), ((0, -1, 0), 0), ((0, 0, -1), 0), ((C, 0, A), A * C),
              ((0, C, B), B * C)]
    else:
        raise ValueError(shape)
    dims = (A, B, C)
    for k in range(3):
        if (mirror >> k) & 1:
            sides = [[tuple(dims[j] - p[j] if j == k else p[j] for j in range(3)) for p in sd]
                     for sd in sides]
            hs = [(tuple(-n[j] if j == k else n[j] for j in range(3)), c - n[k] * dims[k])
                  for n, c in hs]
    return sides, hs


def polyhedron_of(case):
    """(sides as 3 x n float arrays, half-spaces) of the clipping polyhedron of a case."""
    A, B, C = case["box"]
    shape = case.get("shape", "box")
    if shape == "box":
        faces = box_faces(A, B, C, triangulated=case.get("tri_box", False),
                          diag=case.get("diag", 0), perm=case.get("perm"),
                          roll=case.get("roll", 0))
        hs = [((1, 0, 0), A), ((-1, 0, 0), 0), ((0, 1, 0), B), ((0, -1, 0), 0),
              ((0, 0, 1), C), ((0, 0, -1), 0)]
        return faces, hs
    sides, hs = corner_polyhedron(shape, A, B, C, case.get("mirror", 0))
    faces = [np.array(sd, dtype=float).T for sd in sides]
    roll = case.get("roll", 0)
    faces = [np.roll(f, roll % f.shape[1], axis=1).copy() for f in faces]
    if case.get("perm") is not None:
        faces = [faces[i] for i in case["perm"]]
    return faces, hs


def area2d(pts):
    return abs(sum(cross(pts[i][0], pts[i][1], pts[(i + 1) % len(pts)][0], pts[(i + 1) % len(pts)][1])
                   for i in range(len(pts)))) / 2 if len(pts) >= 3 else F(0)


def box_faces(A, B, C, triangulated=False, diag=0, perm=None, roll=0):
    """The six sides of the box [0,A]x[0,B]x[0,C]; optionally every side split into two
    triangles (coplanar neighbouring sides; diag: bit k chooses the diagonal of side k), the
    sides listed in the order perm, vertex lists rolled by roll."""
    quads = _box_quads(A, B, C)
    sides = []
    for k, q in enumerate(quads):
        if triangulated:
            i = [0, 1, 2, 3] if not (diag >> k) & 1 else [1, 2, 3, 0]
            sides.append(q[:, [i[0], i[1], i[2]]])
            sides.append(q[:, [i[0], i[2], i[3]]])
        else:
            sides.append(q)
    sides = [np.roll(sd, roll % sd.shape[1], axis=1).copy() for sd in sides]
    if perm is not None:
        sides = [sides[i] for i in perm]
    return sides


def _box_quads(A, B, C):
    a, b, c = float(A), float(B), float(C)
    west = np.array([[0, 0, 0, 0], [0, b, b, 0], [0, 0, c, c]], dtype=float)
    east = np.array([[a, a, a, a], [0, b, b, 0], [0, 0, c, c]], dtype=float)
    south = np.array([[0, a, a, 0], [0, 0, 0, 0], [0, 0, c, c]], dtype=float)
    north = np.array([[0, a, a, 0], [b, b, b, b], [0, 0, c, c]], dtype=float)
    bottom = np.array([[0, a, a, 0], [0, 0, b, b], [0, 0, 0, 0]], dtype=float)
    top = np.array([[0, a, a, 0], [0, 0, b, b], [c, c, c, c]], dtype=float)
    return [west, east, south, north, bottom, top]


# ------------------------------------------------------------------------------------------
# Coq literals
# ------------------------------------------------------------------------------------------
def qz(x):
    fr = F(x)
    n, d = fr.numerator, fr.denominator
    return f"{n}" if (d == 1 and n >= 0) else (f"({n})" if d == 1 else f"({n}#{d})")


def qp(p):
    return f"({qz(p[0])},{qz(p[1])})"


def qpiece(c):
    return f"({qp(c[0:2])},{qp(c[2:4])})"


def cpiece(p):
    return (f"{{| c_a := {qp(p['a'])}; c_b := {qp(p['b'])}; c_nonempty := {cbool(p['nonempty'])}; "
            f"c_touches := {cbool(p['touches'])}; c_poslen := {cbool(p['poslen'])} |}}")


def geom_term(g):
    k = g["type"]
    if k == "LineString":
        return f"(GLine {cpiece(g['parts'][0])})"
    if k == "MultiLineString":
        return f"(GMulti {clist(g['parts'], cpiece)})"
    if k == "GeometryCollection":
        return "(GColl " + clist(g["parts"], lambda p: "PPoint" if p is None
                                 else f"(PLine {cpiece(p)})") + ")"
    return "GOther"


class C44(Prop):
    id = "C44"
    props_file = "Props/C44.v"
    preamble = ("From Coq Require Import List ZArith QArith.\nImport ListNotations.\n"
                "From PP Require Import Model.C44.\nOpen Scope Q_scope.\n")
    n_cases = (1000, 8000)
    design_ref = "DESIGN.md §5 C44"
    level_text = (
        "Coq theorems over Q: exact Cyrus-Beck clipping of a segment by a convex polygon "
        "(intersection of half-planes): a point of the segment is inside the closed polygon IFF "
        "its parameter is in the returned interval (C44_convex_exact: returned piece = segment /\\ "
        "polygon), the piece is a sub-segment lying inside (C44_convex_inside); and the GLUE of "
        "lines_by_polygon around shapely, for any behaviour of shapely: which parts of "
        "poly.intersection(line) become output pieces (LineString, members of MultiLineString, "
        "LineString members of GeometryCollection; non-empty, not merely touching, positive length: "
        "C44_glue_pieces), kept-edge indices non-decreasing and tags attached to the right pieces "
        "(C44_glue_tags), and under shapely's stated contract every output piece lies on its edge "
        "inside the polygon and every point of an edge interior to the polygon is on an output "
        "piece, also for non-convex polygons (C44_glue_exact_under_contract).  Tie: (i) convex "
        "integer polygons: Coq runs the exact clipping in Q on every segment and compares the pieces "
        "with lines_by_polygon's output; (ii) all polygons (convex, star-shaped non-convex, L/U/W "
        "shapes): the harness captures what shapely answered (geometry type, parts, touches, length, "
        "emptiness) and Coq runs the transcribed glue on it and compares pieces, kept indices and "
        "tags.  Oracle (the property itself, exact fractions): an independent 1-D algorithm "
        "(crossing parameters with all polygon edges, exact point-in-polygon of interval midpoints) "
        "demands that every returned piece lies in the closed polygon on its segment and that every "
        "open interval strictly inside the polygon is covered; polygons_by_polyhedron: convex "
        "polygons against boxes, exact Sutherland-Hodgman reference — returned vertices inside the "
        "box, in the polygon's plane and inside the polygon, total area equal to the exact "
        "intersection area.")
    level_note = (
        "NOT proved: anything about polygons_by_polyhedron (oracle only, convex polygons x boxes in "
        "general position); shapely/GEOS itself (a Section variable: its contract is a hypothesis of "
        "C44_glue_exact_under_contract; the oracle checks the final result independently); that the "
        "half-planes of a counter-clockwise convex vertex list describe that polygon (taken as the "
        "definition of a convex polygon); pieces lying ON the polygon boundary are dropped by the "
        "code on purpose (touches) and are not demanded by the oracle; floating-point rounding "
        "(band 1e-9).  Repaired defect: GeometryCollection results were dropped whole (fix commit in "
        "known_findings/C44.json; old failing input in corpus/C44).")
    technique = ("Coq proof (interval invariant of Cyrus-Beck by induction over the half-plane list, "
                 "linear rational arithmetic; list reasoning for the shapely glue) + vm_compute "
                 "execution correspondence in Q + exact-fractions oracle")
    rule = ("random convex integer polygons (hull of 4-9 points in [-8,8]^2), convex polygons with one "
            "reentrant corner, star-shaped non-convex "
            "integer polygons (16 fixed directions, random radii) and fixed L/U/W shapes; 1-6 "
            "segments per case with integer end points (vertex lists start at a random vertex, so a "
            "reentrant corner is first/last as often as anywhere): random, through polygon vertices, along "
            "polygon edges, degenerate, fully inside; one integer tag row; 25% polyhedron cases "
            "(box x triangle/parallelogram with odd/16 coordinates; 60% of the boxes as triangulated "
            "surfaces = coplanar neighbouring sides with random diagonals, sides in random order, "
            "polygons large enough to cut several sides); non-trivial = some segment is "
            "cut (a piece differs from its segment) or a polygon is cut by the box; 12% of the volume "
            "are FAMILIES: one polygon listed from every starting vertex and in both orientations with "
            "the same segments, incl. segments with both end points strictly inside that cross a "
            "notch; 12% are NON-BOX polyhedra with all vertices at bounding-box corners (corner "
            "tetrahedron, wedge, pyramid over a face; mirrored, sides permuted) with polygons inside "
            "the box but outside / straddling the polyhedron, 30% of them with a vertex exactly on an edge or side; 4% boxes with a polygon vertex exactly on a side or an edge; distinct by "
            "(case, output)")
    trusted = ["shapely's answers are captured by calling the same shapely methods on the same "
               "objects from the harness (glue tie)",
               "float -> exact rational conversion; band 1e-9*(1+|x|) inside Coq"]
    assumptions = ["convex theorems: polygon = intersection of the closed half-planes left of its "
                   "counter-clockwise edges"]

    def __init__(self):
        self.stats = {}

    # ------------------------------------------------------------------ generator
    def _polygon(self, rng):
        kind, vs = self._polygon0(rng)
        k = rng.randrange(len(vs))      # every vertex (also a reentrant one) gets to be first/last
        return kind, vs[k:] + vs[:k]

    def _polygon0(self, rng):
        r = rng.random()
        if r < 0.45:
            while True:
                pts = [(rng.randint(-8, 8), rng.randint(-8, 8)) for _ in range(rng.randint(4, 9))]
                h = convex_hull(pts)
                if len(h) >= 3:
                    return "convex", [list(p) for p in h]
        if r < 0.60:
            # a convex polygon with ONE reentrant corner: vertex (a + b + 2c)/4 inserted between
            # the neighbours a, b (c another hull vertex); coordinates are multiples of 4
            while True:
                pts = [(4 * rng.randint(-4, 4), 4 * rng.randint(-4, 4)) for _ in range(rng.randint(4, 8))]
                h = convex_hull(pts)
                if len(h) >= 4:
                    break
            i = rng.randrange(len(h))
            a, b = h[i], h[(i + 1) % len(h)]
            c = h[(i + 1 + rng.randint(1, len(h) - 2)) % len(h)]
            dent = ((a[0] + b[0] + 2 * c[0]) // 4, (a[1] + b[1] + 2 * c[1]) // 4)
            vs = [list(q) for q in h[:i + 1]] + [list(dent)] + [list(q) for q in h[i + 1:]]
            return "dent", vs
        if r < 0.85:
            k = rng.choice([1, 2])
            dirs = DIRS[::k]
            ox, oy = rng.randint(-3, 3), rng.randint(-3, 3)
            vs = []
            for d in dirs:
                rad = rng.randint(1, 4)
                vs.append([ox + rad * d[0], oy + rad * d[1]])
            return "star", vs
        return "fixed", rng.choice([W_POLY, L_POLY, U_POLY])

    def _segment(self, rng, poly):
        r = rng.random()
        n = len(poly)
        lo = min(min(p) for p in poly) - 3
        hi = max(max(p) for p in poly) + 3
        P = lambda: [rng.randint(lo, hi), rng.randint(lo, hi)]
        if r < 0.45:
            return P() + P()
        if r < 0.65:                       # through a vertex (and beyond)
            v = poly[rng.randrange(n)]
            d = [rng.randint(-3, 3), rng.randint(-3, 3)]
            k1, k2 = rng.randint(0, 3), rng.randint(0, 3)
            return [v[0] - k1 * d[0], v[1] - k1 * d[1], v[0] + k2 * d[0], v[1] + k2 * d[1]]
        if r < 0.8:                        # along an edge line
            i = rng.randrange(n)
            a, b = poly[i], poly[(i + 1) % n]
            k1, k2 = rng.randint(-1, 1), rng.randint(0, 2)
            e = [b[0] - a[0], b[1] - a[1]]
            return [a[0] + k1 * e[0], a[1] + k1 * e[1], a[0] + k2 * e[0], a[1] + k2 * e[1]]
        if r < 0.9:                        # between two vertices
            a, b = poly[rng.randrange(n)], poly[rng.randrange(n)]
            return list(a) + list(b)
        p = P()
        return p + p                       # degenerate

    def _inside_crossing(self, rng, poly, want=2):
        """Segments with BOTH end points strictly inside the polygon that leave it in between
        (they cross a notch); end points on the half-integer grid."""
        pf = [(F(p[0]), F(p[1])) for p in poly]
        lo = [2 * min(p[k] for p in poly) for k in range(2)]
        hi = [2 * max(p[k] for p in poly) for k in range(2)]
        inside = []
        for _ in range(60):
            q = (F(rng.randint(lo[0], hi[0]), 2), F(rng.randint(lo[1], hi[1]), 2))
            if classify(q, pf) == "in":
                inside.append(q)
        out = []
        for _ in range(80):
            if len(inside) < 2 or len(out) >= want:
                break
            a, b = rng.sample(inside, 2)
            if a != b and any(c == "out" for _, _, c in elementary_intervals(a, b, pf)):
                out.append([float(a[0]), float(a[1]), float(b[0]), float(b[1])])
        return out

    def _family(self, rng):
        """One non-convex (or convex) polygon listed from EVERY starting vertex, in both
        orientations, always with the same segments (incl. inside-inside segments across a
        notch): the answer must not depend on how the polygon is listed."""
        kind, poly = self._polygon0(rng)
        segs = [self._segment(rng, poly) for _ in range(rng.randint(1, 3))]
        segs += self._inside_crossing(rng, poly)
        tags = [rng.randint(-5, 9) for _ in segs]
        n = len(poly)
        for rev in (False, True):
            base = poly[::-1] if rev else poly
            for k in range(n):
                yield {"kind": kind + ("_rev" if rev else ""), "poly": base[k:] + base[:k],
                       "segs": segs, "tags": tags, "family": True}

    def generate(self, rng, n, tier):
        i = 0
        while i < n:
            i += 1
            r0 = rng.random()
            if r0 < 0.12:
                # polyhedra whose vertices are all corners of their bounding box but which are
                # not boxes; polygons inside the box, outside / straddling the polyhedron
                sdim = rng.randint(1, 3)
                shape = rng.choice(["tet", "wedge", "pyramid"])
                nsides = {"tet": 4, "wedge": 5, "pyramid": 5}[shape]
                perm = list(range(nsides))
                rng.shuffle(perm)
                o4 = lambda: 4 * rng.randint(0, 4 * sdim - 1) + 1       # = 1 mod 4, inside the box
                big = rng.random() < 0.3
                m = 12 if big else 3
                mirror = rng.randrange(8)
                p0 = [o4(), o4(), o4()]
                if rng.random() < 0.3:
                    # CONTACT: first vertex exactly on an edge or on a side of the polyhedron
                    sides, _ = corner_polyhedron(shape, sdim, sdim, sdim, mirror)
                    sd = rng.choice(sides)
                    j = rng.randrange(len(sd))
                    V = [sd[j], sd[(j + 1) % len(sd)], sd[(j + 2) % len(sd)]]
                    w = [rng.randint(1, 14), 0, 0]
                    if rng.random() < 0.5:
                        w[1] = 16 - w[0]                      # on the edge V0-V1
                    else:
                        w[1] = rng.randint(1, 15 - w[0])
                        w[2] = 16 - w[0] - w[1]               # on the side
                    p0 = [sum(w[i] * V[i][k] for i in range(3)) for k in range(3)]
                yield {"kind": "polyhedron", "shape": shape, "box": [sdim] * 3,
                       "mirror": mirror, "perm": perm, "roll": rng.randrange(3),
                       "p0": p0,
                       "u": [4 * rng.randint(-m, m) for _ in range(3)],
                       "v": [4 * rng.randint(-m, m) for _ in range(3)],
                       "tri": rng.random() < 0.5}
                continue
            if r0 < 0.16:
                # CONTACT: the first polygon vertex lies exactly on a side (one coordinate at a
                # box bound) or on an edge (two coordinates) of a box
                A, B, C = rng.randint(1, 3), rng.randint(1, 3), rng.randint(1, 3)
                dims = [A, B, C]
                p0 = [2 * rng.randint(0, 8 * dims[k] - 1) + 1 for k in range(3)]
                for k in rng.sample(range(3), rng.choice([1, 1, 2])):
                    p0[k] = rng.choice([0, 16 * dims[k]])
                yield {"kind": "polyhedron", "box": dims, "p0": p0, "contact": True,
                       "u": [2 * rng.randint(-12, 12) for _ in range(3)],
                       "v": [2 * rng.randint(-12, 12) for _ in range(3)],
                       "tri": rng.random() < 0.5}
                continue
            if r0 < 0.28:
                for case in self._family(rng):
                    yield case
                    i += 1
                continue
            if rng.random() < 0.25:
                A, B, C = rng.randint(1, 3), rng.randint(1, 3), rng.randint(1, 3)
                od = lambda lo, hi: (2 * rng.randint(8 * lo, 8 * hi) + 1)
                p0 = [od(-1, 3), od(-1, 3), od(-1, 3)]
                u = [2 * rng.randint(-24, 24) for _ in range(3)]
                v = [2 * rng.randint(-24, 24) for _ in range(3)]
                case = {"kind": "polyhedron", "box": [A, B, C], "p0": p0, "u": u, "v": v,
                        "tri": rng.random() < 0.5}
                if rng.random() < 0.6:
                    # the box as a triangulated surface (coplanar neighbouring sides: clipped
                    # polygons get hanging nodes), sides in random order
                    case["tri_box"] = True
                    case["diag"] = rng.randrange(64)
                    perm = list(range(12))
                    rng.shuffle(perm)
                    case["perm"] = perm
                    case["roll"] = rng.randrange(3)
                    if rng.random() < 0.6:   # large polygons cutting several sides
                        case["u"] = [2 * rng.randint(-60, 60) for _ in range(3)]
                        case["v"] = [2 * rng.randint(-60, 60) for _ in range(3)]
                elif rng.random() < 0.5:
                    perm = list(range(6))
                    rng.shuffle(perm)
                    case["perm"] = perm
                    case["roll"] = rng.randrange(4)
                yield case
                continue
            kind, poly = self._polygon(rng)
            segs = [self._segment(rng, poly) for _ in range(rng.randint(1, 6))]
            yield {"kind": kind, "poly": poly, "segs": segs,
                   "tags": [rng.randint(-5, 9) for _ in segs]}

    # ------------------------------------------------------------------ implementation
    def _poly3(self, case):
        p0 = [F(x, 16) for x in case["p0"]]
        u = [F(x, 16) for x in case["u"]]
        v = [F(x, 16) for x in case["v"]]
        vs = [tuple(p0), tuple(p0[k] + u[k] for k in range(3))]
        if not case["tri"]:
            vs.append(tuple(p0[k] + u[k] + v[k] for k in range(3)))
        vs.append(tuple(p0[k] + v[k] for k in range(3)))
        return vs

    def run_impl(self, case):
        if case["kind"] == "polyhedron":
            vs = self._poly3(case)
            nrm = [cross(case["u"][1], case["u"][2], case["v"][1], case["v"][2]),
                   cross(case["u"][2], case["u"][0], case["v"][2], case["v"][0]),
                   cross(case["u"][0], case["u"][1], case["v"][0], case["v"][1])]
            if not any(nrm):
                self.stats["polyhedron_degenerate"] = self.stats.get("polyhedron_degenerate", 0) + 1
                return {"skipped": True}
            poly = np.array([[float(x) for x in p] for p in vs]).T
            faces, _ = polyhedron_of(case)
            try:
                out, inds = constrain_geometry.polygons_by_polyhedron(poly, faces)
            except (AssertionError, ValueError) as e:
                # the function's own sanity checks: 'assert False' ("inside_polyhedron test is
                # bad"), polygons_3d "There should be at most two intersections", ...
                if isinstance(e, ValueError) and "at most two intersections" not in str(e):
                    raise
                self.stats["polyhedron_exception"] = self.stats.get("polyhedron_exception", 0) + 1
                return {"skipped": False, "error": type(e).__name__, "polys": [], "inds": []}
            k = ("polyhedron_triangulated" if case.get("tri_box") else
                 "polyhedron" if case.get("shape", "box") == "box" else "polyhedron_" + case["shape"])
            self.stats[k] = self.stats.get(k, 0) + 1
            return {"skipped": False, "polys": [p.T.tolist() for p in out],
                    "inds": [int(i) for i in inds]}
        import shapely.geometry as sg
        poly = np.array(case["poly"], dtype=float).T
        pts = np.array([c for s in case["segs"] for c in ((s[0], s[1]), (s[2], s[3]))],
                       dtype=float).T
        ne = len(case["segs"])
        edges = np.vstack([np.arange(0, 2 * ne, 2), np.arange(1, 2 * ne, 2),
                           np.array(case["tags"], dtype=int)])
        ipts, iedges, kept = constrain_geometry.lines_by_polygon(poly, pts, edges)
        npc = ipts.shape[1] // 2
        assert ipts.shape[1] == 2 * npc and iedges.shape[1] == npc == kept.size, \
            "points, edges and kept indices are inconsistent"
        assert (iedges[:2].ravel("F") == np.arange(2 * npc)).all()
        pieces = [[float(ipts[0, 2 * k]), float(ipts[1, 2 * k]),
                   float(ipts[0, 2 * k + 1]), float(ipts[1, 2 * k + 1])] for k in range(npc)]
        # what shapely answers (the same calls as the implementation makes)
        spoly = sg.Polygon(poly[:2, :].T)

        def cap(ls):
            cs = list(ls.coords)
            a, b = (cs[0], cs[-1]) if cs else ((0.0, 0.0), (0.0, 0.0))
            return {"a": [float(a[0]), float(a[1])], "b": [float(b[0]), float(b[1])],
                    "nonempty": len(cs) > 0,
                    "touches": bool(ls.touches(spoly)) if cs else False,
                    "poslen": bool(ls.length > 0), "ncoords": len(cs)}
        captured = []
        for e in edges.T:
            g = spoly.intersection(sg.LineString([pts[:2, e[0]], pts[:2, e[1]]]))
            t = type(g).__name__
            if t == "LineString":
                captured.append({"type": t, "parts": [cap(g)]})
            elif t == "MultiLineString":
                captured.append({"type": t, "parts": [cap(x) for x in g.geoms]})
            elif t == "GeometryCollection":
                captured.append({"type": t, "parts": [cap(x) if type(x).__name__ == "LineString"
                                                      else None for x in g.geoms]})
            else:
                captured.append({"type": t, "parts": []})
            k = f"{case['kind']}/{t}"
            self.stats[k] = self.stats.get(k, 0) + 1
        return {"pieces": pieces, "kept": [int(k) for k in kept],
                "tags": [int(x) for x in iedges[2]] if npc else [], "shapely": captured}

    # ------------------------------------------------------------------ oracle
    def _oracle_polyhedron(self, case, res):
        if res["skipped"]:
            return None
        if res.get("error"):
            return f"polyhedron: {res['error']} raised instead of a result"
        vs = self._poly3(case)
        box = case["box"]
        _, hspaces = polyhedron_of(case)
        cl = list(vs)
        for hn, hc in hspaces:
            cl = clip_poly_plane(cl, [F(x) for x in hn], F(hc))
        u = [F(x, 16) for x in case["u"]]
        v = [F(x, 16) for x in case["v"]]
        nrm = [cross(u[1], u[2], v[1], v[2]), cross(u[2], u[0], v[2], v[0]),
               cross(u[0], u[1], v[0], v[1])]
        drop = max(range(3), key=lambda k: abs(nrm[k]))
        keep = [k for k in range(3) if k != drop]
        proj = lambda p: (p[keep[0]], p[keep[1]])
        exact = area2d([proj(p) for p in cl])
        src2 = [proj(p) for p in vs]
        if cross(src2[1][0] - src2[0][0], src2[1][1] - src2[0][1],
                 src2[2][0] - src2[0][0], src2[2][1] - src2[0][1]) < 0:
            src2 = src2[::-1]
        tol = F(1, 10 ** 7)
        total = F(0)
        nn = sum(x * x for x in nrm)
        for poly in res["polys"]:
            ps = [tuple(F(c) for c in p) for p in poly]
            for p in ps:
                for hn, hc in hspaces:
                    d = sum(hn[k] * p[k] for k in range(3)) - hc
                    if d > 0 and d * d > tol * tol * sum(x * x for x in hn):
                        return (f"polyhedron: returned vertex {[float(c) for c in p]} lies outside the "
                                f"{case.get('shape', 'box')} in the box {box}")
                dist = sum(nrm[k] * (p[k] - vs[0][k]) for k in range(3))
                if dist * dist > tol * tol * nn:
                    return f"polyhedron: returned vertex {[float(c) for c in p]} is off the polygon's plane"
                q = proj(p)
                for i in range(len(src2)):
                    a, b = src2[i], src2[(i + 1) % len(src2)]
                    e2 = (b[0] - a[0]) ** 2 + (b[1] - a[1]) ** 2
                    c = cross(b[0] - a[0], b[1] - a[1], q[0] - a[0], q[1] - a[1])
                    if c < 0 and c * c > tol * tol * e2:
                        return (f"polyhedron: returned vertex {[float(c) for c in p]} lies outside "
                                "the polygon that was clipped")
            hull = convex_hull([proj(p) for p in ps])
            total += area2d(hull)
        if abs(total - exact) > tol * (1 + exact):
            return (f"polyhedron: the returned polygons cover the (projected) area {float(total)!r}, "
                    f"the exact intersection with the {case.get('shape', 'box')} has {float(exact)!r}")
        return None

    def oracle(self, case, res):
        if case["kind"] == "polyhedron":
            return self._oracle_polyhedron(case, res)
        poly = [(F(p[0]), F(p[1])) for p in case["poly"]]
        by_edge = {}
        for k, pc in zip(res["kept"], res["pieces"]):
            by_edge.setdefault(k, []).append(pc)
        if any(k < 0 or k >= len(case["segs"]) for k in res["kept"]):
            return "segment: a kept-edge index is out of range"
        for k, tg in zip(res["kept"], res["tags"]):
            if tg != case["tags"][k]:
                return f"segment {k}: piece carries tag {tg}, its edge has tag {case['tags'][k]}"
        for ei, s in enumerate(case["segs"]):
            p0, p1 = (F(s[0]), F(s[1])), (F(s[2]), F(s[3]))
            pcs = by_edge.get(ei, [])
            if p0 == p1:
                if pcs:
                    return f"segment {ei} is a single point but pieces {pcs} were returned"
                continue
            d = (p1[0] - p0[0], p1[1] - p0[1])
            dd = d[0] * d[0] + d[1] * d[1]
            ivs = []
            for pc in pcs:
                uv = []
                for q in ((F(pc[0]), F(pc[1])), (F(pc[2]), F(pc[3]))):
                    w = (q[0] - p0[0], q[1] - p0[1])
                    c = cross(d[0], d[1], w[0], w[1])
                    if c * c > EPS * EPS * dd * (1 + dd):
                        return f"segment {ei}: returned point {pc} is not on the segment's line"
                    uv.append((w[0] * d[0] + w[1] * d[1]) / dd)
                a, b = min(uv), max(uv)
                if a < -EPS or b > 1 + EPS:
                    return f"segment {ei}: returned piece {pc} extends beyond the segment"
                if not b - a > EPS:
                    return f"segment {ei}: returned piece {pc} has no length"
                ivs.append((a, b))
            for ta, tb, cls in elementary_intervals(p0, p1, poly):
                if cls == "out":
                    for a, b in ivs:
                        if min(b, tb) - max(a, ta) > EPS:
                            return (f"segment {ei}: the returned piece [{float(a)}, {float(b)}] (segment "
                                    f"parameters) runs outside the polygon on "
                                    f"[{float(ta)}, {float(tb)}]")
                elif cls == "in":
                    if not any(a <= ta + EPS and b >= tb - EPS for a, b in ivs):
                        return (f"segment {ei}: the part with parameters [{float(ta)}, {float(tb)}] is "
                                f"strictly inside the polygon but not covered by the returned "
                                f"pieces {[(float(a), float(b)) for a, b in ivs]}")
        return None

    # ------------------------------------------------------------------ Coq tie
    def coq_case(self, case, res):
        if case["kind"] == "polyhedron":
            return None
        if any(p is not None and p["ncoords"] > 2 for g in res["shapely"] for p in g["parts"]):
            return "false"    # a bent line piece: outside the glue model (two points per piece)
        isects = clist(res["shapely"], geom_term)
        tags = "(" + clist(case["tags"], lambda z: f"{z}" if z >= 0 else f"({z})") + ")%Z"
        itags = "(" + clist(res["tags"], lambda z: f"{z}" if z >= 0 else f"({z})") + ")%Z"
        kept = "(" + clist(res["kept"], lambda k: f"zn {k}") + ")%Z"
        glue = f"agree_glue {isects} {tags} {clist(res['pieces'], qpiece)} {kept} {itags}"
        if case["kind"] != "convex":
            return glue
        by_edge = [[] for _ in case["segs"]]
        for k, pc in zip(res["kept"], res["pieces"]):
            by_edge[k].append(pc)
        vs = clist(case["poly"], qp)
        segs = clist(case["segs"], qpiece)
        impl = clist(by_edge, lambda l: clist(l, qpiece))
        return f"(agree_convex {vs} {segs} {impl} && {glue})"

    def nontrivial(self, case, res):
        if case["kind"] == "polyhedron":
            return not res["skipped"] and len(res["polys"]) > 0
        segs = case["segs"]
        for k, pc in zip(res["kept"], res["pieces"]):
            s = segs[k]
            if sorted([tuple(pc[0:2]), tuple(pc[2:4])]) != sorted([(float(s[0]), float(s[1])),
                                                                  (float(s[2]), float(s[3]))]):
                return True
        return False

    def _vertex_on_boundary(self, case):
        """Exact contact: a polygon vertex lies ON the boundary of the polyhedron, or the polygon's
        plane passes through a vertex of the polyhedron."""
        faces, hspaces = polyhedron_of(case)
        vs = self._poly3(case)
        for p in vs:
            vals = [sum(F(n[k]) * p[k] for k in range(3)) - F(c) for n, c in hspaces]
            if all(v <= 0 for v in vals) and any(v == 0 for v in vals):
                return True
        # ... or the polygon's plane passes exactly through a vertex of the polyhedron
        u = [F(x, 16) for x in case["u"]]
        v = [F(x, 16) for x in case["v"]]
        nrm = [cross(u[1], u[2], v[1], v[2]), cross(u[2], u[0], v[2], v[0]),
               cross(u[0], u[1], v[0], v[1])]
        for f in faces:
            for q in f.T:
                if sum(nrm[k] * (F(float(q[k])) - vs[0][k]) for k in range(3)) == 0:
                    return True
        return False

    def finding_key(self, case, res, why):
        if case["kind"] == "polyhedron":
            if case.get("shape", "box") != "box" and self._vertex_on_boundary(case):
                return CONTACT_KEY
            return "polygons_by_polyhedron: " + why.split(":")[1].strip()[:40]
        if "not covered" in why:
            types = {g["type"] for g in res.get("shapely", [])}
            if "GeometryCollection" in types:
                return "lines_by_polygon: GeometryCollection result dropped"
            return "lines_by_polygon: inside part missing"
        return "lines_by_polygon: " + why.split(":")[1].strip()[:40]

    def shrink(self, case, still_fails):
        if case["kind"] == "polyhedron":
            return case
        cur = case
        for i in range(len(case["segs"])):
            c = dict(cur, segs=[case["segs"][i]], tags=[case["tags"][i]])
            if still_fails(c):
                return c
        return cur

    def extra_evidence(self):
        return {"input_distribution": dict(sorted(self.stats.items()))}


PROP = C44()
