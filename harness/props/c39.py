"""C39 — boundary condition objects partition the boundary faces."""
import warnings

import numpy as np

from harness.core import Prop, cnat, cbool, clist, coption

import porepy as pp

_GRIDS = {}


def _grid(key):
    """A handful of real grids, built once per process."""
    if key in _GRIDS:
        return _GRIDS[key]
    if key == "cart_2x2":
        g = pp.CartGrid([2, 2])
    elif key == "cart_3x2":
        g = pp.CartGrid([3, 2])
    elif key == "cart_1x1":
        g = pp.CartGrid([1, 1])
    elif key == "tri_2x2":
        g = pp.StructuredTriangleGrid([2, 2])
    elif key == "cart_2x2x1":
        g = pp.CartGrid([2, 2, 1])
    elif key == "tet_1x1x1":
        g = pp.StructuredTetrahedralGrid([1, 1, 1])
    elif key == "frac_through":       # fracture cutting the whole domain
        g = pp.meshing.cart_grid([np.array([[1.0, 1.0], [0.0, 2.0]])], [2, 2]).subdomains(dim=2)[0]
    elif key == "frac_half":          # fracture from the boundary to the middle
        g = pp.meshing.cart_grid([np.array([[1.0, 1.0], [0.0, 1.0]])], [2, 2]).subdomains(dim=2)[0]
    elif key == "frac_inner":         # immersed fracture (tips inside)
        g = pp.meshing.cart_grid([np.array([[1.0, 2.0], [1.0, 1.0]])], [3, 2]).subdomains(dim=2)[0]
    elif key == "frac_cross":         # two crossing fractures
        g = pp.meshing.cart_grid([np.array([[0.0, 2.0], [1.0, 1.0]]), np.array([[1.0, 1.0], [0.0, 2.0]])],
                                 [2, 2]).subdomains(dim=2)[0]
    elif key == "frac_3d":            # planar fracture in a 3-D grid
        f = np.array([[1.0, 1.0, 1.0, 1.0], [0.0, 2.0, 2.0, 0.0], [0.0, 0.0, 1.0, 1.0]])
        g = pp.meshing.cart_grid([f], [2, 2, 1]).subdomains(dim=3)[0]
    elif key == "frac_line_1d":       # the fracture grid itself (dim 1) of a crossing pair
        mdg = pp.meshing.cart_grid([np.array([[0.0, 2.0], [1.0, 1.0]]), np.array([[1.0, 1.0], [0.0, 2.0]])],
                                   [2, 2])
        g = mdg.subdomains(dim=1)[0]
    elif key == "tip_line_inner":     # 1-D grid of an immersed fracture: both ends are tips
        g = pp.meshing.cart_grid([np.array([[1.0, 3.0], [1.0, 1.0]])], [4, 2]).subdomains(dim=1)[0]
    elif key == "tip_line_half":      # 1-D grid, one tip and one domain-boundary end
        g = pp.meshing.cart_grid([np.array([[0.0, 2.0], [1.0, 1.0]])], [3, 2]).subdomains(dim=1)[0]
    elif key == "tip_plane":          # 2-D fracture grid in 3-D: tip and domain-boundary faces
        f = np.array([[1.0, 1.0, 1.0, 1.0], [1.0, 2.0, 2.0, 1.0], [0.0, 0.0, 1.0, 1.0]])
        g = pp.meshing.cart_grid([f], [2, 3, 1]).subdomains(dim=2)[0]
    elif key in ("tip_plane_cross_a", "tip_plane_cross_b"):
        # two crossing immersed planes in 3-D: tip, domain-boundary AND fracture faces
        f1 = np.array([[1.0, 1.0, 1.0, 1.0], [0.0, 3.0, 3.0, 0.0], [1.0, 1.0, 2.0, 2.0]])
        f2 = np.array([[0.0, 2.0, 2.0, 0.0], [1.0, 1.0, 1.0, 1.0], [1.0, 1.0, 2.0, 2.0]])
        g = pp.meshing.cart_grid([f1, f2], [2, 3, 3]).subdomains(dim=2)[0 if key.endswith("a") else 1]
    else:
        raise KeyError(key)
    g.compute_geometry()
    _GRIDS[key] = g
    return g


GRID_KEYS = ["cart_2x2", "cart_3x2", "cart_1x1", "tri_2x2", "cart_2x2x1", "tet_1x1x1", "frac_through",
             "frac_half", "frac_inner", "frac_cross", "frac_3d", "frac_line_1d",
             "tip_line_inner", "tip_line_half", "tip_plane", "tip_plane_cross_a", "tip_plane_cross_b"]
TIP_KEYS = [k for k in GRID_KEYS if k.startswith("tip_")]

CSTR = {"dir": "CDir", "neu": "CNeu", "rob": "CRob"}
TY = {"dir": "Dir", "neu": "Neu", "rob": "Rob"}


def _cstr(s):
    return CSTR.get(s.lower(), "CBad")


def _faces(f):
    if f is None:
        return "None"
    if f[0] == "idx":
        return f"(Some (FIdx {clist(f[1], cnat)}))"
    return f"(Some (FMask {clist(f[1], cbool)}))"


def _cond(c):
    if c is None:
        return "None"
    if c[0] == "one":
        return f"(Some (COne {_cstr(c[1])}))"
    return f"(Some (CList {clist(c[1], _cstr)}))"


def _op(o):
    if o[0] == "set":
        return f"OpSet {_faces(o[1])} {_cond(o[2])}"
    if o[0] == "internal":
        return "OpInternal"
    if o[0] == "copy":
        return "OpCopy"
    return f"OpUser {cnat(o[1])} {cnat(o[2])} {TY[o[3]]}"


def _outcome(o):
    if o[0] == "done":
        return f"(Done {cbool(o[1])})"
    return f"(Fail {cbool(o[1])} {o[2]})"


def _dump(d):
    return clist(d, lambda c: f"({clist(c[0], cbool)}, {clist(c[1], cbool)}, {clist(c[2], cbool)})")


def _py_faces(f, rep=0):
    if f is None:
        return None
    if f[0] == "idx":
        return np.array(f[1], dtype=[np.int64, np.int32, np.int64][rep % 3])
    return np.array(f[1], dtype=bool)


def _py_cond(c, rep=0):
    """cond as str, list of str, tuple of str or numpy object array (as tests/…/test_tpsa.py)."""
    if c is None:
        return None
    if c[0] == "one":
        return c[1]
    if rep % 3 == 1:
        a = np.zeros(len(c[1]), dtype="object")
        a[:] = list(c[1])
        return a
    if rep % 3 == 2:
        return tuple(c[1])
    return list(c[1])


def _scramble(handed, nfc):
    """Aliasing probe: overwrite IN PLACE every array / list that was handed to the
    implementation (the caller reusing its work arrays)."""
    for a in handed:
        if isinstance(a, np.ndarray):
            if a.dtype == bool:
                a[:] = ~a
            elif a.dtype == object:
                a[:] = "xx"
            else:
                a[:] = (a + 1) % max(nfc, 1)
        elif isinstance(a, list):
            for i in range(len(a)):
                a[i] = "xx"


def _snapshot(bc):
    if bc.is_dir.ndim == 1:
        return [[[bool(x) for x in bc.is_dir], [bool(x) for x in bc.is_neu], [bool(x) for x in bc.is_rob]]]
    return [[[bool(x) for x in bc.is_dir[c]], [bool(x) for x in bc.is_neu[c]], [bool(x) for x in bc.is_rob[c]]]
            for c in range(bc.is_dir.shape[0])]


def _call(fn):
    """Run fn; return (outcome, value)."""
    with warnings.catch_warnings(record=True) as w:
        warnings.simplefilter("always")
        try:
            v = fn()
            err = None
        except ValueError:
            v, err = None, "ValueErr"
        except AssertionError:
            v, err = None, "AssertErr"
        except IndexError:
            v, err = None, "IndexErr"
    warned = any("internal" in str(x.message) for x in w)
    return (["done", warned] if err is None else ["fail", warned, err]), v


def _resolved(f, nf):
    """Face list named by a faces argument (None when it cannot be resolved)."""
    if f is None:
        return []
    if f[0] == "idx":
        return list(f[1])
    if len(f[1]) != nf:
        return None
    return [i for i, b in enumerate(f[1]) if b]


class C39(Prop):
    id = "C39"
    props_file = "Props/C39.v"
    preamble = ("From Coq Require Import List Bool.\nImport ListNotations.\n"
                "From PP Require Import Model.C39.\n")
    n_cases = (400, 8000)
    design_ref = "DESIGN.md §5 C39, §6 row C39"
    level_text = (
        "Coq theorems over an executable transcription of BoundaryCondition.__init__, "
        "BoundaryConditionVectorial.__init__/set_bc, internal_to_dirichlet and copy on a grid given by "
        "its face tags: for EVERY grid, constructor call (index or mask faces, string or list "
        "conditions) and EVERY later sequence of set_bc / internal_to_dirichlet / copy calls "
        "(successful or raising) and per-component manual assignments on boundary faces, every "
        "boundary face carries exactly one of Dirichlet/Neumann/Robin in every component and every "
        "other face none (C39_partition_*); boundary faces not named by the constructor are Neumann "
        "(C39_default_neumann); a successful uniform assignment gives exactly the named faces the "
        "requested type (C39_assignment_exact) and a successful list assignment gives every named face "
        "the LAST condition listed for it, repeated faces included, and changes nothing else "
        "(C39_assignment_list_last_wins). The pre-fix assignment is refuted in Coq. Tie: porepy and "
        "the model (inside Coq) are run on real grids incl. split fractured grids and lower-dimensional "
        "grids with tip faces; all flag arrays, error and warning outcomes are compared after every "
        "call, after the arrays handed in have been overwritten in place.")
    level_note = (
        "Trusted: the grid enters the model only through its three face tags (domain boundary, "
        "fracture, tip), extracted from the real porepy grid on every run; numpy's vectorised masked "
        "assignment in internal_to_dirichlet is written face by face; condition strings are "
        "lower-cased by the harness the way str.lower() does. Face indices are non-negative (a "
        "negative index fails the isin test in the code exactly like an out-of-range one). Oracle "
        "only (constants, no theorem): robin_weight / basis keep their defaults (ones / identity per "
        "face), num_faces / bf / is_internal describe the grid; copy() returns an independent object "
        "of the same class (checked by mutating the copy; in the model copy is the identity on the "
        "flags). NOT covered: direct user writes that break the invariant.")
    technique = ("Coq proof (partition invariant preserved by every call, induction over call histories) "
                 "+ vm_compute execution correspondence on real grids")
    rule = ("grid drawn from 17 real grids (Cartesian/simplex 2-D/3-D, five split fractured grids incl. "
            "through-going, immersed and crossing fractures, a 1-D fracture grid); scalar or vectorial "
            "class; constructor faces as index array or boolean mask (boundary faces, repeated faces, "
            "fracture faces, interior faces -> error, wrong mask size -> error), condition as string "
            "or list (mixed case, unknown keyword, wrong length, None); 30% of the cases on five "
            "lower-dimensional fracture grids WITH tip faces (1-D and 2-D, both classes); every array "
            "or list handed to the implementation is overwritten in place after the call and the "
            "flags re-read (aliasing probe); then 0-6 further calls "
            "(set_bc with the same variety, internal_to_dirichlet, copy() followed by further calls on "
            "the copy while the original is watched, manual component assignment); conditions handed "
            "over as list, tuple or numpy object array, faces as int32/int64 arrays; robin_weight, "
            "basis, num_faces, bf, is_internal checked against their documented values; "
            "non-trivial = object constructed and at least one non-Neumann flag set")
    trusted = ["face tags of the real grid are the model's grid; masked numpy assignment = face-by-face"]
    assumptions = ["manual (user) flag writes, where generated, set exactly one type on a boundary face"]

    # ------------------------------------------------------------------ generation
    def _gen_faces(self, rng, g, purpose):
        nfc = g.num_faces
        bf = [int(i) for i in g.get_all_boundary_faces()]
        frac = [int(i) for i in np.flatnonzero(g.tags["fracture_faces"])]
        inner = [i for i in range(nfc) if i not in bf]
        r = rng.random()
        if purpose == "bad" and inner and r < 0.5:
            l = rng.sample(bf, rng.randint(0, min(3, len(bf)))) + [rng.choice(inner)]
            rng.shuffle(l)
        elif purpose == "bad" and r < 0.75:
            l = [nfc + rng.randint(0, 3)]
        elif purpose == "bad":
            return ["mask", [rng.random() < 0.5 for _ in range(nfc + rng.choice([-1, 1, 2]))]]
        elif r < 0.15 and frac:
            l = rng.sample(frac, rng.randint(1, len(frac)))
        elif r < 0.25:
            l = list(bf)
        elif r < 0.32:
            l = []
        else:
            l = rng.sample(bf, rng.randint(1, min(len(bf), 6)))
            if rng.random() < 0.3:
                l += [rng.choice(l) for _ in range(rng.randint(1, 3))]      # repeated faces
                rng.shuffle(l)
        if rng.random() < 0.35:
            m = [False] * nfc
            for f in l:
                if f < nfc:
                    m[f] = True
            return ["mask", m]
        return ["idx", l]

    def _gen_cond(self, rng, faces, nfc, purpose):
        kws = ["dir", "neu", "rob"]
        word = lambda: rng.choice(kws) if rng.random() < 0.85 else rng.choice(["Dir", "NEU", "Rob", "DIR"])
        res = _resolved(faces, nfc)
        k = len(res) if res is not None else rng.randint(0, 3)
        r = rng.random()
        if purpose == "badcond":
            if r < 0.3:
                return None
            if r < 0.6:
                return ["list", [word() for _ in range(k + rng.choice([1, 2]) if k == 0 or rng.random() < 0.5 else k - 1)]]
            l = [word() for _ in range(max(k, 1))]
            l[rng.randrange(len(l))] = rng.choice(["xx", "dirichlet", ""])
            return ["list", l] if rng.random() < 0.7 or k == 0 else ["one", "xx"]
        if r < 0.55:
            return ["one", word()]
        return ["list", [word() for _ in range(k)]]

    def _gen_call(self, rng, g):
        r = rng.random()
        purpose = "ok" if r < 0.8 else ("bad" if r < 0.9 else "badcond")
        if rng.random() < 0.05:
            return None, rng.choice([None, ["one", "dir"]])
        f = self._gen_faces(rng, g, purpose)
        c = self._gen_cond(rng, f, g.num_faces, purpose)
        return f, c

    def generate(self, rng, n, tier):
        for _ in range(n):
            key = rng.choice(TIP_KEYS) if rng.random() < 0.3 else rng.choice(GRID_KEYS)
            g = _grid(key)
            vect = rng.random() < 0.65
            f, c = self._gen_call(rng, g)
            ops = []
            bf = [int(i) for i in g.get_all_boundary_faces()]
            for _ in range(rng.randint(0, 6) if vect else rng.randint(0, 3)):
                r = rng.random()
                if not vect:
                    ops.append(["user", 0, rng.choice(bf), rng.choice(["dir", "neu", "rob"])]
                               if rng.random() < 0.6 else rng.choice([["internal"], ["copy"]]))
                elif r < 0.65:
                    ff, cc = self._gen_call(rng, g)
                    ops.append(["set", ff, cc])
                elif r < 0.76:
                    ops.append(["internal"])
                elif r < 0.84:
                    ops.append(["copy"])
                elif r < 0.97:
                    ops.append(["user", rng.randrange(g.dim), rng.choice(bf), rng.choice(["dir", "neu", "rob"])])
                else:
                    ops.append(["user", g.dim + rng.randint(0, 1), rng.choice(bf), "dir"])
            yield {"grid": key, "vect": vect, "faces": f, "cond": c, "ops": ops, "rep": rng.randrange(3)}

    # ------------------------------------------------------------------ implementation
    def run_impl(self, case):
        g = _grid(case["grid"])
        cls = pp.BoundaryConditionVectorial if case["vect"] else pp.BoundaryCondition
        tags = [[bool(g.tags["domain_boundary_faces"][i]), bool(g.tags["fracture_faces"][i]),
                 bool(g.tags["tip_faces"][i])] for i in range(g.num_faces)]
        bf = sorted(int(i) for i in g.get_all_boundary_faces())
        rep_ = int(case.get("rep", 0))
        fa, ca = _py_faces(case["faces"], rep_), _py_cond(case["cond"], rep_)
        out, bc = _call(lambda: cls(g, fa, ca))
        res = {"tags": tags, "bf": bf, "dim": int(g.dim), "ctor": out,
               "ctor_dump": None, "steps": [], "alias": None, "defaults": None}
        if bc is None:
            return res
        before = _snapshot(bc)
        _scramble([fa, ca], g.num_faces)
        res["ctor_dump"] = _snapshot(bc)          # flags re-read after the probe
        if before != res["ctor_dump"]:
            res["alias"] = "the constructor (arguments overwritten afterwards)"
        res["defaults"] = self._defaults(bc, g, case["vect"])
        originals = []       # (object, snapshot at the time it was copied)
        for k, o in enumerate(case["ops"]):
            handed = []
            if o[0] == "set":
                fa, ca = _py_faces(o[1], rep_ + k + 1), _py_cond(o[2], rep_ + k + 1)
                handed = [fa, ca]
                x, _ = _call(lambda: bc.set_bc(fa, ca))
            elif o[0] == "internal":
                x, _ = _call(lambda: bc.internal_to_dirichlet(g))
            elif o[0] == "copy":
                old = bc
                x, new = _call(lambda: old.copy())
                if new is not None:
                    if type(new) is not type(old) and res["alias"] is None:
                        res["alias"] = (f"call {k} copy: the copy of a {type(old).__name__} is a "
                                        f"{type(new).__name__}")
                    originals.append((old, _snapshot(old)))
                    bc = new
            else:
                def poke(o=o):
                    idx = (o[1], o[2]) if case["vect"] else o[2]
                    if not case["vect"] and o[1] != 0:
                        raise IndexError("component")
                    # the documented manual assignment: all three flags of (component, face)
                    bc.is_neu[idx] = o[3] == "neu"
                    bc.is_dir[idx] = o[3] == "dir"
                    bc.is_rob[idx] = o[3] == "rob"
                x, _ = _call(poke)
            before = _snapshot(bc)
            _scramble(handed, g.num_faces)
            after = _snapshot(bc)
            if before != after and res["alias"] is None:
                res["alias"] = f"call {k} {o[0]} (arguments overwritten afterwards)"
            for obj, snap in originals:
                if _snapshot(obj) != snap and res["alias"] is None:
                    res["alias"] = f"call {k} {o[0]} on a copy changed the object it was copied from"
            if res["defaults"] is None:
                res["defaults"] = self._defaults(bc, g, case["vect"])
            res["steps"].append([x, after])
        return res

    @staticmethod
    def _defaults(bc, g, vect):
        """robin_weight and basis keep their documented defaults (ones resp. the identity per
        face) through the constructor and every later call; bookkeeping attributes are right."""
        nfc = g.num_faces
        if not vect:
            ok = (bc.robin_weight.shape == (nfc,) and np.all(bc.robin_weight == 1.0)
                  and bc.basis.shape == (nfc,) and np.all(bc.basis == 1.0))
        else:
            eye = np.eye(g.dim)
            ok = (bc.robin_weight.shape == (g.dim, g.dim, nfc) and bc.basis.shape == (g.dim, g.dim, nfc)
                  and all(np.array_equal(bc.robin_weight[:, :, f], eye) and np.array_equal(bc.basis[:, :, f], eye)
                          for f in range(nfc)))
        if not ok:
            return "robin_weight / basis are not the default (ones / identity per face)"
        if bc.num_faces != nfc or not np.array_equal(np.sort(bc.bf), np.sort(g.get_all_boundary_faces())) \
                or not np.array_equal(bc.is_internal, g.tags["fracture_faces"]):
            return "num_faces / bf / is_internal do not describe the grid"
        return None

    # ------------------------------------------------------------------ oracle
    def _check_partition(self, res, dump, where):
        bf = set(res["bf"])
        for c, (d, n, r) in enumerate(dump):
            for f in range(len(d)):
                k = int(d[f]) + int(n[f]) + int(r[f])
                if f in bf and k != 1:
                    return (f"partition: {where}: boundary face {f} component {c} carries {k} types "
                            f"(dir={d[f]}, neu={n[f]}, rob={r[f]})")
                if f not in bf and k != 0:
                    return f"partition: {where}: non-boundary face {f} component {c} carries a condition"
        return None

    def oracle(self, case, res):
        if res["ctor_dump"] is None:
            return None
        if res.get("alias"):
            return f"aliasing: {res['alias']}: the object shares memory with its arguments or with its copy"
        if res.get("defaults"):
            return "defaults: " + res["defaults"]
        nfc = len(res["tags"])
        bf = set(res["bf"])
        frac = {i for i, t in enumerate(res["tags"]) if t[1]}
        why = self._check_partition(res, res["ctor_dump"], "after the constructor")
        if why:
            return why
        touched = set(_resolved(case["faces"], nfc) or [])
        # unassigned boundary faces are Neumann
        for c, (d, n, r) in enumerate(res["ctor_dump"]):
            for f in bf - touched:
                if not n[f]:
                    return f"default: unassigned boundary face {f} component {c} is not Neumann after the constructor"
        calls = [(case["faces"], case["cond"], res["ctor"], res["ctor_dump"])]
        for k, (o, (x, dump)) in enumerate(zip(case["ops"], res["steps"])):
            why = self._check_partition(res, dump, f"after call {k} {o[0]}")
            if why:
                return why
            if o[0] == "set":
                touched |= set(_resolved(o[1], nfc) or [])
                calls.append((o[1], o[2], x, dump))
            elif o[0] == "internal":
                if x[0] == "done":
                    touched |= frac
            elif o[0] == "copy":
                pass
            else:
                touched.add(o[2])
            for c, (d, n, r) in enumerate(dump):
                for f in bf - touched:
                    if not n[f]:
                        return f"default: never assigned boundary face {f} component {c} is not Neumann after call {k}"
        # a successful assignment gives the named faces the (last) requested type
        for fs, cd, x, dump in calls:
            if x[0] != "done" or fs is None or cd is None:
                continue
            l = _resolved(fs, nfc)
            conds = [cd[1]] * len(l) if cd[0] == "one" else cd[1]
            want = {}
            for f, s in zip(l, conds):
                want[f] = s.lower()
            for c, (d, n, r) in enumerate(dump):
                for f, s in want.items():
                    got = "dir" if d[f] else "neu" if n[f] else "rob" if r[f] else "none"
                    if got != s:
                        return (f"assigned: face {f} component {c} was assigned '{s}' but is '{got}' "
                                f"right after the call")
        return None

    def finding_key(self, case, res, why):
        return why.split(":")[0]

    # ------------------------------------------------------------------ tie
    def coq_case(self, case, res):
        g = clist(res["tags"], lambda t: f"mkT {cbool(t[0])} {cbool(t[1])} {cbool(t[2])}")
        steps = clist(res["steps"], lambda s: f"({_outcome(s[0])}, {_dump(s[1])})")
        return (f"agree {g} {cbool(case['vect'])} {cnat(res['dim'])} {_faces(case['faces'])} "
                f"{_cond(case['cond'])} {clist(case['ops'], _op)} {_outcome(res['ctor'])} "
                f"{coption(res['ctor_dump'], _dump)} {steps}")

    def nontrivial(self, case, res):
        if res["ctor_dump"] is None:
            return False
        last = res["steps"][-1][1] if res["steps"] else res["ctor_dump"]
        return any(any(d) or any(r) for d, n, r in last)

    def shrink(self, case, still_fails):
        ops = list(case["ops"])
        changed = True
        while changed:
            changed = False
            for i in range(len(ops) - 1, -1, -1):
                c = dict(case, ops=ops[:i] + ops[i + 1:])
                if still_fails(c):
                    ops = c["ops"]
                    changed = True
                    break
        return dict(case, ops=ops)


PROP = C39()
