"""C27 — global projection operators (pp.ad.SubdomainProjections / MortarProjections /
BoundaryProjection) are consistent permutations / block placements."""
import json
from fractions import Fraction

import numpy as np

from harness.core import Prop

import porepy as pp

FOREIGN = 900  # identity used for a grid that is not part of the md-grid / constructor list

# md-grid pool: Cartesian md-grids (no gmsh).  2-D with 0-2 fractures (two crossing
# fractures give a 0-d intersection grid), optional refinement of the fracture grids
# (non-matching secondary side: weights 1/2) and of the mortar grids (non-matching on both
# sides); 3-D only in the thorough tier.
H = [[0, 2], [1, 1]]
V = [[1, 1], [0, 2]]
SPECS_2D = [
    {"nx": [2, 1], "fracs": []},
    {"nx": [2, 2], "fracs": [H]},
    {"nx": [3, 2], "fracs": [[[1, 2], [1, 1]]]},
    {"nx": [2, 2], "fracs": [H, V]},
    {"nx": [2, 2], "fracs": [H, V], "refine": True},
    {"nx": [2, 2], "fracs": [H], "refine_mortar": True},
    {"nx": [2, 2], "fracs": [H, V], "refine": True, "refine_mortar": True},
    {"nx": [2, 2], "fracs": [H, V], "refine_mortar": True},
    {"nx": [4, 2], "fracs": [[[0, 4], [1, 1]]], "coarse_mortar": True},
    {"simplex": 0.5},   # gmsh triangles, two crossing fractures (another face numbering)
]
# md-grids whose 1-d mortar grids do not match their neighbours (finer than both: the
# integrating mortar->subdomain weights are 1 and the averaging ones 1/2; coarser than both:
# the other way round; refined fracture: only the secondary side is non-matching)
SPECS_NONMATCHING = [s for s in SPECS_2D
                     if s.get("refine") or s.get("refine_mortar") or s.get("coarse_mortar")]
P1 = [[0, 2, 2, 0], [0, 0, 2, 2], [1, 1, 1, 1]]
P2 = [[1, 1, 1, 1], [0, 2, 2, 0], [0, 0, 2, 2]]
P3 = [[0, 2, 2, 0], [1, 1, 1, 1], [0, 0, 2, 2]]
# hand-built md-grids with codimension-2 interfaces (as fracs/wells_3d.py builds them):
# two separate 2-D grids with one well point each; a fractured 2-D grid with a well point
# (interfaces of codimension 1 and 2 in one md-grid)
SPECS_WELLS = [
    {"hand": "wells2"},
    {"nx": [2, 2], "fracs": [H], "wells": [0, 3]},
]
SPECS_3D = [
    {"nx": [2, 2, 2], "fracs": [P1]},
    {"nx": [2, 2, 2], "fracs": [P1, P2]},
    {"nx": [2, 2, 2], "fracs": [P1, P2, P3]},
]

KINDS = ["mortar_to_primary_int", "mortar_to_primary_avg", "primary_to_mortar_int",
         "primary_to_mortar_avg", "mortar_to_secondary_int", "mortar_to_secondary_avg",
         "secondary_to_mortar_int", "secondary_to_mortar_avg"]
COQ_KIND = {"mortar_to_primary_int": "M2P_int", "mortar_to_primary_avg": "M2P_avg",
            "primary_to_mortar_int": "P2M_int", "primary_to_mortar_avg": "P2M_avg",
            "mortar_to_secondary_int": "M2S_int", "mortar_to_secondary_avg": "M2S_avg",
            "secondary_to_mortar_int": "S2M_int", "secondary_to_mortar_avg": "S2M_avg"}
FLAG_KINDS = ["mortar_to_primary_int", "mortar_to_primary_avg", "mortar_to_secondary_int",
              "mortar_to_secondary_avg"]

_POOL = {}


def _add_well(mdg, gp, cell):
    """A point grid coupled to cell [cell] of [gp] by a codimension-2 interface."""
    from porepy.grids.mortar_grid import MortarSides
    import scipy.sparse as sps
    gp.compute_geometry()
    g0 = pp.PointGrid(gp.cell_centers[:, cell].copy())
    g0.compute_geometry()
    mdg.add_subdomains([g0])
    psm = sps.csc_matrix(([1.0], ([0], [cell])), shape=(1, gp.num_cells))
    mg = pp.MortarGrid(0, {MortarSides.LEFT_SIDE: g0.copy()}, psm, codim=gp.dim)
    mg.compute_geometry()
    mdg.add_interface(mg, (gp, g0), psm)


def _build(spec):
    key = json.dumps(spec, sort_keys=True)
    if key in _POOL:
        return _POOL[key]
    if spec.get("hand") == "wells2":
        ga = pp.CartGrid(np.array([2, 1]))
        gb = pp.CartGrid(np.array([3, 1]))
        gb.nodes[1] += 5.0
        ga.compute_geometry()
        gb.compute_geometry()
        mdg = pp.MixedDimensionalGrid()
        mdg.add_subdomains([ga, gb])
        _add_well(mdg, ga, 1)
        _add_well(mdg, gb, 2)
    elif spec.get("simplex"):
        mdg, _ = pp.mdg_library.square_with_orthogonal_fractures(
            "simplex", {"cell_size": spec["simplex"]}, fracture_indices=[0, 1])
    else:
        fr = [np.array(f, dtype=float) for f in spec["fracs"]]
        mdg = pp.meshing.cart_grid(fr, np.array(spec["nx"]))
        for cell in spec.get("wells", []):
            _add_well(mdg, mdg.subdomains(dim=mdg.dim_max())[0], cell)
    if spec.get("refine"):
        for g in mdg.subdomains(dim=mdg.dim_max() - 1):
            if g.dim == 1:
                mdg.replace_subdomains_and_interfaces({g: pp.refinement.refine_grid_1d(g, ratio=2)})
    if spec.get("refine_mortar"):
        for intf in mdg.interfaces(dim=1):
            new = {s: pp.refinement.refine_grid_1d(g, ratio=2) for s, g in intf.side_grids.items()}
            intf.update_mortar(new, 1e-4)
    if spec.get("coarse_mortar"):
        for intf in mdg.interfaces(dim=1):
            new = {s: pp.refinement.remesh_1d(g, g.num_cells // 2 + 1)
                   for s, g in intf.side_grids.items()}
            intf.update_mortar(new, 1e-4)
    mdg.compute_geometry()
    mdg.set_boundary_grid_projections()
    foreign = pp.CartGrid(np.array([2, 1]))
    foreign.compute_geometry()
    rec = {"mdg": mdg, "sds": mdg.subdomains(), "ifs": mdg.interfaces(), "foreign": foreign}
    rec["sd_index"] = {g: i for i, g in enumerate(rec["sds"])}
    rec["eqs"] = pp.ad.EquationSystem(mdg)
    _POOL[key] = rec
    return rec


def _mat(m, keep_zeros=False):
    """Canonical form of a scipy matrix: shape + sorted coordinate list with exact values."""
    c = m.tocoo(copy=True)
    if not keep_zeros:
        c.sum_duplicates()
        c.eliminate_zeros()
    ents = []
    for i, j, v in zip(c.row, c.col, c.data):
        fr = Fraction(float(v))
        ents.append([int(i), int(j), fr.numerator, fr.denominator])
    ents.sort()
    return {"shape": [int(m.shape[0]), int(m.shape[1])], "ents": ents}


def _dense(o):
    a = np.zeros(o["shape"])
    for i, j, n, d in o["ents"]:
        a[i, j] += n / d
    return a


def _value(op, rec, via):
    """The sparse matrix of an AD operator: op.parse(mdg), EquationSystem.evaluate(op) or
    op.value(equation_system)."""
    if via == "evaluate":
        return rec["eqs"].evaluate(op)
    if via == "value":
        return op.value(rec["eqs"])
    return op.parse(rec["mdg"])


def _grid_rec(g):
    return [int(g.dim), int(g.num_cells), int(g.num_faces)]


# ---------------------------------------------------------------------- Coq literals
def _cm(o):
    return ("(zmat %d %d [%s])" % (o["shape"][0], o["shape"][1],
                                  "; ".join("(%d,%d,%d,%d)" % tuple(e) for e in o["ents"])))


def _cres(o):
    if "err" in o:
        return "(Err %s)" % o["err"]
    return "(Ok %s)" % _cm(o)


def _cgrid(i, rec):
    return "(zgrid (%d,%d,%d,%d))" % (i, rec[0], rec[1], rec[2])


def _cl(items):
    return "[" + "; ".join(items) + "]"


class C27(Prop):
    id = "C27"
    props_file = "Props/C27.v"
    preamble = ("From Coq Require Import List ZArith QArith.\nImport ListNotations.\n"
                "From PP Require Import Model.C27 Model.C27_ext.\nLocal Open Scope Z_scope.\n")
    n_cases = (180, 3000)
    design_ref = "DESIGN.md §5 C27"
    level_text = (
        "Coq theorems (28, closed under the global context) over an executable transcription of "
        "_cell_projections/_face_projections (offset bookkeeping incl. expand_indices_nd and the "
        "dim>0 face-offset rule), SubdomainProjections, MortarProjections "
        "(_construct_projection as repaired, the eight cached accessors with their shared / "
        "separate cache attributes, sign_of_mortar_sides), BoundaryProjection (incl. "
        "BoundaryGrid.projection), Trace and Divergence: for every constructor list of distinct "
        "grids (0-d grids without faces included), every vector dimension >= 1 and every "
        "requested list in any order, restriction = selection of the grids' global index blocks "
        "(offsets follow the constructor list, rows the request), prolongation = its transpose; "
        "for requests without repetition restriction o prolongation = identity and prolongation "
        "o restriction = indicator of the listed blocks; for a reordering of the full list the "
        "stacked prolongations hit every global index exactly once; mortar projections of any "
        "interface list of one codimension (1 or 2) are the per-interface matrices shifted to "
        "(mortar offset, subdomain offset) of their block, zero blocks for unlisted subdomains; "
        "for EVERY call history over the eight cached accessors each call returns its own "
        "construction or, only on a side whose flag says conforming, the twin flavour's (flags "
        "proved equivalent to 'all int and avg weights within 1e-10+1e-5 of 1'); boundary "
        "projections compose to the identity / the boundary-face indicator, and for arbitrary "
        "lists (grids without boundary grid) the result is characterised incl. the stale block; "
        "Trace / Divergence place the per-grid operators at the projections' offsets; error "
        "branches (repeated grid, unknown grid, non-list argument, mixed codimension, missing "
        "boundary grid, vector Trace, empty Divergence) covered.  The model is tied to the code "
        "on every run: the real operators (through SparseArray.parse, EquationSystem.evaluate "
        "or Operator.value) on small md-grids for random sub-lists and orders, dim 1-4, are "
        "compared entry by entry with the model inside Coq.")
    level_note = (
        "Trusted: Coq kernel + vm_compute; harness (generator, literal emission); sparse "
        "matrices are modelled as shape + coordinate list (storage format not modelled); "
        "per-interface MortarGrid projections and per-grid Grid.trace/Grid.divergence are inputs "
        "(C26 covers the former); floating point enters only as multiplication of weights by "
        "1.0.  The int/avg accessors of a side classified conforming (np.allclose(data, 1): "
        "tolerance 1e-5) share one cache attribute, so the second flavour called returns the "
        "first one's matrix: C27_mortar_cached_calls states exactly this without guard "
        "(C27_mortar_cached_calls_partial is the older guarded form, _refuted its "
        "counter-model); that the two flavours then agree to rounding is a property of "
        "MortarGrid's normalised weights (C26), not proved here.  A listed grid that is not in "
        "the md-grid makes BoundaryProjection repeat the previous block "
        "(C27_boundary_general; C27_boundary_stale_refuted shows claim (4) fails there) - "
        "outside the property (grids of the md-grid), so no finding.  Divergence([]) raises "
        "ValueError (np.concatenate of nothing) while Trace([]) is 0x0: modelled, not part of "
        "the property.  The theorems are about the model; the code is covered on the generated "
        "md-grids only.  Defect found and repaired (/repo cf2359aed): zero blocks of "
        "codimension-2 interfaces were sized by faces.")
    technique = ("Coq proof (list/offset lemmas over coordinate lists, lia) + vm_compute "
                 "execution correspondence on the real scipy matrices")
    rule = ("md-grids: Cartesian 2-D with 0-2 fractures incl. a crossing with a 0-d grid, "
            "refined fracture grids, mortar grids finer / coarser than both neighbours "
            "(non-unit weights), a gmsh triangle grid with crossing fractures, hand-built "
            "codimension-2 (well) md-grids, 3-D with 1-3 fracture planes in the thorough tier; "
            "random constructor lists, requested sub-lists and orders of subdomains / "
            "interfaces, dim 1-4 (python int or numpy integer), lists or tuples for the "
            "constructors; empty and single-grid lists; operators evaluated through parse / "
            "EquationSystem.evaluate / Operator.value; histories of accessor calls on one "
            "SubdomainProjections object (incl. tuples instead of lists); a call-order stream "
            "requesting both flavours of every mortar direction from one object in both orders on "
            "non-matching md-grids; Trace, Divergence and BoundaryGrid.projection; corner "
            "stream: grids missing from the constructor list (KeyError), repeated grids "
            "(ValueError / repeated rows), a subdomain without boundary grid (stale block / "
            "UnboundLocalError), mixed codimensions; non-trivial = at least two listed grids or "
            "dim > 1; distinct by (case, output)")
    trusted = ["a scipy sparse matrix is represented by its shape and coordinate list "
               "(duplicates summed, explicit zeros irrelevant except for np.allclose on .data); "
               "exact dyadic weights (refinement ratio 2)",
               "MortarGrid.<projection>(nd), Grid.trace(nd) and Grid.divergence(nd) matrices of "
               "the listed grids are inputs of the model"]
    assumptions = ["listed grids are distinct objects of one md-grid (the corner stream "
                   "exercises the other cases in the tie only)"]

    # ------------------------------------------------------------------ generation
    def _specs(self, tier):
        return SPECS_2D + SPECS_WELLS + (SPECS_3D if tier == "thorough" else [])

    @staticmethod
    def _sublist(rng, idx, allow_empty=True):
        r = rng.random()
        idx = list(idx)
        if r < 0.12 and allow_empty:
            return []
        if r < 0.3 and idx:
            return [rng.choice(idx)]
        if r < 0.55:
            out = list(idx)
        else:
            out = [i for i in idx if rng.random() < 0.6]
        rng.shuffle(out)
        return out

    def generate(self, rng, n, tier):
        for case in self._generate(rng, n, tier):
            # route through which the operator's matrix is obtained
            case["via"] = rng.choice(["parse", "parse", "evaluate", "value"])
            # the constructors take any Sequence and any integer type for dim
            case["seq"] = rng.choice(["list", "list", "tuple"])
            case["npdim"] = rng.random() < 0.25
            if case["kind"] == "sub":
                case["order"] = rng.sample([0, 1, 2, 3], 4)
            yield case

    def _generate(self, rng, n, tier):
        specs = self._specs(tier)
        for k in range(n):
            spec = rng.choice(specs)
            if tier == "thorough" and len(spec.get("nx", [])) == 3 and rng.random() < 0.5:
                spec = rng.choice(SPECS_2D)   # keep most of the volume on the small grids
            rec = _build(spec)
            nsd, nif = len(rec["sds"]), len(rec["ifs"])
            nd = rng.choice([1, 1, 2, 3, 1, 1, 2, 3, 4])
            r = rng.random()
            q = rng.random()
            if q < 0.1:
                # several accessor calls on ONE SubdomainProjections object (lazily built
                # dictionaries are reused), incl. tuples instead of lists (ValueError)
                all_ = list(range(nsd))
                rng.shuffle(all_)
                if rng.random() < 0.3:
                    all_ = self._sublist(rng, range(nsd))
                ops = []
                for _ in range(rng.randint(2, 5)):
                    req = self._sublist(rng, all_)
                    if rng.random() < 0.08:
                        req = req + [rng.choice([i for i in range(nsd) if i not in all_] + [FOREIGN])]
                    ops.append([rng.choice(["cell_restriction", "cell_prolongation",
                                            "face_restriction", "face_prolongation"]),
                                rng.random() > 0.2, req])
                yield {"kind": "hist", "mdg": spec, "all": all_, "nd": nd, "ops": ops}
                continue
            if 0.26 <= q < 0.3:
                cand = [i for i, g in enumerate(rec["sds"]) if g.dim > 0]
                yield {"kind": "bgproj", "mdg": spec, "sd": rng.choice(cand), "nd": nd}
                continue
            if q < 0.26:
                sds = self._sublist(rng, range(nsd))
                if rng.random() < 0.4:
                    sds = list(range(nsd))
                    rng.shuffle(sds)
                if rng.random() < 0.05 and sds:
                    sds = sds + [rng.choice(sds)]
                if rng.random() < 0.5:
                    yield {"kind": "trace", "mdg": spec, "sds": sds,
                           "nd": 1 if rng.random() < 0.85 else nd}
                else:
                    yield {"kind": "div", "mdg": spec, "sds": sds, "nd": nd}
                continue
            if rng.random() < 0.1:
                # call-order stream: non-matching mortar grids, all grids listed (random
                # order), both flavours of every direction requested from ONE object, each
                # pair in random order
                spec = rng.choice(SPECS_NONMATCHING)
                rec = _build(spec)
                sds = list(range(len(rec["sds"])))
                ifs = [i for i, m in enumerate(rec["ifs"]) if m.dim == 1]
                rng.shuffle(sds)
                rng.shuffle(ifs)
                calls = []
                dirs = ["mortar_to_primary", "primary_to_mortar", "mortar_to_secondary",
                        "secondary_to_mortar"]
                rng.shuffle(dirs)
                for base in dirs[:rng.randint(1, 4)]:
                    pair = [base + "_int", base + "_avg"]
                    rng.shuffle(pair)
                    calls += pair
                yield {"kind": "mortar", "mdg": spec, "sds": sds, "ifs": ifs, "nd": nd,
                       "calls": calls}
                continue
            if r < 0.4:
                all_ = self._sublist(rng, range(nsd), allow_empty=rng.random() < 0.3)
                if rng.random() < 0.5:
                    all_ = list(range(nsd))
                    if rng.random() < 0.6:
                        rng.shuffle(all_)
                req = self._sublist(rng, all_)
                c = rng.random()
                if c < 0.06 and all_:
                    all_ = all_ + [rng.choice(all_)]            # repeated grid: ValueError
                elif c < 0.12:
                    missing = [i for i in range(nsd) if i not in all_] + [FOREIGN]
                    req = req + [rng.choice(missing)]           # unknown grid: KeyError
                    rng.shuffle(req)
                elif c < 0.16 and req:
                    req = req + [rng.choice(req)]               # repeated request: repeated rows
                yield {"kind": "sub", "mdg": spec, "all": all_, "req": req, "nd": nd}
            elif r < 0.75:
                sds = self._sublist(rng, range(nsd))
                if rng.random() < 0.4:
                    sds = list(range(nsd))
                    rng.shuffle(sds)
                ifs = self._sublist(rng, range(nif))
                if len(ifs) > 6:
                    ifs = ifs[:6]
                if rng.random() < 0.05 and ifs:
                    ifs = ifs + [rng.choice(ifs)]
                calls = [rng.choice(KINDS) for _ in range(rng.randint(1, 5))]
                if rng.random() < 0.5:
                    # both flavours of one direction: exercises the shared cache attribute
                    base = rng.choice(["mortar_to_primary", "primary_to_mortar",
                                       "mortar_to_secondary", "secondary_to_mortar"])
                    pair = [base + "_int", base + "_avg"]
                    rng.shuffle(pair)
                    calls = pair + calls[:2]
                yield {"kind": "mortar", "mdg": spec, "sds": sds, "ifs": ifs, "nd": nd,
                       "calls": calls}
            elif r < 0.8:
                ifs = self._sublist(rng, range(nif))[:8]
                yield {"kind": "sign", "mdg": spec, "ifs": ifs, "nd": nd}
            else:
                sds = self._sublist(rng, range(nsd))
                if rng.random() < 0.4:
                    sds = list(range(nsd))
                    rng.shuffle(sds)
                if rng.random() < 0.08:
                    sds.insert(rng.randint(0, len(sds)), FOREIGN)
                yield {"kind": "bnd", "mdg": spec, "sds": sds, "nd": nd}

    # ------------------------------------------------------------------ implementation
    @staticmethod
    def _grids(rec, idx):
        return [rec["foreign"] if i == FOREIGN else rec["sds"][i] for i in idx]

    def run_impl(self, case):
        rec = _build(case["mdg"])
        mdg = rec["mdg"]
        nd = np.int64(case["nd"]) if case.get("npdim") else case["nd"]
        kind = case["kind"]
        out = {}
        seq = tuple if case.get("seq") == "tuple" else list
        if kind == "bgproj":
            g = rec["sds"][case["sd"]]
            bg = mdg.subdomain_to_boundary_grid(g)
            out["grids"] = {str(case["sd"]): _grid_rec(g)}
            out["bnd"] = [int(f) for f in np.where(g.tags["domain_boundary_faces"])[0]]
            out["outs"] = [_mat(bg.projection(nd)), _mat(bg.projection())]
            return out
        if kind == "sub":
            all_ = self._grids(rec, case["all"])
            req = self._grids(rec, case["req"])
            out["grids"] = {str(i): _grid_rec(g) for i, g in
                            zip(case["all"] + case["req"], all_ + req)}
            try:
                sp = pp.ad.SubdomainProjections(seq(all_), nd)
            except ValueError:
                out["outs"] = [{"err": "ValueErr"}]
                return out
            names = ("cell_restriction", "cell_prolongation", "face_restriction",
                     "face_prolongation")
            outs = [None] * 4
            # the four accessors are called in the case's order (the dictionaries are built
            # lazily by whichever comes first) and reported in the fixed order
            for k in case.get("order", [0, 1, 2, 3]):
                try:
                    outs[k] = _mat(_value(getattr(sp, names[k])(list(req)), rec, case.get("via")))
                except KeyError:
                    outs[k] = {"err": "KeyErr"}
            out["outs"] = outs
            return out
        if kind in ("mortar", "sign"):
            sds = self._grids(rec, case.get("sds", []))
            ifs = [rec["ifs"][i] for i in case["ifs"]]
            out["grids"] = {str(i): _grid_rec(g) for i, g in zip(case.get("sds", []), sds)}
            irecs = []
            for i, intf in zip(case["ifs"], ifs):
                p, s = mdg.interface_to_subdomain_pair(intf)
                irecs.append([i, rec["sd_index"][p], rec["sd_index"][s], int(intf.num_cells),
                              int(intf.codim),
                              [int(g.num_cells) for g in intf.side_grids.values()]])
            out["ifs"] = irecs
            mp = pp.ad.MortarProjections(mdg, seq(sds), seq(ifs), nd)
            if kind == "sign":
                out["outs"] = [_mat(_value(mp.sign_of_mortar_sides(), rec, case.get("via")))]
                return out
            needed = sorted(set(case["calls"]) | set(FLAG_KINDS))
            out["locs"] = {k: [_mat(getattr(intf, k)(nd), keep_zeros=True) for intf in ifs]
                           for k in needed}
            outs = []
            for name in case["calls"]:
                try:
                    outs.append(_mat(_value(getattr(mp, name)(), rec, case.get("via"))))
                except ValueError:
                    outs.append({"err": "ValueErr"})
            out["outs"] = outs
            return out
        if kind == "bnd":
            sds = self._grids(rec, case["sds"])
            out["grids"] = {str(i): _grid_rec(g) for i, g in zip(case["sds"], sds)}
            out["bnd"] = {}
            for i, g in zip(case["sds"], sds):
                bg = mdg.subdomain_to_boundary_grid(g)
                out["bnd"][str(i)] = (None if bg is None else
                                      [int(f) for f in np.where(g.tags["domain_boundary_faces"])[0]])
            try:
                bp = pp.ad.BoundaryProjection(mdg, seq(sds), nd)
            except UnboundLocalError:
                out["outs"] = [{"err": "UnboundErr"}, {"err": "UnboundErr"}]
                return out
            out["outs"] = [_mat(_value(bp.subdomain_to_boundary, rec, case.get("via"))),
                           _mat(_value(bp.boundary_to_subdomain, rec, case.get("via")))]
            return out
        if kind == "hist":
            all_ = self._grids(rec, case["all"])
            idx = list(case["all"]) + [i for o in case["ops"] for i in o[2]]
            out["grids"] = {str(i): _grid_rec(g) for i, g in zip(idx, self._grids(rec, idx))}
            try:
                sp = pp.ad.SubdomainProjections(seq(all_), nd)
            except ValueError:
                out["outs"] = [{"err": "ValueErr"}]
                return out
            outs = []
            for name, is_list, req in case["ops"]:
                arg = self._grids(rec, req)
                if not is_list:
                    arg = tuple(arg)
                try:
                    outs.append(_mat(_value(getattr(sp, name)(arg), rec, case.get("via"))))
                except KeyError:
                    outs.append({"err": "KeyErr"})
                except ValueError:
                    outs.append({"err": "ValueErr"})
            out["outs"] = outs
            return out
        if kind in ("trace", "div"):
            sds = self._grids(rec, case["sds"])
            out["grids"] = {str(i): _grid_rec(g) for i, g in zip(case["sds"], sds)}
            if kind == "trace":
                out["locs"] = [_mat(g.trace(nd), keep_zeros=True) for g in sds] if nd == 1 else []
                try:
                    out["outs"] = [_mat(_value(pp.ad.Trace(sds, nd).trace, rec, case.get("via")))]
                except NotImplementedError:
                    out["outs"] = [{"err": "NotImpl"}]
            else:
                out["locs"] = [_mat(g.divergence(nd), keep_zeros=True) for g in sds]
                try:
                    out["outs"] = [_mat(_value(pp.ad.Divergence(sds, nd), rec, case.get("via")))]
                except ValueError:
                    out["outs"] = [{"err": "ValueErr"}]
            return out
        raise ValueError(kind)

    # ------------------------------------------------------------------ oracle
    @staticmethod
    def _in_scope(idx):
        return FOREIGN not in idx and len(set(idx)) == len(idx)

    def oracle(self, case, res):
        kind = case["kind"]
        nd = case["nd"]
        outs = res["outs"]
        if nd > 3:
            return None   # the property speaks of dimensions 1-3 (the tie covers the rest)
        if kind == "hist":
            all_ = case["all"]
            if not self._in_scope(all_):
                return None
            if outs == [{"err": "ValueErr"}] and len(case["ops"]) != 1:
                return "constructor rejected a list of distinct subdomains"
            for (name, is_list, req), o in zip(case["ops"], outs):
                if not is_list or not self._in_scope(req) or any(i not in all_ for i in req):
                    continue
                if "err" in o:
                    return f"{name} raised {o['err']} for a list of known, distinct subdomains"
                which = 1 if name.startswith("cell") else 2
                num = {i: res["grids"][str(i)][which] * nd for i in all_}
                off, tot = {}, 0
                for i in all_:
                    off[i] = tot
                    tot += num[i]
                nloc = sum(num[i] for i in req)
                exp = np.zeros((tot, nloc))
                pos = 0
                for i in req:
                    exp[off[i]:off[i] + num[i], pos:pos + num[i]] = np.eye(num[i])
                    pos += num[i]
                if name.endswith("restriction"):
                    exp = exp.T
                got = _dense(o)
                if got.shape != exp.shape or not np.array_equal(got, exp):
                    return (f"{name} (call on a reused object): not the selection of the "
                            "listed grids' blocks in list order")
            return None
        if kind == "bgproj":
            nf = res["grids"][str(case["sd"])][2]
            for o, d in ((outs[0], nd), (outs[1], 1)):
                exp = np.zeros((len(res["bnd"]) * d, nf * d))
                for k, f in enumerate(res["bnd"]):
                    for j in range(d):
                        exp[k * d + j, f * d + j] = 1
                if not np.array_equal(_dense(o), exp):
                    return "BoundaryGrid.projection is not the selection of the boundary faces"
            return None
        if kind in ("trace", "div"):
            sds = case["sds"]
            if not self._in_scope(sds):
                return None
            o = outs[0]
            if kind == "trace" and nd != 1:
                return None   # documented NotImplementedError (or the empty list)
            if kind == "div" and not sds:
                return None   # np.concatenate of nothing: ValueError (not a projection)
            if "err" in o:
                return f"{kind} raised {o['err']}"
            nc = {i: res["grids"][str(i)][1] * nd for i in sds}
            nf = {i: res["grids"][str(i)][2] * nd for i in sds}
            rnum, cnum = (nf, nc) if kind == "trace" else (nc, nf)
            exp = np.zeros((sum(rnum.values()), sum(cnum.values())))
            ro = co = 0
            for k, i in enumerate(sds):
                exp[ro:ro + rnum[i], co:co + cnum[i]] = _dense(res["locs"][k])
                ro += rnum[i]
                co += cnum[i]
            got = _dense(o)
            if got.shape != exp.shape or not np.array_equal(got, exp):
                return f"{kind}: per-grid operators are not placed at the projections' offsets"
            return None
        if kind == "sub":
            all_, req = case["all"], case["req"]
            if not self._in_scope(all_):
                return None if outs == [{"err": "ValueErr"}] or FOREIGN in all_ else \
                    "a repeated subdomain in the constructor list was accepted"
            if not self._in_scope(req) or any(i not in all_ for i in req):
                return None
            if any("err" in o for o in outs):
                return f"operator raised {outs} for a list of known, distinct subdomains"
            for which, (R, P) in enumerate([(outs[0], outs[1]), (outs[2], outs[3])]):
                num = {i: res["grids"][str(i)][1 + which] * nd for i in all_}
                off, tot = {}, 0
                for i in all_:
                    off[i] = tot
                    tot += num[i]
                nloc = sum(num[i] for i in req)
                R, P = _dense(R), _dense(P)
                nm = "cell" if which == 0 else "face"
                if R.shape != (nloc, tot) or P.shape != (tot, nloc):
                    return f"{nm}: shapes {R.shape} {P.shape}, expected ({nloc},{tot}) and transpose"
                if not np.array_equal(R @ P, np.eye(nloc)):
                    return f"{nm}: restriction o prolongation is not the identity"
                ind = np.zeros(tot)
                for i in req:
                    ind[off[i]:off[i] + num[i]] = 1
                if not np.array_equal(P @ R, np.diag(ind)):
                    return f"{nm}: prolongation o restriction is not the indicator of the listed blocks"
                # list order: local block k of the stacked vector <-> global block of req[k]
                exp = np.zeros((tot, nloc))
                pos = 0
                for i in req:
                    exp[off[i]:off[i] + num[i], pos:pos + num[i]] = np.eye(num[i])
                    pos += num[i]
                if not np.array_equal(P, exp):
                    return f"{nm}: prolongation does not place the listed grids' blocks in list order"
                if sorted(req) == sorted(all_):
                    if not (np.array_equal(P.sum(axis=0), np.ones(tot))
                            and np.array_equal(P.sum(axis=1), np.ones(tot))):
                        return f"{nm}: prolongation from all grids is not a permutation"
            return None
        if kind == "mortar":
            sds, ifs = case["sds"], case["ifs"]
            if not self._in_scope(sds):
                return None
            codims = {r[4] for r in res["ifs"]}
            if len(codims) > 1:
                return None   # documented ValueError (mixed codimensions)
            irecs = res["ifs"]
            moff, mtot = [], 0
            for r in irecs:
                moff.append(mtot)
                mtot += r[3] * nd
            for name, o in zip(case["calls"], outs):
                if "err" in o:
                    return f"{name} raised {o['err']}"
                primary = "primary" in name
                to_mortar = name.startswith(("primary_to", "secondary_to"))
                # faces for the primary side of codim-1 interfaces (and of an empty interface list), else cells
                w = 2 if primary and codims != {2} else 1
                num = {i: res["grids"][str(i)][w] * nd for i in sds}
                off, tot = {}, 0
                for i in sds:
                    off[i] = tot
                    tot += num[i]
                exp = np.zeros((mtot, tot)) if to_mortar else np.zeros((tot, mtot))
                for k, r in enumerate(irecs):
                    sd = r[1] if primary else r[2]
                    if sd not in sds:
                        continue
                    L = _dense(res["locs"][name][k])
                    if to_mortar:
                        exp[moff[k]:moff[k] + r[3] * nd, off[sd]:off[sd] + num[sd]] += L
                    else:
                        exp[off[sd]:off[sd] + num[sd], moff[k]:moff[k] + r[3] * nd] += L
                got = _dense(o)
                if got.shape != exp.shape:
                    return f"{name}: shape {got.shape}, expected {exp.shape}"
                if not np.allclose(got, exp, rtol=0, atol=1e-12):
                    return f"{name}: not the per-interface projections at the global offsets"
            return None
        if kind == "sign":
            return None   # covered by the tie (block-diagonal glue); not part of the property's claims
        if kind == "bnd":
            sds = case["sds"]
            if not self._in_scope(sds):
                return None
            if any("err" in o for o in outs):
                return f"BoundaryProjection raised {outs[0]}"
            S, B = _dense(outs[0]), _dense(outs[1])
            nf = {i: res["grids"][str(i)][2] * nd for i in sds}
            off, tot = {}, 0
            for i in sds:
                off[i] = tot
                tot += nf[i]
            ind = np.zeros(tot)
            nb = 0
            for i in sds:
                for f in (res["bnd"][str(i)] or []):
                    ind[off[i] + f * nd: off[i] + (f + 1) * nd] = 1
                    nb += nd
            if S.shape != (nb, tot) or B.shape != (tot, nb):
                return f"boundary projection shapes {S.shape} {B.shape}, expected ({nb},{tot})"
            if not np.array_equal(S @ B, np.eye(nb)):
                return "subdomain_to_boundary o boundary_to_subdomain is not the identity"
            if not np.array_equal(B @ S, np.diag(ind)):
                return "boundary_to_subdomain o subdomain_to_boundary is not the boundary-face indicator"
            # order of the boundary values: listed subdomains in list order, faces ascending
            rows = []
            for i in sds:
                for f in (res["bnd"][str(i)] or []):
                    rows += [off[i] + f * nd + d for d in range(nd)]
            exp = np.zeros((nb, tot))
            exp[np.arange(nb), rows] = 1
            if not np.array_equal(S, exp):
                return "boundary values are not ordered by the listed subdomains / boundary faces"
            return None
        return None

    # ------------------------------------------------------------------ Coq side
    def coq_case(self, case, res):
        kind = case["kind"]
        nd = case["nd"]
        G = res.get("grids", {})
        outs = _cl(_cres(o) for o in res["outs"])
        if kind == "sub":
            all_ = _cl(_cgrid(i, G[str(i)]) for i in case["all"])
            req = _cl(_cgrid(i, G[str(i)]) for i in case["req"])
            return f"all_res_eqb (sp_case {all_} {req} (Z.to_nat {nd})) {outs}"
        if kind in ("mortar", "sign"):
            ifs = _cl("(zintf (%d,%d,%d,%d,%d,[%s]))" % (r[0], r[1], r[2], r[3], r[4],
                                                         ";".join(str(x) for x in r[5]))
                      for r in res["ifs"])
            if kind == "sign":
                return (f"all_res_eqb [Ok (sign_of_mortar_sides {ifs} (Z.to_nat {nd}))] {outs}")
            sds = _cl(_cgrid(i, G[str(i)]) for i in case["sds"])
            arms = " ".join("| %s => %s" % (COQ_KIND[k], _cl(_cm(m) for m in v))
                            for k, v in sorted(res["locs"].items()))
            loc = f"(fun k => match k with {arms} | _ => [] end)" if len(res["locs"]) < 8 \
                else f"(fun k => match k with {arms} end)"
            calls = _cl(COQ_KIND[k] for k in case["calls"])
            return (f"all_res_eqb (mp_run (mp_init {sds} {ifs} (Z.to_nat {nd}) {loc}) {calls}) "
                    f"{outs}")
        if kind == "bgproj":
            nf = G[str(case["sd"])][2]
            bnd = "(map Z.to_nat [%s])" % ";".join(str(x) for x in res["bnd"])
            return (f"mat_eqb (kron_eye (bg_projections {bnd} (Z.to_nat {nf})) (Z.to_nat {nd})) "
                    f"{_cm(res['outs'][0])} && "
                    f"mat_eqb (kron_eye (bg_projections {bnd} (Z.to_nat {nf})) 1) {_cm(res['outs'][1])}")
        if kind == "hist":
            all_ = _cl(_cgrid(i, G[str(i)]) for i in case["all"])
            ops = _cl("%s %s %s %s" % ("SpRestr" if name.endswith("restriction") else "SpProl",
                                       "Cells" if name.startswith("cell") else "Faces",
                                       "true" if is_list else "false",
                                       _cl(_cgrid(i, G[str(i)]) for i in req))
                      for name, is_list, req in case["ops"])
            return f"all_res_eqb (sp_history {all_} (Z.to_nat {nd}) {ops}) {outs}"
        if kind in ("trace", "div"):
            o = res["outs"][0]
            xo = ("XNotImpl" if o.get("err") == "NotImpl" else
                  "(XErr %s)" % o["err"] if "err" in o else "(XOk %s)" % _cm(o))
            locs = _cl(_cm(m) for m in res["locs"])
            if kind == "trace":
                sds = _cl(_cgrid(i, G[str(i)]) for i in case["sds"])
                return f"xres_eqb (trace_op {sds} (Z.to_nat {nd}) {locs}) {xo}"
            return f"xres_eqb (of_res (divergence_op {locs})) {xo}"
        if kind == "bnd":
            def b(i):
                l = res["bnd"][str(i)]
                g = G[str(i)]
                bl = "None" if l is None else "(Some [%s])" % ";".join(str(x) for x in l)
                return "(zbgrid (%d,%d,%d,%d,%s))" % (i, g[0], g[1], g[2], bl)
            bgs = _cl(b(i) for i in case["sds"])
            return (f"all_res_eqb [subdomain_to_boundary {bgs} (Z.to_nat {nd}); "
                    f"boundary_to_subdomain {bgs} (Z.to_nat {nd})] {outs}")
        return None

    def coq_diag(self, case, res):
        t = self.coq_case(case, res)
        if t and t.startswith("all_res_eqb "):
            # print the model's side only
            body = t[len("all_res_eqb "):]
            depth, i = 0, 0
            for i, ch in enumerate(body):
                depth += ch in "(["
                depth -= ch in ")]"
                if depth == 0 and i > 0:
                    break
            return body[:i + 1]
        return None

    def nontrivial(self, case, res):
        n = len(case.get("req", case.get("sds", case.get("ifs", case.get("ops", [])))))
        return (n >= 2 or case["nd"] > 1) and not any("err" in o for o in res["outs"])

    def finding_key(self, case, res, why):
        return "projection-mismatch-" + case["kind"]

    def shrink(self, case, still_fails):
        cur = dict(case)
        for fld in ("ops", "req", "all", "sds", "ifs", "calls"):
            if fld not in cur:
                continue
            changed = True
            while changed and len(cur[fld]) > 0:
                changed = False
                for i in range(len(cur[fld])):
                    c = dict(cur)
                    c[fld] = cur[fld][:i] + cur[fld][i + 1:]
                    if fld == "all" and "req" in c:
                        c["req"] = [x for x in c["req"] if x in c["all"]]
                    if fld == "all" and "ops" in c:
                        c["ops"] = [[o[0], o[1], [x for x in o[2] if x in c["all"]]]
                                    for o in c["ops"]]
                    if still_fails(c):
                        cur = c
                        changed = True
                        break
        if cur["nd"] > 1:
            c = dict(cur, nd=1)
            if still_fails(c):
                cur = c
        return cur


PROP = C27()
