"""C42 — phase saturations, fractional chain rule, row normalisation."""
from fractions import Fraction as Fr

import numpy as np

from harness.core import Prop, cq, clist

from porepy.compositional.utils import (
    chainrule_fractional_derivatives,
    compute_saturations,
    normalize_rows,
)

TOL = Fr(1, 10**9)
EPS = 1e-10


def _fr(v):
    return Fr(v[0], v[1])


def _pack(x):
    x = Fr(x)
    return [x.numerator, x.denominator]


def _close(a, b, tol=TOL):
    return abs(a - b) <= tol * (1 + abs(b))


def _q(v):
    return cq(_fr(v))


def _out(o):
    if o[0] == "vals":
        return "(OVals " + clist(o[1], lambda v: cq(Fr(v))) + ")"
    return f"(OErr {o[1]})"


class C42(Prop):
    id = "C42"
    props_file = "Props/C42.v"
    preamble = ("From Coq Require Import List ZArith QArith.\nImport ListNotations.\n"
                "From PP Require Import Model.C42.\n")
    n_cases = (400, 8000)
    design_ref = "DESIGN.md §5 C42"
    level_text = (
        "Coq theorems over the reals (any number of phases, lists of arbitrary length) about the "
        "R-instance of one polymorphic transcription of compute_saturations / "
        "chainrule_fractional_derivatives / normalize_rows: for fractions on the simplex and "
        "positive densities the closed form s_j = (y_j/rho_j)/sum_k(y_k/rho_k) is non-negative, "
        "sums to one and reproduces y as density-weighted saturation ratios; it solves the linear "
        "system the code assembles and is its ONLY solution (C42_n_phase_unique), so under the "
        "contract of np.linalg.solve the whole n>=3-phase call returns it, vanished phases (exact "
        "zeros) included (C42_n_phase_call); the two-phase call returns it (C42_two_phase_call); "
        "a saturated phase (y_j >= 1-eps) yields the indicator vector, which is non-negative, sums "
        "to one and deviates from y by at most eps (C42_saturated_phase); every entry of the "
        "chain-rule matrix is the partial derivative of x_i/sum(x) (Coquelicot is_derive), the "
        "code returns gradient x Jacobian and that is the derivative of the composed function "
        "f(normalize(x)) for every differentiable outer function (C42_chainrule_composed); "
        "normalised rows sum to one. Transfer theorems (C42_transfer_*) show that the Q instance "
        "executed by the tie and the R instance of the theorems coincide through Q2R. The "
        "Q-instance is executed inside Coq against the real code on every run, outputs compared "
        "within 1e-9.")
    level_note = (
        "Not proved: that np.linalg.solve returns a solution when one exists (explicit premise of "
        "C42_n_phase_call; the tie uses exact Gauss-Jordan elimination as stand-in and also "
        "compares the code's output with the closed form inside Coq); floating-point rounding. "
        "'Differentiable outer function' in C42_chainrule_composed means: obeys the chain rule "
        "along every componentwise differentiable curve through the normalised point (shown for "
        "affine functions, C42_affine_differentiable; implied by Frechet differentiability, not "
        "re-proved). Fractions in (0, eps] are dropped by the code like exact zeros: the result "
        "then deviates from the closed form by O(eps) (theorems require 0 or > eps); the generator "
        "uses 2^-50 there and the 1e-9 band absorbs it.")
    technique = ("Coq proof over R (list induction, field/lra/nra, Coquelicot is_derive, Q2R "
                 "transfer) + vm_compute execution correspondence of the Q-instance")
    rule = ("fractions on the simplex as dyadic rationals for 1-5 phases with exact-zero, tiny "
            "(2^-50) and saturated (1, 1-2^-40) phases, densities dyadic in [1/4,64] times one "
            "exact power-of-two scale 2^-30..2^30, 1-D calls and vectorised calls with 1-3 "
            "different columns (every column compared; inputs checked unmodified), "
            "multi-saturated error inputs; chain-rule inputs: integer "
            "gradients (not all zero) with 0-3 leading non-fraction entries and fractions that "
            "are 45% already normalised (dyadic, sum EXACTLY one, incl. zero and saturated "
            "components), 15% within 2^-45 of sum one, 40% general positive dyadics; matrices "
            "with positive dyadic rows for normalize_rows; non-trivial = a "
            "saturation case with >= 3 present phases (linear solve) or a chain-rule case with "
            ">= 2 components; distinct by (case, output)")
    trusted = ["np.linalg.solve returns a solution of the assembled system whenever one exists "
               "(premise of C42_n_phase_call)",
               "outputs compared with |impl-model| <= 1e-9(1+|model|) inside Coq"]
    assumptions = ["densities > 0; fractions >= 0 summing to one, each 0 or > eps; eps = 1e-10 "
                   "(default), theorems for 0 < eps < 1/2"]

    # ---------------------------------------------------------------- generation
    def _simplex(self, rng, n):
        mode = rng.random()
        k = rng.choice([3, 4, 6, 8])
        tot = 2 ** k
        if n == 1:
            return [Fr(1)], "single"
        if mode < 0.12:      # exactly saturated
            y = [Fr(0)] * n
            y[rng.randrange(n)] = Fr(1)
            return y, "saturated"
        if mode < 0.2:       # saturated up to 2^-40
            y = [Fr(0)] * n
            i, j = rng.sample(range(n), 2)
            y[i] = 1 - Fr(1, 2 ** 40)
            y[j] = Fr(1, 2 ** 40)
            return y, "saturated"
        present = n if mode < 0.6 else rng.randint(2, n)
        idx = rng.sample(range(n), present)
        cuts = sorted(rng.sample(range(1, tot), present - 1)) if present > 1 else []
        parts = [b - a for a, b in zip([0] + cuts, cuts + [tot])]
        y = [Fr(0)] * n
        for i, p in zip(idx, parts):
            y[i] = Fr(p, tot)
        kind = "mixed"
        if present < n and rng.random() < 0.3:   # a tiny but non-zero vanished phase
            j = [i for i in range(n) if i not in idx][0]
            big = max(idx, key=lambda i: y[i])
            y[j] = Fr(1, 2 ** 50)
            y[big] -= Fr(1, 2 ** 50)
            kind = "tiny"
        return y, kind

    def _simplex_exact(self, rng, n):
        """Dyadic point of the simplex (sum exactly one) for the chain-rule cases."""
        if n == 1:
            return [Fr(1)], "single"
        if rng.random() < 0.15:
            y = [Fr(0)] * n
            y[rng.randrange(n)] = Fr(1)
            return y, "saturated"
        tot = 2 ** rng.choice([2, 3, 4, 6])
        present = rng.randint(2, n) if rng.random() < 0.3 else n
        present = min(present, tot)
        idx = rng.sample(range(n), present)
        cuts = sorted(rng.sample(range(1, tot), present - 1))
        parts = [b - a for a, b in zip([0] + cuts, cuts + [tot])]
        y = [Fr(0)] * n
        for i, p in zip(idx, parts):
            y[i] = Fr(p, tot)
        return y, "mixed"

    def generate(self, rng, n, tier):
        for _ in range(n):
            r = rng.random()
            if r < 0.6:
                nph = rng.choice([1, 2, 2, 3, 3, 3, 4, 4, 5, 5])
                if rng.random() < 0.05 and nph >= 2:
                    y = [Fr(0)] * nph
                    i, j = rng.sample(range(nph), 2)
                    y[i] = y[j] = Fr(1)
                    kind = "multi-saturated"
                else:
                    y, kind = self._simplex(rng, nph)
                # densities: dyadic, common exact power-of-two scale over many orders of magnitude
                scale = Fr(2) ** rng.choice([0, 0, 0, -30, -12, 10, 30])
                rho = [Fr(rng.randint(1, 256), 4) * scale for _ in range(nph)]
                two_d = rng.random() < 0.5
                extra = []
                if two_d and kind != "multi-saturated" and rng.random() < 0.6:
                    # further columns of the same vectorised call (each compared on its own)
                    for _c in range(rng.randint(1, 2)):
                        y2, k2 = self._simplex(rng, nph)
                        rho2 = [Fr(rng.randint(1, 256), 4) * scale for _ in range(nph)]
                        extra.append({"y": [_pack(v) for v in y2], "rho": [_pack(v) for v in rho2],
                                      "sub": k2})
                yield {"kind": "sat", "sub": kind, "y": [_pack(v) for v in y],
                       "rho": [_pack(v) for v in rho], "two_d": two_d, "extra": extra}
            elif r < 0.85:
                nc = rng.randint(1, 5)
                lead = rng.randint(0, 3)
                df = [rng.randint(-10, 10) for _ in range(lead + nc)]
                if all(v == 0 for v in df[lead:]):
                    df[lead + rng.randrange(nc)] = rng.choice([-7, 3, 5])
                q = rng.random()
                if q < 0.45:
                    # already normalised fractions: the sum is EXACTLY one (dyadic simplex,
                    # incl. zero components and a saturated component)
                    x, _ = self._simplex_exact(rng, nc)
                    sub = "unit-sum"
                elif q < 0.6:
                    # within 1e-13 of one (2^-45 ~ 2.8e-14 off)
                    x, _ = self._simplex_exact(rng, nc)
                    big = max(range(nc), key=lambda i: x[i])
                    x[big] += rng.choice([-1, 1]) * Fr(1, 2 ** 45)
                    sub = "near-unit-sum"
                else:
                    x = [Fr(rng.randint(2, 32), 8) for _ in range(nc)]
                    sub = "general"
                yield {"kind": "chain", "sub": sub, "df": df, "x": [_pack(v) for v in x],
                       "two_d": rng.random() < 0.5}
            else:
                rows, cols = rng.randint(1, 4), rng.randint(1, 5)
                m = [[_pack(Fr(rng.randint(1, 64), 8)) for _ in range(cols)] for _ in range(rows)]
                yield {"kind": "norm", "m": m}

    # ---------------------------------------------------------------- implementation
    def run_impl(self, case):
        if case["kind"] == "sat":
            cols = [case] + list(case.get("extra", []))
            y = np.array([[float(_fr(v)) for v in c["y"]] for c in cols]).T
            rho = np.array([[float(_fr(v)) for v in c["rho"]] for c in cols]).T
            if not case["two_d"]:
                y, rho = y[:, 0].copy(), rho[:, 0].copy()
            y0, rho0 = y.copy(), rho.copy()
            try:
                s = compute_saturations(y, rho)
                assert np.array_equal(y, y0) and np.array_equal(rho, rho0), "inputs modified"
                s = np.asarray(s).reshape(len(case["y"]), -1)
                return {"out": ["vals", [float(v) for v in s[:, 0]]],
                        "extra_out": [[float(v) for v in s[:, k]] for k in range(1, s.shape[1])]}
            except ValueError:
                return {"out": ["err", "ValueErr"]}
            except AssertionError:
                return {"out": ["err", "AssertErr"]}
        if case["kind"] == "chain":
            df = np.array([float(v) for v in case["df"]])
            x = np.array([float(_fr(v)) for v in case["x"]])
            if case["two_d"]:
                df, x = df.reshape(-1, 1), x.reshape(-1, 1)
            df0 = df.copy()
            try:
                r = chainrule_fractional_derivatives(df, x)
            except ValueError:
                return {"out": ["err", "ValueErr"]}
            assert np.array_equal(df, df0), "input gradient was modified in place"
            return {"out": ["vals", [float(v) for v in np.asarray(r).ravel()]]}
        m = np.array([[float(_fr(v)) for v in row] for row in case["m"]])
        r = normalize_rows(m)
        return {"out": [[float(v) for v in row] for row in r]}

    # ---------------------------------------------------------------- oracle
    def oracle(self, case, res):
        if case["kind"] == "sat":
            if case["sub"] == "multi-saturated":
                return None
            if res["out"][0] == "err":
                return f"compute_saturations raised {res['out'][1]} for fractions on the simplex"
            for c, o in zip(case.get("extra", []), res.get("extra_out", [])):
                w = self._sat_column(c["y"], c["rho"], o)
                if w:
                    return "additional column of the vectorised call: " + w
            return self._sat_column(case["y"], case["rho"], res["out"][1])
        if case["kind"] == "chain":
            return self._chain_oracle(case, res)
        for i, row in enumerate(res["out"]):
            if not _close(sum(Fr(v) for v in row), Fr(1)):
                return f"normalised row {i} sums to {sum(row)!r}"
        return None

    def _sat_column(self, yv, rhov, out):
        if True:
            y = [_fr(v) for v in yv]
            rho = [_fr(v) for v in rhov]
            s = [Fr(v) for v in out]
            if len(s) != len(y):
                return "wrong number of saturations"
            if any(v < -TOL for v in s):
                return f"negative saturation {[float(v) for v in s]}"
            if not _close(sum(s), Fr(1)):
                return f"saturations sum to {float(sum(s))!r}"
            tot = sum(r * v for r, v in zip(rho, s))
            for j in range(len(y)):
                back = rho[j] * s[j] / tot
                if abs(back - y[j]) > TOL:
                    return (f"phase {j}: rho_j s_j / sum rho s = {float(back)!r} but y_j = "
                            f"{float(y[j])!r}")
            return None

    def _chain_oracle(self, case, res):
        if True:
            if res["out"][0] == "err":
                return None
            df = [Fr(v) for v in case["df"]]
            x = [_fr(v) for v in case["x"]]
            nc, lead = len(x), len(df) - len(x)
            out = [Fr(v) for v in res["out"][1]]
            if out[:lead] != df[:lead]:
                return "derivatives w.r.t. the non-fraction variables were changed"
            g = df[lead:]

            def F(xx):   # outer function linear in the normalised fractions
                s = sum(xx)
                return sum(gi * xi / s for gi, xi in zip(g, xx))

            e = Fr(1, 2 ** 20)
            for j in range(nc):
                xp = list(x); xp[j] += e
                xm = list(x); xm[j] -= e
                fd = (F(xp) - F(xm)) / (2 * e)
                if not _close(out[lead + j], fd, Fr(1, 10 ** 6)):
                    return (f"d/dx_{j} of the composed function: chain rule gives "
                            f"{float(out[lead + j])!r}, central difference {float(fd)!r}")
            return None

    # ---------------------------------------------------------------- tie
    def coq_case(self, case, res):
        if case["kind"] == "sat":
            t = (f"agree_sat {clist(case['y'], _q)} {clist(case['rho'], _q)} {cq(Fr(EPS))} "
                 f"{_out(res['out'])}")
            if case["sub"] == "mixed" and res["out"][0] == "vals":
                t = (f"({t}) && agree_closed {clist(case['y'], _q)} {clist(case['rho'], _q)} "
                     f"{clist(res['out'][1], lambda v: cq(Fr(v)))}")
            for c, o in zip(case.get("extra", []), res.get("extra_out", [])):
                t = (f"({t}) && agree_sat {clist(c['y'], _q)} {clist(c['rho'], _q)} {cq(Fr(EPS))} "
                     f"{_out(['vals', o])}")
            if len(case.get("extra", [])) != len(res.get("extra_out", [])) and res["out"][0] == "vals":
                t = f"({t}) && false"
            return t
        if case["kind"] == "chain":
            return (f"agree_chain {clist(case['df'], lambda v: cq(Fr(v)))} {clist(case['x'], _q)} "
                    f"{_out(res['out'])}")
        return (f"agree_norm {clist(case['m'], lambda r: clist(r, _q))} "
                f"{clist(res['out'], lambda r: clist(r, lambda v: cq(Fr(v))))}")

    def coq_diag(self, case, res):
        if case["kind"] == "sat":
            return f"sat_Q {clist(case['y'], _q)} {clist(case['rho'], _q)} {cq(Fr(EPS))}"
        if case["kind"] == "chain":
            return f"chainrule_Q {clist(case['df'], lambda v: cq(Fr(v)))} {clist(case['x'], _q)}"
        return f"normalize_rows_Q {clist(case['m'], lambda r: clist(r, _q))}"

    def nontrivial(self, case, res):
        if case["kind"] == "sat":
            return sum(1 for v in case["y"] if _fr(v) > Fr(EPS)) >= 3 and case["sub"] != "saturated"
        if case["kind"] == "chain":
            return len(case["x"]) >= 2
        return False

    def finding_key(self, case, res, why):
        return case["kind"] + "-inconsistent"


PROP = C42()
