"""C10 — the simulation driver keeps the solution state consistent across failed solves.

A REAL nonlinear porepy model (compressible single-phase flow on a 2-6 cell Cartesian grid,
``pp.SinglePhaseFlow`` subclass) is run through the real ``pp.run_time_dependent_model`` with
the real ``pp.NewtonSolver`` and an adaptive ``pp.TimeManager``.  The subclass overrides only
``_is_nonlinear_problem`` (-> True), ``check_convergence`` (follows an injected pattern keyed
by (solve number, iteration)), the geometry / boundary / initial data and the two index
properties (``iterate_indices``, ``time_step_indices``).  Everything else is instrumented from
outside by wrapping bound methods: every Newton increment, the stored iterate / time-step
dictionaries after every hook, the clock after every hook, the final state.

Coq replays the same verdict pattern with the logged increments on the product model
(PP.Model.C10 = C08 storage x C09 clock x Newton loop; binary64 instance) and must reproduce
every stored vector and every clock state bit for bit.  The oracle evaluates the property's
three claims directly on the logged run.
"""
import os
import warnings

import numpy as np

from harness.core import Prop, CACHE, cz, cfloat, clist, coption, cbool

import porepy as pp
from porepy.applications.md_grids.model_geometries import SquareDomainOrthogonalFractures
from porepy.numerics.nonlinear import line_search as _line_search

# ---------------------------------------------------------------------------------------
# TimeManager glue (same conventions as the C09 check: error enum <- exception messages)
# ---------------------------------------------------------------------------------------
_MSG = [
    ("Expected schedule with at least two elements", "E_sched_size"),
    ("Encountered at least one negative time in schedule", "E_sched_neg"),
    ("Schedule must contain strictly increasing times", "E_sched_incr"),
    ("Initial time step must be positive", "E_dtinit_pos"),
    ("Initial time step cannot be larger than final simulation time", "E_dtinit_final"),
    ("Initial time step cannot be smaller than minimum time step", "E_dtinit_lt_min"),
    ("Initial time step cannot be larger than maximum time step", "E_dtinit_gt_max"),
    ("Maximum number of iterations must be positive", "E_iter_max"),
    ("Upper endpoint", "E_iter_upp_gt_max"),
    ("Expected under-relaxation factor < 1", "E_under"),
    ("Expected over-relaxation factor > 1", "E_over"),
    ("Encountered dt_min * over_relax_factor > dt_max", "E_min_over"),
    ("Encountered dt_max * under_relax_factor < dt_min", "E_max_under"),
    ("Expected recomputation factor < 1", "E_recomp_factor"),
    ("Number of recomputation attempts must be > 0", "E_recomp_max"),
    ("Time step cannot be adapted without 'iterations'", "E_no_iterations"),
    ("Recomputation will not have any effect", "E_dt_at_min"),
    ("Solution did not converge after", "E_recomp_exhausted"),
    ("Nonlinear iterations did not converge", "E_not_converged"),
]


def _err_code(e):
    if isinstance(e, IndexError):
        return "E_index"
    if not isinstance(e, ValueError):
        raise e
    msg = str(e)
    if msg.startswith("Lower endpoint"):
        return "E_iter_low_neg" if "cannot be negative" in msg else "E_iter_low_gt_upp"
    for prefix, code in _MSG:
        if msg.startswith(prefix):
            return code
    raise e  # an exception the model does not know: broken tie


def _make_tm(case):
    a = case["args"]
    return pp.TimeManager(
        schedule=list(case["sched"]), dt_init=a["dt_init"], constant_dt=a["constant"],
        dt_min_max=None if a["dt_min_max"] is None else tuple(a["dt_min_max"]),
        iter_max=a["iter_max"], iter_optimal_range=tuple(a["iter_range"]),
        iter_relax_factors=tuple(a["relax"]), recomp_factor=a["recomp_factor"],
        recomp_max=a["recomp_max"], rtol=a["rtol"], atol=a["atol"])


def _clock(tm, out):
    return {"time": float(tm.time), "dt": float(tm.dt), "tidx": int(tm.time_index),
            "idx": int(tm._scheduled_idx), "recomp": int(tm._recomp_num),
            "about": bool(tm._is_about_to_hit_schedule), "out": out}


def _cfg(tm):
    return {
        "dt_init": float(tm.dt_init), "constant": bool(tm.is_constant),
        "dt_min": float(tm.dt_min_max[0]), "dt_max": float(tm.dt_min_max[1]),
        "iter_max": int(tm.iter_max), "iter_low": int(tm.iter_optimal_range[0]),
        "iter_upp": int(tm.iter_optimal_range[1]),
        "under": float(tm.iter_relax_factors[0]), "over": float(tm.iter_relax_factors[1]),
        "recomp_factor": float(tm.recomp_factor), "recomp_max": int(tm.recomp_max),
        "rtol": float(tm.rtol), "atol": float(tm.atol)}


def _isclose(a, b, rtol, atol):
    return abs(a - b) <= atol + rtol * abs(b) or a == b


# ---------------------------------------------------------------------------------------
# the real model
# ---------------------------------------------------------------------------------------
class _OutOfSolves(Exception):
    pass


class _Flow(pp.SinglePhaseFlow):
    """Compressible single-phase flow on an nx x 1 Cartesian grid; scripted convergence."""

    def _spec(self):
        return self.params["c10"]

    # -- the two overrides the property's hook note asks for
    def _is_nonlinear_problem(self):
        return True

    def check_convergence(self, nonlinear_increment, residual, reference_residual, nl_params):
        spec = self._spec()
        log = self._c10
        k = int(self.nonlinear_solver_statistics.num_iteration)
        pat = spec["pattern"]
        kind, at = pat[log.solve_no] if log.solve_no < len(pat) else spec["default"]
        tm = self.time_manager
        if spec.get("fail_last", 0) > log.last_failed and (
                tm.time >= tm.time_final
                or _isclose(tm.time, tm.time_final, tm.rtol, tm.atol)):
            # deliberately fail the solve that would reach the final time
            kind, at = "f", min(at, spec["maxit"] + 1)
            if k >= at:
                log.last_failed += 1
        flags = (False, False)
        if kind != "n" and k >= at:
            flags = {"c": (True, False), "f": (False, True), "b": (True, True)}[kind]
        log.cur["flags"].append([bool(flags[0]), bool(flags[1])])
        return flags

    # -- data
    @property
    def time_step_indices(self):
        return np.array(self._spec()["tsi"], dtype=int)

    @property
    def iterate_indices(self):
        return np.array(self._spec()["iti"], dtype=int)

    def set_domain(self):
        self._domain = pp.Domain(
            {"xmin": 0, "xmax": float(self._spec()["nx"]), "ymin": 0, "ymax": 1})

    def meshing_arguments(self):
        return {"cell_size": 1.0}

    def grid_type(self):
        return "cartesian"

    def set_fractures(self):
        self._fractures = []

    def bc_type_darcy_flux(self, sd):
        sides = self.domain_boundary_sides(sd)
        return pp.BoundaryCondition(sd, sides.west | sides.east, "dir")

    def bc_values_pressure(self, bg):
        p = self._spec()["bc"]
        v = np.zeros(bg.num_cells)
        sides = self.domain_boundary_sides(bg)
        v[sides.west] = p[0] + p[1] * self.time_manager.time
        v[sides.east] = p[2]
        return v

    def ic_values_pressure(self, sd):
        return np.array(self._spec()["ic"], dtype=float)


class _FracFlow(SquareDomainOrthogonalFractures, _Flow):
    """The same on the unit square (2 x 2 cells) with one or two orthogonal fractures: several
    grids, interfaces and variables (pressure per subdomain, interface fluxes), so that the
    global solution vector consists of many blocks."""

    def meshing_arguments(self):
        return {"cell_size": 0.5}

    def ic_values_pressure(self, sd):
        ic = self._spec()["ic"]
        return np.array([ic[i % len(ic)] for i in range(sd.num_cells)], dtype=float)


class _SolveLog:
    """Mixin for the real solvers; only records what solve() returned and the state left."""

    def solve(self, model):
        log = model._c10
        try:
            ret = super().solve(model)
        except KeyError:
            log.end_solve(["store", "KeyErr"])
            raise
        except (ValueError, IndexError) as e:
            log.end_solve(["raised", _err_code(e)])
            raise
        log.end_solve(bool(ret))
        return ret


class _Newton(_SolveLog, pp.NewtonSolver):
    pass


class _LineSearchNewton(_SolveLog, _line_search.LineSearchNewtonSolver):
    """Residual-based line search (shares solve() and all hooks with NewtonSolver; only the
    increment of an iteration differs)."""


class _Log:
    def __init__(self, model, max_solves):
        self.m = model
        self.solve_no = -1
        self.max_solves = max_solves
        self.solves = []
        self.cur = None
        self.last_out = None
        self.last_failed = 0

    # The stored dictionaries, seen as dictionaries index -> GLOBAL vector: every block
    # (variable on a grid / interface) must hold the same keys; the global vector of a key is
    # what the real EquationSystem.get_variable_values returns for it.  Also probes aliasing:
    # no two stored arrays may share memory (the model has value semantics).
    def dump(self):
        m = self.m
        es = m.equation_system
        out = {"alias": None}
        arrays = []
        for key, loc, kw in (("it", pp.ITERATE_SOLUTIONS, "iterate_index"),
                             ("ts", pp.TIME_STEP_SOLUTIONS, "time_step_index")):
            keysets = []
            for var in es.variables:
                g = var.domain
                data = (m.mdg.subdomain_data(g) if isinstance(g, pp.Grid)
                        else m.mdg.interface_data(g))
                d = data.get(loc, {}).get(var.name)
                keysets.append(None if d is None else sorted(int(k) for k in d))
                if d is not None:
                    arrays += [(f"{key}[{k}]:{var.name}@{var.id}", a) for k, a in d.items()]
            if all(ks is None for ks in keysets):
                out[key] = None
                continue
            if any(ks != keysets[0] for ks in keysets):
                raise AssertionError(f"blocks hold different index sets at {loc}: {keysets}")
            out[key] = [[k, [float(x) for x in es.get_variable_values(**{kw: k})]]
                        for k in keysets[0]]
        for a in range(len(arrays)):
            for b in range(a + 1, len(arrays)):
                if np.shares_memory(arrays[a][1], arrays[b][1]):
                    out["alias"] = [arrays[a][0], arrays[b][0]]
        return out

    def end_solve(self, ret):
        self.cur["ret"] = ret
        self.cur["end"] = {"store": self.dump(), "clock": _clock(self.m.time_manager, None)}
        self.cur = None


def _instrument(model, max_solves):
    log = _Log(model, max_solves)
    model._c10 = log
    tm = model.time_manager

    orig_cts = tm.compute_time_step

    def compute_time_step(*a, **k):
        try:
            r = orig_cts(*a, **k)
        except Exception as e:
            log.last_out = ["err", _err_code(e)]
            raise
        log.last_out = ["none"] if r is None else ["dt", float(r)]
        return r

    tm.compute_time_step = compute_time_step

    orig_before = model.before_nonlinear_loop

    def before_nonlinear_loop():
        if log.solve_no + 1 >= log.max_solves:
            raise _OutOfSolves()
        log.solve_no += 1
        log.cur = {"incs": [], "flags": [], "iters": [], "hook": None, "hooks": [],
                   "snap": None, "ret": None, "end": None,
                   "attempt": _clock(tm, None)}      # the clock the solve is attempted at
        log.solves.append(log.cur)
        log.last_out = None
        r = orig_before()
        log.cur["ad_dt"] = float(model.ad_time_step.parse(model.mdg))
        log.cur["num_iteration_reset"] = int(model.nonlinear_solver_statistics.num_iteration)
        return r

    model.before_nonlinear_loop = before_nonlinear_loop

    orig_iter = model.after_nonlinear_iteration

    def after_nonlinear_iteration(nonlinear_increment):
        log.cur["incs"].append([float(x) for x in nonlinear_increment])
        try:
            r = orig_iter(nonlinear_increment)
        except KeyError:
            log.cur["iters"].append(log.dump())
            log.cur["iter_err"] = "KeyErr"
            raise
        # aliasing probe: the array handed in must not be referenced by the store
        nonlinear_increment[:] = 977.0
        log.cur["iters"].append(log.dump())
        return r

    model.after_nonlinear_iteration = after_nonlinear_iteration

    def wrap_hook(name, orig):
        def hook():
            log.cur["hook"] = name
            log.cur["hooks"].append(name)
            log.last_out = None
            try:
                r = orig()
            except KeyError:
                log.cur["snap"] = {"store": log.dump(),
                                   "clock": _clock(tm, log.last_out or ["unit"])}
                raise
            except (ValueError, IndexError) as e:
                log.cur["snap"] = {"store": log.dump(),
                                   "clock": _clock(tm, ["err", _err_code(e)])}
                raise
            log.cur["snap"] = {"store": log.dump(),
                               "clock": _clock(tm, log.last_out or ["unit"])}
            return r
        return hook

    model.after_nonlinear_convergence = wrap_hook("conv", model.after_nonlinear_convergence)
    model.after_nonlinear_failure = wrap_hook("fail", model.after_nonlinear_failure)
    return log


# ---------------------------------------------------------------------------------------
# Coq emission
# ---------------------------------------------------------------------------------------
def _f(x):
    return cfloat(float(x))


def _vec(v):
    return clist(v, _f)


def _args(case):
    a = case["args"]
    mm = coption(a["dt_min_max"], lambda p: f"({_f(p[0])}, {_f(p[1])})")
    return ("(C09.Build_args float " + " ".join([
        _f(a["dt_init"]), cbool(a["constant"]), mm, cz(a["iter_max"]),
        cz(a["iter_range"][0]), cz(a["iter_range"][1]), _f(a["relax"][0]), _f(a["relax"][1]),
        _f(a["recomp_factor"]), cz(a["recomp_max"]), _f(a["rtol"]), _f(a["atol"])]) + ")")


def _cfg_term(c):
    return ("(C09.Build_cfg float " + " ".join([
        _f(c["dt_init"]), cbool(c["constant"]), _f(c["dt_min"]), _f(c["dt_max"]),
        cz(c["iter_max"]), cz(c["iter_low"]), cz(c["iter_upp"]), _f(c["under"]), _f(c["over"]),
        _f(c["recomp_factor"]), cz(c["recomp_max"]), _f(c["rtol"]), _f(c["atol"])]) + ")")


def _out_term(o):
    k = o[0]
    if k == "none":
        return "C09.ONone"
    if k == "unit":
        return "C09.OUnit"
    if k == "dt":
        return f"(C09.ODt {_f(o[1])})"
    return f"(C09.OErr C09.{o[1]})"


def _state_term(s):
    return ("(C09.Build_state float " + " ".join([
        _f(s["time"]), _f(s["dt"]), cz(s["tidx"]), cz(s["idx"]), cz(s["recomp"]),
        cbool(s["about"])]) + ")")


def _slot(d):
    return coption(d, lambda l: clist(l, lambda kv: f"({int(kv[0])}%nat, {_vec(kv[1])})"))


def _dump(d):
    return f"({_slot(d['it'])}, {_slot(d['ts'])})"


def _logged(s):
    """One attempted time step as a [logged2] record.  The time-step slot during the Newton
    iterations is sent only when it differs from the previously sent one (None = identical,
    checked bitwise here; Coq then compares the model's slot with the carried literal)."""
    snap = s["snap"] if s["snap"] is not None else s["end"]
    hooks = s.get("hooks", [])
    if s.get("iter_err"):
        kind = "LIterErr"
    elif hooks:
        kind = "LConv" if hooks == ["conv"] else "LFail"
    else:                                   # neither hook ran: say what solve() claimed
        kind = "LConv" if s["ret"] is True else "LFail"
    clock = dict(snap["clock"])
    if clock["out"] is None:
        clock["out"] = ["unit"]
    its = []
    for d in s["iters"]:
        its.append(f"({_slot(d['it'])}, {_ts_delta(s, d)})")
    return ("(Build_logged2 " + kind + " " + _state_term(s["attempt"]) + " " + _f(s["ad_dt"])
            + " " + clist(its) + " " + _state_term(clock) + " " + _out_term(clock["out"]) + " "
            + _dump(snap["store"]) + ")")


def _ts_delta(s, d):
    prev = s["_prev_ts"]
    if _same_slot(prev, d["ts"]):
        return "None"
    s["_prev_ts"] = d["ts"]
    return f"(Some {_slot(d['ts'])})"


def _same_slot(a, b):
    if a is None or b is None:
        return a is None and b is None
    if len(a) != len(b):
        return False
    for (k1, v1), (k2, v2) in zip(a, b):
        if k1 != k2 or len(v1) != len(v2):
            return False
        for x, y in zip(v1, v2):
            if float(x).hex() != float(y).hex():
                return False
    return True


def _stop_term(s):
    if s[0] == "finished":
        return "Finished"
    if s[0] == "out":
        return "OutOfEvents"
    if s[0] == "store":
        return f"(RaisedStore C08.{s[1]})"
    return f"(RaisedClock C09.{s[1]})"


def _solve_inputs(s):
    if s.get("iter_err"):        # the last iteration raised before check_convergence ran
        s = dict(s, flags=s["flags"] + [[False, False]])
    n = min(len(s["incs"]), len(s["flags"]))
    return clist(range(n), lambda i: f"({_vec(s['incs'][i])}, {cbool(s['flags'][i][0])}, "
                                     f"{cbool(s['flags'][i][1])})")


# ---------------------------------------------------------------------------------------
_DYADIC_GAPS = [0.5, 1.0, 1.0, 1.5, 2.0, 0.75]
_DECIMAL_GAPS = [0.3, 0.7, 1.1, 0.9, 1.3, 0.6]


class C10(Prop):
    id = "C10"
    props_file = "Props/C10.v"
    preamble = ("From Coq Require Import List ZArith Bool PrimFloat.\nImport ListNotations.\n"
                "From PP Require Model.C08 Model.C09.\nFrom PP Require Import Model.C10 Model.C10_ext.\n")
    n_cases = (22, 320)
    design_ref = "DESIGN.md §5 C10, Appendix B (NewtonSolver.solve, TimeManager)"
    extra_targets = ("Model/C10_ext.vo",)
    level_text = (
        "Coq theorems over an executable transcription of the time loop of "
        "run_time_dependent_model, NewtonSolver.solve (loop bound, converged/diverged flags, "
        "divergence taking precedence) and the SolutionStrategy hooks "
        "(initialize_previous_iterate_and_time_step_values, after_nonlinear_iteration, "
        "after_nonlinear_convergence + update_solution, after_nonlinear_failure), composed from "
        "the C08 storage model (one iterate slot, one time-step slot of the global vector) and "
        "the C09 clock model. For EVERY verdict pattern (which iteration of which solve is "
        "flagged converged / diverged / both, iteration budgets running out), every sequence of "
        "Newton increments, every TimeManager configuration and every pair of index arrays "
        "whose set is 0..m-1 (any order, repetitions; shift depth = array length): no storage "
        "call raises; after every converged step time-step index 0 = iterate index 0 = previous "
        "accepted solution + that solve's increments; after every failed step that does not "
        "raise, iterate 0 = time-step 0 = last accepted solution; after every step and at any "
        "stop the time-step dictionary is the most-recent-first window of the accepted solutions "
        "(initial values last); the clock of the product run IS the C09 time loop on the "
        "verdict-derived events, hence (C09_main, reals) a finished run ends within isclose of "
        "the final time without exceeding it and the only exceptions are the "
        "recomputation-budget ones; and the loop TERMINATES: the number of attempted time steps "
        "of any run is bounded by a number depending only on the configuration "
        "(C10_terminates), the model's out-of-inputs stop only occurs when the scripted inputs "
        "are shorter than that (C10_never_starved). Tied to the code on every run: real "
        "compressible SinglePhaseFlow models (one grid, or a fractured unit square with several "
        "grids, interfaces and variables) are run through the real run_time_dependent_model / "
        "NewtonSolver or LineSearchNewtonSolver / TimeManager with injected verdict patterns, and "
        "Coq (binary64 instance) must reproduce from the logged increments, bit for bit, every "
        "stored global vector after every after_nonlinear_iteration and hook, every clock "
        "state, the clock and ad_time_step at before_nonlinear_loop, and storage exceptions.")
    level_note = (
        "P-core. NOT modelled/proved: the linear algebra inside a Newton iteration and the line "
        "search (the increment of every iteration and the verdict of check_convergence are "
        "inputs; the tie feeds the logged ones); update_derived_quantities / "
        "update_time_dependent_ad_arrays / save_data_time_step (no effect on the stored "
        "solution vectors or the clock; covered only by the tie, which would see any change of "
        "the stored vectors); floating-point rounding in the clock theorems (over the reals, as "
        "C09). The storage theorems are polymorphic in the vector type, the binary += and the "
        "clock arithmetic, so they hold verbatim of the binary64 instance the tie executes; "
        "only the clock corollaries (C10_ends_at_final_time, C10_terminates) are about exact "
        "real arithmetic. The global solution vector is modelled as ONE value: that every block "
        "(variable on a grid) of a multi-variable model keeps the same index set and that the "
        "global vector is the concatenation of the blocks is checked by the harness on the "
        "real EquationSystem (get_variable_values per index), not proved (block dissection is "
        "C05's subject). Index arrays with holes (e.g. [0, 2], [0, 2, 3] -> KeyError) are "
        "executed by the model and tied, not covered by the theorems. Trusted: Coq kernel, "
        "vm_compute, PrimFloat = IEEE binary64 of numpy; the harness (method wrappers that log, "
        "literal emission); instance-independence of the polymorphic clock model (C09).")
    technique = ("Coq proof (refinement of both storage slots to C08 windows + simulation of "
                 "the C09 time loop by induction over all solve/verdict sequences + a potential "
                 "argument for termination) + vm_compute bit-exact execution correspondence on "
                 "real nonlinear models + direct oracle on the logged run")
    rule = ("random verdict patterns for real compressible SinglePhaseFlow runs: nx x 1 grids "
            "(2-6 cells) or the unit square with one or two fractures (several grids, "
            "interfaces, variables; 10-21 dofs), NewtonSolver or residual line search, window "
            "depths 1-3, index arrays also permuted / with repetitions / with holes (KeyError "
            "branch), schedules of 2-4 points, adaptive TimeManager with dyadic or decimal "
            "data, exact power-of-two scalings of the time axis (2^-8 .. 2^20) and of the "
            "pressures (2^-30 .. 2^3): any subset of solves fails, by a diverged flag at a "
            "random iteration, by both flags at once, by exhausting the iteration budget or by "
            "converging one iteration too late; convergence exactly in the last permitted "
            "iteration (max_iterations + 1); runs of consecutive failures up to and beyond "
            "recomp_max with the state checked after each; failure on the first step and on "
            "the step that reaches the final time; iteration counts on the lower / upper "
            "adaptation thresholds; the increment array handed to after_nonlinear_iteration "
            "is overwritten afterwards and all stored arrays are probed for shared memory "
            "after every hook; non-trivial = at least one failed and one converged solve, or "
            "a raise")
    trusted = ["method wrappers of the harness log what the model stores (raw data dictionaries "
               "for the key sets, EquationSystem.get_variable_values for the global vectors)",
               "PrimFloat = IEEE binary64 arithmetic of CPython/numpy (elementwise +=)",
               "instance-independence of the polymorphic clock model (reals / binary64), as C09"]
    assumptions = ["the global vector is one value (blocks of a multi-variable model keep equal "
                   "index sets: checked on every dump, not proved)",
                   "index arrays whose set is 0..m-1 in the theorems (holes: tie only)",
                   "exact real arithmetic in the clock corollaries; C09_main's hypotheses (valid, "
                   "well-separated schedule, dt_init inside the first interval, 0 < dt_min, "
                   "tolerances >= 0)"]

    # ------------------------------------------------------------------ generation
    def _tm_args(self, rng, sched, dyadic):
        first = sched[1] - sched[0]
        if dyadic:
            dmax = rng.choice([0.5, 1.0, 1.0, 2.0])
            dmin = dmax / rng.choice([32, 64, 128, 256])
            relax = rng.choice([(0.5, 2.0), (0.5, 2.0), (0.5, 1.5), (0.75, 1.25)])
            rf = rng.choice([0.5, 0.5, 0.5, 0.25, 0.75])
            cands = [d for d in (dmax, dmax, dmax / 2, first) if dmin <= d <= dmax
                     and d <= first]
        else:
            dmax = rng.choice([0.5, 1.0, 0.7])
            dmin = rng.choice([0.01, dmax / 50, 0.02])
            relax = rng.choice([(0.7, 1.3), (0.5, 2.0), (0.3, 1.7)])
            rf = rng.choice([0.5, 0.3, 0.6])
            cands = [d for d in (dmax, 0.2, first, first / 3) if dmin <= d <= dmax
                     and d <= first]
        dinit = rng.choice(cands) if cands else dmin
        low = rng.choice([1, 2, 2])
        upp = low + rng.choice([0, 1, 2])
        return {"dt_init": dinit, "constant": False, "dt_min_max": [dmin, dmax],
                "iter_max": upp + rng.choice([0, 2, 5]), "iter_range": [low, upp],
                "relax": list(relax), "recomp_factor": rf,
                "recomp_max": rng.choice([1, 2, 3, 3, 4]), "rtol": 1e-10, "atol": 1e-16}

    def _pattern(self, rng, a, maxit, n):
        low, upp = a["iter_range"]
        budget = maxit + 1                         # iterations the loop can run
        pfail = rng.choice([0.0, 0.1, 0.2, 0.3, 0.4])
        pat = []

        def conv():
            # on / next to the adaptation thresholds (iterations <= low grows dt,
            # >= upp shrinks it); biased to the low side so that most runs finish
            ks = [low, low, low, max(1, low - 1), 1, (low + upp + 1) // 2, low + 1,
                  upp, upp + 1, budget]
            return ["c", max(1, min(rng.choice(ks), budget))]

        def fail():
            r = rng.random()
            if r < 0.55:
                return ["f", rng.randint(1, max(1, budget))]
            if r < 0.75:
                return ["n", 0]                     # never flagged: the budget runs out
            if r < 0.9:
                return ["b", rng.randint(1, max(1, budget))]   # converged AND diverged
            return ["c", budget + rng.randint(1, 2)]           # would converge too late

        rm = a["recomp_max"]
        while len(pat) < n:
            if rng.random() < pfail:
                # a run of consecutive failures: mostly inside the recomputation budget
                # (up to exactly recomp_max), sometimes one beyond it (the run must raise)
                run = rng.choice([1, 1, 1, 2, 2, rm, rm, rm + 1 if rng.random() < 0.4 else rm])
                for _ in range(run):
                    pat.append(fail())
            pat.append(conv())
        if rng.random() < 0.2:
            pat[0] = fail()                          # failure on the very first step
        return pat[:n]

    def generate(self, rng, n, tier):
        max_solves = 30 if tier == "quick" else 60
        for i in range(n):
            dyadic = rng.random() < 0.6
            npts = rng.choice([2, 3, 3, 4])
            gaps = _DYADIC_GAPS if dyadic else _DECIMAL_GAPS
            sched = [rng.choice([0, 0, 0, 0.5, 1])]
            for _ in range(npts - 1):
                sched.append(sched[-1] + rng.choice(gaps))
            a = self._tm_args(rng, sched, dyadic)
            maxit = rng.choice([1, 2, 3, 3, 4, 5])
            nx = rng.choice([2, 2, 3, 3, 4, 6])
            dI = rng.choice([1, 1, 2, 3])
            dT = rng.choice([1, 2, 2, 3])
            case = {
                "sched": sched, "args": a, "maxit": maxit, "nx": nx,
                "iti": list(range(dI)), "tsi": list(range(dT)),
                "ic": [rng.choice([0, 0, 0.25, 0.5, 1.0, 1.5, 2.0]) for _ in range(nx)],
                "bc": [rng.choice([0.5, 1.0, 2.0]), rng.choice([0, 1.0, -0.25, 0.5]),
                       rng.choice([0, 0.5])],
                "compressibility": rng.choice([0.2, 0.2, 0.5, 0.0625]),
                "pattern": self._pattern(rng, a, maxit, max_solves),
                "default": ["c", max(1, min(a["iter_range"][0] + 1, maxit + 1))],
                "fail_last": rng.choice([0, 0, 0, 1, 1, 2]),
                "max_solves": max_solves,
            }
            # several grids / variables, line-search solver
            case["geom"] = rng.choice(["line"] * 15 + ["frac0", "frac0", "frac1", "frac1", "frac01"])
            case["solver"] = rng.choice(["newton"] * 4 + ["linesearch"])
            # index arrays in another order / with repetitions (len() is the shift depth)
            r = rng.random()
            if r < 0.15:
                for key in ("iti", "tsi"):
                    idx = list(case[key])
                    if rng.random() < 0.5:
                        idx = idx + [rng.choice(idx)]
                    rng.shuffle(idx)
                    case[key] = idx
            # exact power-of-two scalings of the time axis and of the pressures
            tk = rng.choice([0, 0, 0, 0, -8, 6, 20])
            if tk:
                f = 2.0 ** tk
                case["sched"] = [x * f for x in case["sched"]]
                a["dt_init"] *= f
                a["dt_min_max"] = [x * f for x in a["dt_min_max"]]
                case["bc"][1] /= f
            pk = rng.choice([0, 0, 0, 0, -30, -10, 3])
            if pk:
                f = 2.0 ** pk
                case["ic"] = [x * f for x in case["ic"]]
                case["bc"] = [x * f for x in case["bc"]]
            k = rng.randrange(40)
            if k == 0:
                case["maxit"] = 0                    # exactly one iteration per solve
            elif k == 1:
                case["maxit"] = -1                   # the loop body never runs: every solve fails
            elif k == 2:
                case["tsi"] = [0, 2]                 # non-contiguous time-step indices
            elif k == 3:
                case["iti"] = [0, 2]
            elif k == 4:
                case["args"]["constant"] = True      # a failure raises, convergence skips the clock
                case["args"]["dt_init"] = sched[1] - sched[0] if npts == 2 else a["dt_init"]
            elif k == 5:
                case["pattern"] = [["f", 1]] * max_solves      # budget exhausted at once
            elif k == 6:
                case["pattern"] = []
                case["fail_last"] = 0                # no failure at all
            elif k == 7:
                case["tsi"] = [0, 2, 3]              # update_solution's shift raises KeyError
            elif k == 8:
                case["iti"] = [0, 2, 3]              # after_nonlinear_iteration raises KeyError
            yield case

    # ------------------------------------------------------------------ implementation
    def run_impl(self, case):
        with warnings.catch_warnings():
            warnings.simplefilter("ignore")
            try:
                tm = _make_tm(case)
            except ValueError as e:
                msg = str(e)
                if msg.startswith("Mismatch between the time step and scheduled time"):
                    return {"skip": "constant-dt constructor check (not modelled, as C09)"}
                return {"ctor": _err_code(e)}
            spec = {k: case[k] for k in ("pattern", "default", "fail_last", "maxit", "iti",
                                         "tsi", "nx", "bc", "ic")}
            params = {
                "time_manager": tm, "times_to_export": [], "c10": spec,
                "material_constants": {
                    "fluid": pp.FluidComponent(compressibility=case["compressibility"])},
                "max_iterations": case["maxit"],
                "nonlinear_solver": (_LineSearchNewton if case.get("solver") == "linesearch"
                                     else _Newton),
                "folder_name": os.path.join(CACHE, "tmp", "c10_viz"),
            }
            if case.get("solver") == "linesearch":
                # a finite residual tolerance makes the line search (and the residual
                # assembly after every iteration) actually run
                params.update({"global_line_search": True, "nl_convergence_tol_res": 1e-14,
                               "residual_line_search_num_steps": 3})
            geom = case.get("geom", "line")
            if geom == "line":
                model = _Flow(params)
            else:
                params["fracture_indices"] = {"frac0": [0], "frac1": [1], "frac01": [0, 1]}[geom]
                model = _FracFlow(params)
            model.prepare_simulation()
            log = _instrument(model, case["max_solves"])
            res = {"ctor": None, "cfg": _cfg(tm), "t0": float(tm.time), "init": log.dump()}
            run_params = dict(params)
            run_params["prepare_simulation"] = False
            try:
                pp.run_time_dependent_model(model, run_params)
                stop = ["finished"]
            except _OutOfSolves:
                stop = ["out"]
            except KeyError:
                stop = ["store", "KeyErr"]
            except (ValueError, IndexError) as e:
                stop = ["raised", _err_code(e)]
            for s in log.solves:
                if s["end"] is None:     # the cap interrupted before_nonlinear_loop
                    s["end"] = {"store": log.dump(), "clock": _clock(tm, None)}
            res["solves"] = log.solves
            res["stop"] = stop
            res["final"] = {"store": log.dump(), "clock": _clock(tm, None)}
            return res

    # ------------------------------------------------------------------ oracle
    def in_scope(self, case, res):
        if res.get("skip") or res.get("ctor"):
            return False
        # index sets: any order, repetitions allowed, but no holes (0..m-1)
        for idx in (case["iti"], case["tsi"]):
            if not idx or sorted(set(idx)) != list(range(len(set(idx)))):
                return False
        c = res["cfg"]
        s = [float(x) for x in case["sched"]]
        if c["constant"] or not (c["dt_min"] > 0 and c["rtol"] >= 1e-12 and c["atol"] >= 0):
            return False
        if not c["dt_init"] <= s[1] - s[0]:
            return False
        return all(b - a > 100 * (c["atol"] + c["rtol"] * abs(b)) for a, b in zip(s, s[1:]))

    def oracle(self, case, res):
        if not self.in_scope(case, res):
            return None
        c = res["cfg"]

        def slot0(d, key):
            sl = d[key]
            if sl is None:
                return None
            for k, v in sl:
                if k == 0:
                    return v
            return None

        dumps = [res["init"], res["final"]["store"]]
        for s in res["solves"]:
            dumps += s["iters"] + [x["store"] for x in (s["snap"], s["end"]) if x]
        for d in dumps:
            if d.get("alias"):
                return (f"alias:the stored arrays {d['alias'][0]} and {d['alias'][1]} share "
                        f"memory")
        if res["stop"][0] == "store":
            return f"raise:a storage call raised {res['stop'][1]}"
        v0 = slot0(res["init"], "it")
        if v0 is None or slot0(res["init"], "ts") != v0:
            return "init:initial values are not stored at iterate 0 and time step 0"
        accepted = [v0]
        for n, s in enumerate(res["solves"]):
            if s["ret"] is None:
                continue                       # interrupted by the harness' cap on solves
            end = s["end"]["store"]
            it0, ts0 = slot0(end, "it"), slot0(end, "ts")
            hooks = s.get("hooks", [])
            if s["ret"] is True and hooks != ["conv"]:
                # a converged step is finished by after_nonlinear_convergence alone: running
                # after_nonlinear_failure as well rewinds the clock under an accepted solution
                return (f"hooks:solve {n} reported converged but ran the hooks {hooks} "
                        f"(clock {s['end']['clock']['time']!r}, attempted at "
                        f"{s['attempt']['time']!r})")
            if s["ret"] is False and hooks != ["fail"]:
                return f"hooks:solve {n} reported failed but ran the hooks {hooks}"
            if s["ret"] is True and s["end"]["clock"]["time"] != s["attempt"]["time"]:
                return (f"hooks:solve {n} converged at time {s['attempt']['time']!r} but the "
                        f"clock is left at {s['end']['clock']['time']!r}")
            if s["ret"] is True:
                # claim 1: after a converged step the most recent time-step values are the
                # converged iterate (= what the last Newton iteration left at iterate 0)
                conv = slot0(s["iters"][-1], "it") if s["iters"] else None
                if conv is None or ts0 != conv or it0 != conv:
                    return (f"converged:solve {n} reported converged but time-step 0 = {ts0}, "
                            f"iterate 0 = {it0}, converged iterate = {conv}")
                expect = np.array(accepted[-1], dtype=float)
                for inc in s["incs"]:
                    expect = expect + np.array(inc, dtype=float)
                if not np.allclose(conv, expect, rtol=1e-12, atol=1e-14):
                    return (f"iterate:solve {n}: converged iterate {conv} is not the previous "
                            f"accepted solution plus the increments {expect.tolist()}")
                accepted.append(conv)
            elif s["ret"] is False:
                # claim 2: after a failed step the iterate is reset to the last accepted values
                if it0 != accepted[-1] or ts0 != accepted[-1]:
                    return (f"failed:after failed solve {n} iterate 0 = {it0}, time-step 0 = "
                            f"{ts0}, last accepted solution = {accepted[-1]}")
            else:
                if s["ret"][1] not in ("E_dt_at_min", "E_recomp_exhausted"):
                    return f"raise:solve {n} raised {s['ret'][1]}"
        if res["stop"][0] == "finished":
            # claim 3: ends at the final time with the history of accepted solutions
            t, tf = res["final"]["clock"]["time"], float(case["sched"][-1])
            if not _isclose(t, tf, c["rtol"], c["atol"]):
                return f"final:the run finished at time {t!r}, final time {tf!r}"
            d = len(case["tsi"])
            hist = list(reversed(accepted))
            hist = (hist + [v0] * (len(set(case["tsi"])) - 1))[:d]
            got = res["final"]["store"]["ts"] or []
            if [k for k, _ in got] != list(range(len(hist))) or [v for _, v in got] != hist:
                return (f"history:time-step window {got} differs from the {d} most recent "
                        f"accepted solutions {hist}")
        elif res["stop"][0] == "raised" and res["stop"][1] not in (
                "E_dt_at_min", "E_recomp_exhausted"):
            return f"raise:the time loop raised {res['stop'][1]}"
        return None

    # ------------------------------------------------------------------ tie
    def coq_case(self, case, res):
        if res.get("skip"):
            return None
        sched = clist(case["sched"], _f)
        iti, tsi = clist(case["iti"], cz), clist(case["tsi"], cz)
        if res["ctor"]:
            return (f"agree2 {cz(case['maxit'])} {_args(case)} {sched} {iti} {tsi} [] [] "
                    f"(inr C09.{res['ctor']})")
        v0 = None
        for k, v in res["init"]["it"] or []:
            if k == 0:
                v0 = v
        if v0 is None:
            v0 = [float(x) for x in case["ic"]]
        solves = [s for s in res["solves"] if s["ret"] is not None or s["snap"] is not None]
        prev = res["init"]["ts"]
        logged = []
        for s in solves:
            s["_prev_ts"] = prev
            logged.append(_logged(s))
            snap = s["snap"] if s["snap"] is not None else s["end"]
            prev = snap["store"]["ts"]
            s.pop("_prev_ts", None)
        inputs = clist(res["solves"], _solve_inputs)
        exp = (f"(inl ({_cfg_term(res['cfg'])}, {_dump(res['init'])}, {clist(logged)}, "
               f"{_stop_term(res['stop'])}))")
        return (f"agree2 {cz(case['maxit'])} {_args(case)} {sched} {iti} {tsi} {_vec(v0)} "
                f"{inputs} {exp}")

    def coq_diag(self, case, res):
        if res.get("skip") or res.get("ctor"):
            return None
        v0 = [v for k, v in res["init"]["it"] if k == 0][0]
        return (f"match simulate fvec fvadd float C09.FOps {cz(case['maxit'])} {_args(case)} "
                f"{clist(case['sched'], _f)} {clist(case['iti'], cz)} {clist(case['tsi'], cz)} "
                f"{_vec(v0)} {clist(res['solves'], _solve_inputs)} with "
                f"inl (_, _, (tr, sp)) => Some (map (fun e => (e_res e, e_clock e, e_out e, "
                f"e_store e)) tr, sp) | inr _ => None end")

    def nontrivial(self, case, res):
        if res.get("skip") or res.get("ctor"):
            return False
        rets = [s["ret"] for s in res["solves"]]
        return (True in rets and False in rets) or res["stop"][0] in ("raised", "store")

    def finding_key(self, case, res, why):
        return "C10-" + why.split(":", 1)[0]

    def shrink(self, case, still_fails):
        pat = [list(p) for p in case["pattern"]]
        cur = dict(case, pattern=pat)
        for i in range(len(pat)):
            if pat[i] == case["default"]:
                continue
            trial = [list(p) for p in cur["pattern"]]
            trial[i] = list(case["default"])
            c = dict(cur, pattern=trial)
            if still_fails(c):
                cur = c
        if cur.get("fail_last"):
            c = dict(cur, fail_last=0)
            if still_fails(c):
                cur = c
        return cur

    def describe(self, case):
        d = dict(case)
        if len(d.get("pattern", [])) > 12:
            d["pattern"] = d["pattern"][:12] + [f"... {len(case['pattern']) - 12} more"]
        return d


PROP = C10()
