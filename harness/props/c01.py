"""C01 — forward-mode AD values and Jacobians are exact (pp.ad.AdArray, pp.ad.functions).

Tie, part (a): random expression trees over the rational fragment are built on real
AdArrays and Coq (vm_compute over Q) checks that the rule table of Model/C01.v
reproduces .val and the dense .jac.  Part (b): for every transcendental rule the factor
the implementation really applied (Jacobian diagonal of f(AdArray(x, I))) and the value
are compared with the real-number instance of the same table by the Interval tactic
(runs inside ``regenerate``).  Oracle: 50-digit central differences of the plain
evaluation of the same tree.
"""
from __future__ import annotations

import glob
import json
import math
import os
import random
import re
import subprocess
import sys
import time
from fractions import Fraction

import mpmath
import numpy as np
import scipy.sparse as sps

from harness import core
from harness.core import Prop, cq, cz, clist

import porepy as pp
from porepy.numerics.ad import functions as F

mp = mpmath.mp.clone()
mp.dps = 50

# ----------------------------------------------------------------------------------------
# tree vocabulary
# ----------------------------------------------------------------------------------------
BIN = ("add", "sub", "mul", "div", "pow", "rdiv", "rpow", "max")
KOPS = ("addk", "raddk", "subk", "rsubk", "mulk", "rmulk", "divk", "rdivk", "rpowk",
        "maxkr")
FUN_TRANS = ("exp", "log", "sin", "cos", "tan", "arcsin", "arccos", "arctan", "sinh",
             "cosh", "tanh", "arcsinh", "arccosh", "arctanh", "heaviside_smooth")
FUN_RAT = ("abs", "heaviside", "characteristic")
COQ_FN = {"exp": "Fexp", "log": "Flog", "abs": "Fabs", "sin": "Fsin", "cos": "Fcos",
          "tan": "Ftan", "arcsin": "Farcsin", "arccos": "Farccos", "arctan": "Farctan",
          "sinh": "Fsinh", "cosh": "Fcosh", "tanh": "Ftanh", "arcsinh": "Farcsinh",
          "arccosh": "Farccosh", "arctanh": "Farctanh"}


ALL_OPS = set(BIN) | set(KOPS) | {"var", "ref", "neg", "powk", "maxkl", "matmul", "slice", "fun", "l2"}


class Reject(Exception):
    """The point is outside (or too close to the border of) the smooth domain."""


# ----------------------------------------------------------------------------------------
# building the tree on real objects (AdArrays, or plain ndarrays for the value check)
# ----------------------------------------------------------------------------------------
def _const(c):
    if c[0] == "s":
        if len(c) > 2 and c[2] == "np":
            return np.float64(c[1])           # numpy scalar (a float subclass)
        return int(c[1]) if (len(c) > 2 and c[2] == "int") else float(c[1])
    arr = np.array(c[1], dtype=float)
    if len(c) > 2 and c[2] == "int":
        arr = np.array([int(v) for v in c[1]], dtype=int)
    return arr


def _sparse(spec):
    """The scipy matrix of a spec.  Format "csr" is assembled directly from the row lists
    (entries stay in the order given: indices may be unsorted and repeated), "csr_canon" /
    "csc" / "coo" go through coo (csr_canon, csc: sorted, duplicates summed)."""
    n, m = spec["shape"]
    rows, cols, data = [], [], []
    indptr = [0]
    for i, row in enumerate(spec["rows"]):
        for j, a in row:
            rows.append(i)
            cols.append(j)
            data.append(float(a))
        indptr.append(len(cols))
    fmt = spec.get("fmt", "csr")
    if fmt == "csr":
        return sps.csr_matrix((np.array(data, dtype=float), np.array(cols, dtype=np.int32),
                               np.array(indptr, dtype=np.int32)), shape=(n, m))
    A = sps.coo_matrix((data, (rows, cols)), shape=(n, m))
    return {"csr_canon": A.tocsr, "csc": A.tocsc, "coo": lambda: A}[fmt]()


def _key(k):
    if k[0] == "int":
        return int(k[1])
    if k[0] == "slice":
        return slice(k[1], k[2], k[3])
    return np.array(k[1], dtype=int)


def resolve_idx(k, m):
    """Entry indices selected by the key on an array of length m (numpy semantics)."""
    r = np.arange(m)[_key(k)]
    return [int(v) for v in np.atleast_1d(r)]


_REFS: list = []


def build(t, V):
    op = t[0]
    if op == "var":
        return V[t[1]]
    if op == "ref":                       # an AdArray created by an earlier statement
        return _REFS[t[1]]
    if op == "neg":
        return -build(t[1], V)
    if op in BIN:
        a, b = build(t[1], V), build(t[2], V)
        if op == "add":
            return a + b
        if op == "sub":
            return a - b
        if op == "mul":
            return a * b
        if op == "div":
            return a / b
        if op == "pow":
            return a ** b
        if op == "rdiv":
            return a.__rtruediv__(b)
        if op == "rpow":
            return a.__rpow__(b)
        return F.maximum(a, b)
    if op in KOPS or op == "powk":
        a = build(t[1], V)
        c = _const(t[2])
        arr = isinstance(c, np.ndarray)
        if op == "addk":
            return a + c
        if op == "raddk":
            return a.__radd__(c) if arr else c + a
        if op == "subk":
            return a - c
        if op == "rsubk":
            return a.__rsub__(c) if arr else c - a
        if op == "mulk":
            return a * c
        if op == "rmulk":
            return a.__rmul__(c) if arr else c * a
        if op == "divk":
            return a / c
        if op == "rdivk":
            return a.__rtruediv__(c) if arr else c / a
        if op == "powk":
            return a ** c
        if op == "rpowk":
            return a.__rpow__(c) if arr else c ** a
        return F.maximum(a, c)
    if op == "maxkl":
        return F.maximum(_const(t[1]), build(t[2], V))
    if op == "matmul":
        return _sparse(t[1]) @ build(t[2], V)
    if op == "slice":
        a = build(t[2], V)
        r = a[_key(t[1])]
        if isinstance(r, np.ndarray) or np.isscalar(r):
            r = np.atleast_1d(r)          # plain numpy evaluation of an integer key
        return r
    if op == "fun":
        name, par, a = t[1], t[2], build(t[3], V)
        if name == "heaviside":
            return F.heaviside(float(par), a)
        if name == "heaviside_smooth":
            return F.heaviside_smooth(a, float(par))
        if name == "characteristic":
            return F.characteristic_function(float(par), a)
        if name == "safe_power":
            pw = int(par[0]) if float(par[0]) == int(par[0]) and par[3] == "int" else float(par[0])
            return F.safe_power(pw, float(par[1]), float(par[2]), a)
        return getattr(F, name)(a)
    if op == "l2":
        return F.l2_norm(int(t[1]), build(t[2], V))
    raise ValueError(op)


# ----------------------------------------------------------------------------------------
# independent plain evaluation, entrywise (float with domain margins, or mpmath)
# ----------------------------------------------------------------------------------------
class Lib:
    """Number backend for the plain evaluator."""

    def __init__(self, kind):
        self.kind = kind
        if kind == "float":
            self.c = float
            m = math
            self.f = {"exp": m.exp, "log": m.log, "sin": m.sin, "cos": m.cos, "tan": m.tan,
                      "arcsin": m.asin, "arccos": m.acos, "arctan": m.atan, "sinh": m.sinh,
                      "cosh": m.cosh, "tanh": m.tanh, "arcsinh": m.asinh,
                      "arccosh": m.acosh, "arctanh": m.atanh, "sqrt": m.sqrt}
            self.pi = math.pi
        elif kind == "frac":
            self.c = Fraction

            def fsqrt(q):
                q = Fraction(q)
                a, b = math.isqrt(q.numerator) if q.numerator >= 0 else -1, math.isqrt(q.denominator)
                if a < 0 or a * a != q.numerator or b * b != q.denominator:
                    raise Reject()
                return Fraction(a, b)

            def no(_):
                raise Reject()
            self.f = {k: no for k in ("exp", "log", "sin", "cos", "tan", "arcsin", "arccos",
                                      "arctan", "sinh", "cosh", "tanh", "arcsinh", "arccosh",
                                      "arctanh")}
            self.f["sqrt"] = fsqrt
            self.pi = None
        else:
            self.c = lambda v: mp.mpf(v) if not isinstance(v, Fraction) else (
                mp.mpf(v.numerator) / mp.mpf(v.denominator))
            self.f = {"exp": mp.exp, "log": mp.log, "sin": mp.sin, "cos": mp.cos,
                      "tan": mp.tan, "arcsin": mp.asin, "arccos": mp.acos,
                      "arctan": mp.atan, "sinh": mp.sinh, "cosh": mp.cosh, "tanh": mp.tanh,
                      "arcsinh": mp.asinh, "arccosh": mp.acosh, "arctanh": mp.atanh,
                      "sqrt": mp.sqrt}
            self.pi = mp.pi


MARGIN = 0.05
BIG = 1.0e4
# distance kept to the kinks of abs / heaviside / maximum / l2_norm / characteristic /
# safe_power, and magnitude bound.  Default: MARGIN, BIG.  Cases whose kink arguments are
# exact in floating point (dyadic leaves, power-of-two scalings) carry their own, much
# smaller margin ("kink") and a larger magnitude bound ("big").
KINK = [MARGIN, BIG]


def plain(t, X, L, check):
    """Entries of the plain evaluation of tree t at the point X (list of lists).

    With ``check`` the smooth domain of every node is enforced with a margin
    (raises Reject); used with the float backend only."""

    def need(cond):
        if check and not cond:
            raise Reject()

    def cst(c, n):
        if c[0] == "s":
            return [L.c(c[1])] * n
        need(len(c[1]) == n)
        return [L.c(v) for v in c[1]]

    def power(a, p):
        # numpy float power: integer-valued exponent -> integer power, else exp(p ln a)
        pf = float(p)
        if pf == int(pf):
            n = int(pf)
            if n <= 0:
                need(abs(a) >= MARGIN)
            return a ** n
        need(a >= MARGIN)
        return L.f["exp"](p * L.f["log"](a))

    def ev(t):
        op = t[0]
        if op == "var":
            return list(X[t[1]])
        if op == "neg":
            return [-a for a in ev(t[1])]
        if op in BIN:
            A, B = ev(t[1]), ev(t[2])
            need(len(A) == len(B))
            out = []
            for a, b in zip(A, B):
                if op == "add":
                    r = a + b
                elif op == "sub":
                    r = a - b
                elif op == "mul":
                    r = a * b
                elif op == "div":
                    need(abs(b) >= MARGIN)
                    r = a / b
                elif op == "rdiv":
                    need(abs(a) >= MARGIN)
                    r = b / a
                elif op == "pow":
                    need(a >= MARGIN)
                    r = L.f["exp"](b * L.f["log"](a))
                elif op == "rpow":
                    need(b >= MARGIN)
                    r = L.f["exp"](a * L.f["log"](b))
                else:
                    need(abs(a - b) >= KINK[0])
                    r = b if b > a else a
                out.append(r)
            return out
        if op in KOPS:
            A = ev(t[1])
            C = cst(t[2], len(A))
            out = []
            for a, c in zip(A, C):
                if op in ("addk", "raddk"):
                    r = a + c
                elif op == "subk":
                    r = a - c
                elif op == "rsubk":
                    r = c - a
                elif op in ("mulk", "rmulk"):
                    r = a * c
                elif op == "divk":
                    need(abs(c) >= MARGIN)
                    r = a / c
                elif op == "rdivk":
                    need(abs(a) >= MARGIN)
                    r = c / a
                elif op == "rpowk":
                    need(c >= MARGIN)
                    r = L.f["exp"](a * L.f["log"](c))
                else:
                    need(abs(a - c) >= KINK[0])
                    r = c if c > a else a
                out.append(r)
            return out
        if op == "maxkl":
            A = ev(t[2])
            C = cst(t[1], len(A))
            out = []
            for a, c in zip(A, C):
                need(abs(a - c) >= KINK[0])
                out.append(a if a > c else c)
            return out
        if op == "powk":
            A = ev(t[1])
            P = cst(t[2], len(A))
            return [power(a, p) for a, p in zip(A, P)]
        if op == "matmul":
            A = ev(t[2])
            need(len(A) == t[1]["shape"][1])
            out = []
            for row in t[1]["rows"]:
                s = L.c(0)
                for j, a in row:
                    s = s + L.c(a) * A[j]
                out.append(s)
            return out
        if op == "slice":
            A = ev(t[2])
            return [A[j] for j in resolve_idx(t[1], len(A))]
        if op == "fun":
            name, par, A = t[1], t[2], ev(t[3])
            out = []
            for a in A:
                if name == "abs":
                    need(abs(a) >= KINK[0])
                    r = abs(a)
                elif name == "heaviside":
                    need(abs(a) >= KINK[0])
                    r = L.c(1) if a > 0 else L.c(0)
                elif name == "characteristic":
                    need(abs(abs(a) - par) >= KINK[0])
                    r = L.c(1) if abs(a) <= par else L.c(0)
                elif name == "safe_power":
                    pw, zv, tol = float(par[0]), par[1], par[2]
                    need(abs(abs(a) - tol) >= KINK[0])
                    if abs(a) > tol:
                        r = power(a, L.c(pw))
                    else:
                        r = L.c(zv)
                elif name == "heaviside_smooth":
                    need(par > 0)
                    r = L.c(0.5) * (1 + 2 / L.pi * L.f["arctan"](a / L.c(par)))
                else:
                    if name == "log":
                        need(a >= MARGIN)
                    elif name in ("arcsin", "arccos", "arctanh"):
                        need(abs(a) <= 1 - MARGIN)
                    elif name == "arccosh":
                        need(a >= 1 + MARGIN)
                    elif name == "tan":
                        need(abs(math.cos(float(a))) >= 2 * MARGIN)
                    elif name in ("exp", "sinh", "cosh"):
                        need(abs(a) <= 8)
                    r = L.f[name](a)
                out.append(r)
            return out
        if op == "l2":
            dim, A = int(t[1]), ev(t[2])
            need(dim >= 1 and len(A) % dim == 0)
            out = []
            for i in range(len(A) // dim):
                blk = A[i * dim:(i + 1) * dim]
                r = L.f["sqrt"](sum((b * b for b in blk), L.c(0)))
                need(r >= KINK[0])
                out.append(r)
            return out
        raise ValueError(op)

    def guarded(t):
        r = ev(t)
        if check:
            for v in r:
                if not (abs(v) <= KINK[1]):
                    raise Reject()
        return r

    # every node's magnitude is checked on the way (ev recurses through itself; the
    # final magnitude check covers the root, inner nodes are covered by node_values)
    return guarded(t)


def subtrees(t):
    yield t
    op = t[0]
    if op in ("neg",):
        yield from subtrees(t[1])
    elif op in BIN:
        yield from subtrees(t[1])
        yield from subtrees(t[2])
    elif op in KOPS or op == "powk":
        yield from subtrees(t[1])
    elif op in ("maxkl", "matmul", "slice", "l2"):
        yield from subtrees(t[2])
    elif op == "fun":
        yield from subtrees(t[3])


def in_domain(tree, X, kink=None, big=None):
    """All nodes of the tree are evaluated inside the smooth domain with a margin and
    stay moderate in magnitude (float evaluation, independent of the implementation)."""
    L = Lib("float")
    KINK[0], KINK[1] = (kink or MARGIN), (big or BIG)
    try:
        for s in subtrees(tree):
            plain(s, X, L, True)
        return True
    except (Reject, OverflowError, ValueError, ZeroDivisionError, IndexError):
        return False
    finally:
        KINK[0], KINK[1] = MARGIN, BIG


def q_executable(tree, X):
    """The tree can be executed exactly over Q by the model instance QOpsS: every l2_norm
    block of dimension > 1 has a perfect-square sum of squares, no zero divisor."""
    L = Lib("frac")
    try:
        plain(tree, [[Fraction(v) for v in x] for x in X], L, False)
        return True
    except (Reject, ZeroDivisionError, OverflowError, ValueError, TypeError, IndexError):
        return False


# ----------------------------------------------------------------------------------------
# generator
# ----------------------------------------------------------------------------------------
def dy(rng, lo, hi, den=8, nonzero=False):
    while True:
        v = rng.randint(int(lo * den), int(hi * den)) / den
        if not nonzero or v != 0:
            return v


class Gen:
    def __init__(self, rng, kind, sizes, maxdepth):
        self.rng, self.kind, self.sizes, self.maxdepth = rng, kind, sizes, maxdepth
        self.nmat = 0

    def const(self, n, lo=-3, hi=3, nonzero=False, allow_int=True):
        r = self.rng
        if r.random() < 0.5:
            v = dy(r, lo, hi, 8, nonzero)
            if allow_int and v == int(v) and r.random() < 0.5:
                return ["s", int(v), "int"]
            return ["s", v]
        return ["a", [dy(r, lo, hi, 8, nonzero) for _ in range(n)]]

    def sparse(self, n, m):
        """Coefficient matrix n x m.  Modes: general dyadic, general integer, 0/1 selection
        (one 1 per row), 0/1 summation (several ones per row, empty rows), and 0/1
        matrices whose number of stored entries EQUALS the number of rows although some row
        is empty and another holds several ones (looks like a restriction, is not)."""
        r = self.rng
        mode = r.choice(["dyadic", "dyadic", "int", "select", "select", "sum01", "sum01",
                         "nnz_eq_rows", "nnz_eq_rows"])
        rows = []
        if mode in ("dyadic", "int"):
            for i in range(n):
                row = []
                if r.random() < 0.15:
                    rows.append(row)           # empty row
                    continue
                for j in range(m):
                    if r.random() < 0.6:       # explicit zeros possible
                        row.append([j, dy(r, -2, 2, 4) if mode == "dyadic" else r.randint(-3, 3)])
                if row and r.random() < 0.15:
                    row.append([row[0][0], dy(r, -2, 2, 4) if mode == "dyadic" else r.randint(-3, 3)])
                rows.append(row)
        elif mode == "select":
            for i in range(n):
                rows.append([[r.randrange(m), 1.0]])
            if r.random() < 0.2:
                rows[r.randrange(n)] = []      # nnz = rows - 1
        elif mode == "sum01":
            for i in range(n):
                k = r.choice([0, 1, 1, 2, 2, 3])
                cols = [r.randrange(m) for _ in range(k)] if r.random() < 0.2 else \
                    r.sample(range(m), min(k, m))           # 20%: repeated columns allowed
                rows.append([[j, 1.0] for j in cols])
        else:
            # total number of ones == n, distributed unevenly when n >= 2
            counts = [1] * n
            if n >= 2:
                for _ in range(r.randint(1, n - 1)):
                    src = r.choice([i for i in range(n) if counts[i] > 0])
                    dst = r.choice([i for i in range(n) if i != src])
                    counts[src] -= 1
                    counts[dst] += 1
            for i in range(n):
                k = counts[i]
                cols = r.sample(range(m), k) if k <= m and r.random() < 0.8 else \
                    [r.randrange(m) for _ in range(k)]
                rows.append([[j, 1.0] for j in cols])
        for row in rows:
            if r.random() < 0.5:
                r.shuffle(row)                 # unsorted column indices within a row
        fmt = r.choice(["csr", "csr", "csr", "csr_canon", "csc", "coo"])
        return {"shape": [n, m], "rows": rows, "fmt": fmt, "mode": mode}

    def key(self, n, m):
        """A key selecting n entries out of m."""
        r = self.rng
        if n == 1 and r.random() < 0.5:
            return ["int", r.randrange(-m, m)]
        if r.random() < 0.4:
            for _ in range(20):
                start = r.randrange(0, m)
                step = r.choice([1, 1, 2, -1])
                stop = start + step * n
                k = ["slice", start, stop if stop >= 0 else None, step]
                try:
                    if len(resolve_idx(k, m)) == n:
                        return k
                except Exception:
                    pass
        return ["idx", [r.randrange(0, m) for _ in range(n)]]

    def leaf(self, n):
        r = self.rng
        ks = [k for k, s in enumerate(self.sizes) if s == n]
        if ks and r.random() < 0.85:
            return ["var", r.choice(ks)]
        k = r.randrange(len(self.sizes))
        m = self.sizes[k]
        if r.random() < 0.5:
            return ["matmul", self.sparse(n, m), ["var", k]]
        return ["slice", self.key(n, m), ["var", k]]

    # wrappers that put a sub-expression into a restricted domain by construction
    def positive(self, c, off=0.5):
        return ["addk", ["mul", c, c], ["s", off]]

    def unit(self, c):
        return ["div", c, ["addk", ["mul", c, c], ["s", 1.0]]]

    def tree(self, n, d):
        r = self.rng
        if d <= 0 or r.random() < 0.12:
            return self.leaf(n)
        trans = self.kind == "trans"
        x = r.random()
        sub = lambda: self.tree(n, d - 1)
        if x < 0.28:
            op = r.choice(["add", "sub", "mul", "mul", "div", "max"] +
                          (["pow", "rpow", "rdiv"] if trans else ["rdiv"]))
            a, b = sub(), sub()
            if op == "div" and r.random() < 0.7:
                b = self.positive(b)
            if op == "rdiv" and r.random() < 0.7:
                a = self.positive(a)
            if op == "pow":
                a = self.positive(a) if r.random() < 0.8 else a
            if op == "rpow":
                b = self.positive(b) if r.random() < 0.8 else b
            return [op, a, b]
        if x < 0.52:
            op = r.choice(list(KOPS) + ["maxkl", "powk", "powk"])
            a = sub()
            if op == "powk":
                if trans and r.random() < 0.4:
                    p = r.choice([0.5, -0.5, 1.5, 2.5, -1.25, 0.25])
                    pc = ["s", p] if r.random() < 0.6 else ["a", [r.choice([0.5, 1.5, -0.5, 2.0]) for _ in range(n)]]
                    return ["powk", self.positive(a) if r.random() < 0.8 else a, pc]
                if r.random() < 0.6:
                    p = r.choice([2, 3, 1, 2, -1, -2, 0, 3, 4, 5, 4, 5, 6, -3])
                    pc = r.choice([["s", p, "int"], ["s", float(p)], ["s", float(p), "np"]])
                else:
                    pc = ["a", [r.choice([1, 2, 3, 4, 5, -1, -2, 0]) for _ in range(n)]]
                    if r.random() < 0.3:
                        pc.append("int")
                if r.random() < 0.6:
                    a = self.positive(a)
                return ["powk", a, pc]
            if op == "rpowk":
                if not trans:
                    op = "rmulk"
                else:
                    c = ["s", r.choice([2, 0.5, 1.5, 3])] if r.random() < 0.6 else \
                        ["a", [r.choice([2.0, 0.5, 1.5, 3.0]) for _ in range(n)]]
                    return ["rpowk", a, c]
            if op == "divk":
                return [op, a, self.const(n, -3, 3, nonzero=True)]
            if op == "rdivk":
                return [op, self.positive(a) if r.random() < 0.7 else a, self.const(n)]
            if op == "maxkl":
                return [op, self.const(n, allow_int=False), a]
            if op == "maxkr":
                return [op, a, self.const(n, allow_int=False)]
            c = self.const(n)
            if op in ("addk", "subk", "mulk", "divk") and c[0] == "s" and len(c) == 2 and r.random() < 0.3:
                if not (op == "divk" and c[1] == 0):
                    c = ["s", c[1], "np"]
            return [op, a, c]
        if x < 0.57:
            return ["neg", sub()]
        if x < 0.65 and self.nmat < 3:
            self.nmat += 1
            m = r.randint(1, 4) if r.random() < 0.5 else r.randint(min(n + 1, 4), 4)
            return ["matmul", self.sparse(n, m), self.tree(m, d - 1)]
        if x < 0.71:
            m = r.randint(n, 4) if n <= 4 else n
            return ["slice", self.key(n, m), self.tree(m, d - 1)]
        if x < 0.75 and n <= 2:
            dim = r.choice([1, 2, 3]) if trans else 1
            return ["l2", dim, self.tree(n * dim, d - 1)]
        # library functions
        names = list(FUN_RAT) + (list(FUN_TRANS) * 3 + ["safe_power"] * 4 if trans else [])
        name = r.choice(names)
        a = sub()
        par = None
        w = r.random() < 0.75
        if name == "heaviside":
            par = r.choice([0.0, 0.5, 1.0])
        elif name == "characteristic":
            par = r.choice([0.25, 0.5, 1.0])
        elif name == "heaviside_smooth":
            par = r.choice([1e-3, 0.125, 0.5])
        elif name == "safe_power":
            pw = r.choice([-1, 2, 3, -2, 0.5, -0.5, 1.5])
            par = [pw, r.choice([0.0, 1.0, 0.75]), r.choice([1e-8, 0.125, 0.5]),
                   "int" if pw == int(pw) and r.random() < 0.5 else "float"]
            if pw != int(pw) and w:
                a = self.positive(a)
        if name in ("log",) and w:
            a = self.positive(a)
        elif name in ("arcsin", "arccos", "arctanh", "tan") and w:
            a = self.unit(a)
        elif name == "arccosh" and w:
            a = self.positive(a, 1.5)
        elif name in ("exp", "sinh", "cosh") and w:
            a = self.unit(a) if r.random() < 0.5 else a
        return ["fun", name, par, a]


PYTH = {2: [(3, 4), (5, 12), (8, 15), (4, 3)], 3: [(1, 2, 2), (2, 3, 6), (2, 2, 1), (6, 2, 3)]}


def gen_l2_case(rng):
    """l2_norm(dim > 1) on blocks with exact zero components, axis-aligned, Pythagorean
    and all-zero blocks (the latter outside the smooth domain: tie only)."""
    dim = rng.choice([2, 3])
    nb = rng.randint(1, 3)
    v0 = []
    wide = rng.random() < 0.75
    # block magnitudes 2^-60 .. 2^20: the decade band (1e-12, 1e-8] (2^-38 .. 2^-27), both
    # sides of the code's 1e-12 switch (2^-40 .. 2^-38) and far below it
    smooth_only = rng.random() < 0.5      # all blocks above the switch: oracle applies
    exps = L2_EXPS_ABOVE if smooth_only else L2_EXPS
    scales = [2.0 ** rng.choice(exps) if wide else 1.0 for _ in range(nb)]
    if wide and nb >= 2 and rng.random() < 0.7:       # a huge and a tiny block side by side
        i, j = rng.sample(range(nb), 2)
        scales[i], scales[j] = 2.0 ** rng.choice([20, 23]), 2.0 ** rng.choice([-36, -34, -33, -30, -28, -23])
    elif wide and rng.random() < 0.5:
        scales[rng.randrange(nb)] = 2.0 ** rng.choice([-36, -35, -34, -33, -31, -30, -28])
    for b_ in range(nb):
        s = dy(rng, -3, 3, 4, nonzero=True) * scales[b_]
        pat = rng.choice(["axis", "axis", "pyth", "pyth", "onezero"] + ([] if smooth_only else ["zero"]))
        if pat == "axis":
            blk = [0.0] * dim
            blk[rng.randrange(dim)] = s
        elif pat == "pyth":
            blk = [s * c * rng.choice([1, -1]) for c in rng.choice(PYTH[dim])]
        elif pat == "zero":
            blk = [0.0] * dim
        else:
            a, b = rng.choice(PYTH[2])
            blk = [s * a, s * b] + ([0.0] if dim == 3 else [])
            if dim == 3:
                rng.shuffle(blk)
            else:
                blk = [s * a, 0.0] if rng.random() < 0.5 else [0.0, s * b]
        v0 += blk
    X = [v0, [dy(rng, -3, 3, 8, nonzero=True) for _ in range(nb)]]
    V = rng.choice([["var", 0], ["var", 0], ["neg", ["var", 0]],
                    ["mulk", ["var", 0], ["s", rng.choice([-2.0, 0.5, 4.0, 0.25])]],
                    ["rmulk", ["var", 0], ["s", 2, "int"]]])
    T = ["l2", dim, V]
    w = rng.random()
    if w < 0.25:
        T = ["mul", T, ["var", 1]]
    elif w < 0.45:
        T = ["addk", ["mul", T, T], ["s", 0.5]]
    elif w < 0.6:
        T = ["sub", ["var", 1], T]
    elif w < 0.7:
        T = ["matmul", {"shape": [1, nb], "rows": [[[j, 1.0] for j in range(nb)]], "fmt": "csr"}, T]
    return {"kind": "rat", "vars": X, "tree": T, "kink": 1.2e-12, "big": 1e12}


L2_EXPS_ABOVE = [-36, -35, -34, -33, -31, -30, -28, -27, -26, -23, -10, 0, 0, 10, 20]
L2_EXPS = L2_EXPS_ABOVE + [-60, -45, -41, -40, -39, -38, -37]
SCALE_EXPS = [-23, -20, -10, -3, 0, 0, 3, 10, 20, 23]


def gen_scaled_case(rng):
    """Magnitude-sensitive functions (abs/sign, heaviside, characteristic, maximum,
    safe_power) on one array whose entries span ~14 orders of magnitude (exact
    power-of-two scalings of dyadic numbers, so every kink argument is exact)."""
    n = rng.randint(2, 5)

    def entry():
        return dy(rng, -3, 3, 8, nonzero=True) * 2.0 ** rng.choice(SCALE_EXPS)
    X = [[entry() for _ in range(n)], [entry() for _ in range(n)]]
    if rng.random() < 0.7:
        X[0][rng.randrange(n)] = dy(rng, 1, 3, 8) * 2.0 ** 23
        X[0][rng.randrange(n)] = dy(rng, 1, 3, 8) * 2.0 ** -23 * rng.choice([1, -1])
    a = rng.choice([["var", 0], ["neg", ["var", 0]], ["mulk", ["var", 0], ["s", rng.choice([0.5, -4.0])]]])
    carr = ["a", [entry() for _ in range(n)]]
    T = rng.choice([
        ["fun", "abs", None, a],
        ["mul", ["fun", "abs", None, a], ["var", 1]],
        ["mul", ["fun", "heaviside", rng.choice([0.0, 0.5, 1.0]), a], ["var", 1]],
        ["add", ["fun", "characteristic", rng.choice([2.0 ** -30, 2.0 ** -10, 0.25]), a], ["var", 1]],
        ["max", a, ["var", 1]],
        ["max", ["var", 1], a],
        ["maxkr", a, carr],
        ["maxkl", carr, a],
        ["maxkr", a, ["s", rng.choice([0.0, 2.0 ** -20, 1.0, 2.0 ** 20])]],
        ["l2", 1, a],
        ["div", ["var", 1], ["fun", "abs", None, a]],
    ])
    return {"kind": "rat", "vars": X, "tree": T, "kink": 1e-12, "big": 1e16}


def gen_hist_case(rng):
    """A history of statements: AdArrays are created, others derived from them, some
    mutated by  y[key] = z,  and the earlier ones are used again."""
    n = rng.randint(2, 4)
    nv = rng.randint(1, 2)
    X = [[dy(rng, -3, 3, 8, nonzero=True) for _ in range(n)] for _ in range(nv)]

    def leaf():
        return ["var", rng.randrange(nv)]

    def small(refs):
        base = rng.choice([leaf()] + [["ref", k] for k in refs] * 2) if refs else leaf()
        w = rng.random()
        if w < 0.3:                      # (a bare name would alias by Python semantics)
            return ["addk", base, ["s", 0.5]]
        if w < 0.5:
            return ["mul", base, leaf()]
        if w < 0.7:
            return ["add", base, ["mul", leaf(), leaf()]]
        if w < 0.85:
            return ["mulk", base, ["s", dy(rng, -2, 2, 4, nonzero=True)]]
        return ["sub", base, leaf()]

    def sharing(k):
        """operations whose result might share storage with its operand"""
        c = rng.choice([["s", dy(rng, -2, 2, 4)], ["a", [dy(rng, -2, 2, 4) for _ in range(n)]],
                        ["s", 0.0], ["s", 1, "int"]])
        return rng.choice([["addk", ["ref", k], c], ["subk", ["ref", k], c], ["raddk", ["ref", k], c],
                           ["rsubk", ["ref", k], c], ["mulk", ["ref", k], ["s", 1.0]],
                           ["divk", ["ref", k], ["s", 1.0]], ["neg", ["neg", ["ref", k]]],
                           ["slice", ["slice", None, None, 1], ["ref", k]],
                           ["powk", ["ref", k], ["s", 1.0]], ["add", ["ref", k], leaf()]])

    stmts = [["let", small([])]]
    nlet = 1
    for _ in range(rng.randint(3, 7)):
        w = rng.random()
        if w < 0.35:
            stmts.append(["let", sharing(rng.randrange(nlet))])
            nlet += 1
        elif w < 0.65 and nlet >= 2:
            tgt = rng.randrange(1, nlet) if rng.random() < 0.8 else 0
            m = rng.randint(1, n)
            key = rng.choice([["idx", sorted(rng.sample(range(n), m))],
                              ["slice", 0, m, 1], ["int", rng.randrange(n)]])
            if key[0] == "int":
                m = 1
            src = ["slice", ["idx", [rng.randrange(n) for _ in range(m)]],
                   ["mul", leaf(), ["addk", leaf(), ["s", 1.5]]]]
            stmts.append(["set", tgt, key, src])
        else:
            stmts.append(["let", small(list(range(nlet)))])
            nlet += 1
    stmts.append(["let", ["mul", ["ref", 0], leaf()]])       # the first array is used again
    return {"kind": "hist", "vars": X, "stmts": stmts}


def expand_refs(t, defs):
    """The tree with every ["ref", k] replaced by the (expanded) tree that defined array k;
    None when array k is not a pure expression any more (it was assigned to)."""
    if t[0] == "ref":
        return defs[t[1]]
    out = []
    for c in t:
        if isinstance(c, list) and c and isinstance(c[0], str) and c[0] in ALL_OPS:
            e = expand_refs(c, defs)
            if e is None:
                return None
            out.append(e)
        else:
            out.append(c)
    return out


def gen_case(rng, kind, tier):
    if kind == "rat" and rng.random() < 0.12:
        for _ in range(50):
            c = gen_l2_case(rng)
            if q_executable(c["tree"], c["vars"]):
                return c
    maxdepth = (5 if kind == "rat" else 4) if tier == "quick" else (6 if kind == "rat" else 5)
    for _ in range(200):
        nv = rng.randint(1, 3)
        sizes = [rng.randint(1, 4) for _ in range(nv)]
        if rng.random() < 0.5:
            sizes = [sizes[0]] * nv
        nz = rng.random() < 0.7
        X = [[dy(rng, -3, 3, 8, nonzero=nz or rng.random() < 0.6) for _ in range(s)] for s in sizes]
        g = Gen(rng, kind, sizes, maxdepth)
        n = rng.choice(sizes) if rng.random() < 0.8 else rng.randint(1, 4)
        tree = g.tree(n, rng.randint(2, maxdepth))
        if sum(1 for _ in subtrees(tree)) > 60:
            continue
        if in_domain(tree, X) and (kind != "rat" or q_executable(tree, X)):
            return {"kind": kind, "vars": X, "tree": tree}
    return {"kind": kind, "vars": [[1.5, -0.5]], "tree": ["mul", ["var", 0], ["var", 0]]}


def gen_sp_case(rng):
    """safe_power on a vector with identity Jacobian: entries above, below and at zero;
    integer powers go to the Coq tie, all to the oracle."""
    tol = rng.choice([1e-8, 0.125, 0.5, 0.0])
    n = rng.randint(1, 5)
    pw = rng.choice([-1, -1, 2, 3, -2, 1, 0, 0.5, -0.5, 1.5])
    xs = []
    while len(xs) < n:
        v = rng.choice([0.0, dy(rng, -3, 3, 8), dy(rng, 0, 3, 8), dy(rng, -0.4, 0.4, 64)])
        if abs(abs(v) - tol) < MARGIN and not (v == 0.0 and tol < 1e-6):
            continue
        if pw != int(pw) and abs(v) > tol and v < MARGIN:
            continue
        if pw <= 0 and tol < 1e-6 and v != 0.0 and abs(v) < MARGIN:
            continue
        xs.append(v)
    return {"kind": "sp", "x": xs, "power": pw, "int_type": rng.random() < 0.5,
            "zero_val": rng.choice([0.0, 1.0, 0.75, -2.0]), "tol": tol}


def gen_set_case(rng):
    """a[key] = b on AdArrays (rows of value and Jacobian are replaced)."""
    n = rng.randint(1, 5)
    sizes = [n, n]
    X = [[dy(rng, -3, 3, 8, nonzero=True) for _ in range(n)] for _ in range(2)]
    ta = rng.choice([["var", 0], ["mul", ["var", 0], ["var", 1]], ["addk", ["var", 1], ["s", 1.5]]])
    m = rng.randint(1, n)
    kind = rng.choice(["int", "slice", "idx"])
    if kind == "int":
        key, m = ["int", rng.randrange(-n, n)], 1
    elif kind == "slice":
        start = rng.randrange(0, n - m + 1)
        key = ["slice", start, start + m, 1]
    else:
        key = ["idx", rng.sample(range(n), m)]
    tb = rng.choice([["slice", ["idx", [rng.randrange(n) for _ in range(m)]], ["mul", ["var", 1], ["var", 1]]],
                     ["slice", ["idx", [rng.randrange(n) for _ in range(m)]], ["rdivk", ["var", 0], ["s", 2.0]]]])
    return {"kind": "set", "vars": X, "a": ta, "b": tb, "key": key}


# corner cases that are always part of the stream (index into this list)
DIRECTED = [
    # reflected operators with scalars and arrays
    {"kind": "rat", "vars": [[2.0, -0.5], [1.0, 4.0]],
     "tree": ["rsubk", ["rdivk", ["mul", ["var", 0], ["var", 1]], ["s", 3, "int"]], ["a", [1.0, 2.0]]]},
    {"kind": "rat", "vars": [[2.0, -0.5], [1.0, 4.0]],
     "tree": ["rdivk", ["rsubk", ["var", 0], ["s", 5.0]], ["a", [2.0, -3.0]]]},
    {"kind": "rat", "vars": [[2.0, -0.5], [1.0, 4.0]],
     "tree": ["div", ["raddk", ["var", 0], ["a", [0.5, 0.25]]], ["rmulk", ["var", 1], ["s", 2, "int"]]]},
    {"kind": "rat", "vars": [[2.0, -0.5], [1.0, 4.0]],
     "tree": ["rdiv", ["var", 0], ["powk", ["var", 1], ["s", -2.0]]]},
    # scalar integer-valued exponents 3, 4, 5 as int, float and numpy scalar; Ad ** Ad
    {"kind": "rat", "vars": [[2.0, -0.5, 1.5]], "tree": ["powk", ["var", 0], ["s", 3, "int"]]},
    {"kind": "rat", "vars": [[2.0, -0.5, 1.5]], "tree": ["powk", ["var", 0], ["s", 4.0]]},
    {"kind": "rat", "vars": [[2.0, -0.5, 1.5]], "tree": ["powk", ["var", 0], ["s", 5.0, "np"]]},
    {"kind": "rat", "vars": [[2.0, -0.5, 1.5], [0.25, 3.0, -2.0]],
     "tree": ["mul", ["powk", ["add", ["var", 0], ["var", 1]], ["s", 3.0]], ["powk", ["var", 1], ["s", 4, "int"]]]},
    {"kind": "trans", "vars": [[2.0, 0.5, 1.5], [3.0, 4.0, 5.0]], "tree": ["pow", ["var", 0], ["var", 1]]},
    # integer powers incl. 0, 1, negative, array exponents
    {"kind": "rat", "vars": [[2.0, -0.5, 1.5]],
     "tree": ["powk", ["var", 0], ["a", [0, 1, -3], "int"]]},
    {"kind": "rat", "vars": [[0.0, -0.5, 1.5]],
     "tree": ["powk", ["var", 0], ["s", 1.0]]},
    {"kind": "rat", "vars": [[0.0, -0.5, 1.5]],
     "tree": ["powk", ["var", 0], ["s", 3, "int"]]},
    # slicing of one of several variables (coo Jacobian before the repair), all key kinds
    {"kind": "rat", "vars": [[1.0, 2.0, 3.0], [4.0, 5.0]],
     "tree": ["mul", ["slice", ["int", 0], ["var", 0]], ["slice", ["int", -1], ["var", 1]]]},
    {"kind": "rat", "vars": [[1.0, 2.0, 3.0], [4.0, 5.0]],
     "tree": ["add", ["slice", ["slice", None, None, -1], ["var", 0]],
              ["slice", ["idx", [1, 1, 0]], ["var", 1]]]},
    # sparse left product: empty row, explicit zero, duplicates, all formats
    {"kind": "rat", "vars": [[1.0, 2.0, 3.0], [4.0, 5.0]],
     "tree": ["matmul", {"shape": [3, 2], "rows": [[], [[0, 0.0], [1, 2.0]], [[1, 1.0], [1, 0.5]]], "fmt": "coo"},
              ["mul", ["var", 1], ["var", 1]]]},
    {"kind": "rat", "vars": [[1.0, 2.0, 3.0], [4.0, 5.0]],
     "tree": ["matmul", {"shape": [2, 3], "rows": [[[0, 1.0], [2, -1.0]], [[1, 0.5]]], "fmt": "csc"},
              ["div", ["var", 0], ["addk", ["var", 0], ["s", 1.0]]]]},
    # 0/1 matrices: restriction (one 1 per row, unsorted), aggregation with an empty row and
    # a row of two ones (stored entries == rows, wide), tall and square sums, duplicates
    {"kind": "rat", "vars": [[1.0, 2.0, 3.0], [4.0, 5.0]],
     "tree": ["matmul", {"shape": [2, 3], "rows": [[[2, 1.0]], [[0, 1.0]]], "fmt": "csr"}, ["var", 0]]},
    {"kind": "rat", "vars": [[1.0, 2.0, 3.0], [4.0, 5.0]],
     "tree": ["matmul", {"shape": [2, 3], "rows": [[], [[2, 1.0], [0, 1.0]]], "fmt": "csr"}, ["var", 0]]},
    {"kind": "rat", "vars": [[1.0, 2.0, 3.0], [4.0, 5.0]],
     "tree": ["matmul", {"shape": [2, 3], "rows": [[[0, 1.0], [1, 1.0]], []], "fmt": "csr_canon"},
              ["mul", ["var", 0], ["var", 0]]]},
    {"kind": "rat", "vars": [[1.0, 2.0, 3.0, -1.0], [4.0, 5.0]],
     "tree": ["matmul", {"shape": [3, 4], "rows": [[[1, 1.0], [3, 1.0], [0, 1.0]], [], []], "fmt": "csr"}, ["var", 0]]},
    {"kind": "rat", "vars": [[1.0, 2.0, 3.0], [4.0, 5.0]],
     "tree": ["matmul", {"shape": [2, 3], "rows": [[[1, 1.0], [1, 1.0]], []], "fmt": "csr"}, ["var", 0]]},
    {"kind": "rat", "vars": [[1.0, 2.0, 3.0], [4.0, 5.0]],
     "tree": ["matmul", {"shape": [3, 2], "rows": [[[0, 1.0], [1, 1.0]], [[1, 1.0]], []], "fmt": "csc"}, ["var", 1]]},
    {"kind": "rat", "vars": [[1.0, 2.0, 3.0], [4.0, 5.0]],
     "tree": ["matmul", {"shape": [2, 2], "rows": [[[0, 1.0], [1, 1.0]], []], "fmt": "coo"}, ["var", 1]]},
    # maximum: both orders, constants, tie excluded; abs / heaviside / characteristic
    {"kind": "rat", "vars": [[1.0, 2.0, 3.0], [2.5, 0.5, 4.0]],
     "tree": ["max", ["mul", ["var", 0], ["var", 0]], ["var", 1]]},
    {"kind": "rat", "vars": [[1.0, 2.0, 3.0]],
     "tree": ["maxkl", ["s", 2.5], ["maxkr", ["var", 0], ["a", [0.0, 3.5, 0.5]]]]},
    {"kind": "rat", "vars": [[1.0, -2.0, 3.0]],
     "tree": ["mul", ["fun", "abs", None, ["var", 0]], ["fun", "heaviside", 0.5, ["var", 0]]]},
    {"kind": "rat", "vars": [[1.0, -0.125, 3.0]],
     "tree": ["add", ["fun", "characteristic", 0.25, ["var", 0]], ["l2", 1, ["var", 0]]]},
    # l2_norm blocks with exact zero components / all-zero block (executed over Q)
    {"kind": "rat", "vars": [[3.0, 0.0, 0.0, -2.5], [1.0, 2.0]],
     "tree": ["mul", ["l2", 2, ["var", 0]], ["var", 1]]},
    {"kind": "rat", "vars": [[0.0, 1.5, 0.0, 2.0, 3.0, 6.0], [1.0, 2.0]],
     "tree": ["l2", 3, ["var", 0]]},
    {"kind": "rat", "vars": [[0.0, 0.0, 0.0, 3.0, 0.0, 4.0], [1.0, 2.0]],
     "tree": ["l2", 3, ["neg", ["var", 0]]]},
    {"kind": "rat", "vars": [[0.0, 0.0, 3.0, 4.0], [1.0, 2.0]],
     "tree": ["l2", 2, ["var", 0]]},
    # histories: derive y from x, assign rows of y, use x again
    {"kind": "hist", "vars": [[1.0, 2.0, 3.0], [4.0, 5.0, 6.0]],
     "stmts": [["let", ["mul", ["var", 0], ["var", 1]]],
               ["let", ["addk", ["ref", 0], ["s", 1.0]]],
               ["set", 1, ["idx", [0, 2]], ["slice", ["idx", [1, 1]], ["mul", ["var", 1], ["var", 1]]]],
               ["let", ["mul", ["ref", 0], ["var", 0]]],
               ["let", ["subk", ["ref", 0], ["a", [1.0, 0.5, 0.25]]]],
               ["set", 3, ["int", 1], ["slice", ["int", 0], ["var", 0]]],
               ["let", ["add", ["ref", 0], ["ref", 2]]]]},
    {"kind": "hist", "vars": [[1.5, -2.0]],
     "stmts": [["let", ["rsubk", ["var", 0], ["s", 0.0]]],
               ["let", ["raddk", ["ref", 0], ["s", 0, "int"]]],
               ["set", 1, ["slice", 0, 2, 1], ["mul", ["var", 0], ["var", 0]]],
               ["let", ["mul", ["ref", 0], ["ref", 0]]]]},
    # blocks / entries of very different magnitude in ONE array
    {"kind": "rat", "vars": [[6291456.0, 8388608.0, 7.152557373046875e-07, 9.5367431640625e-07], [1.0, 2.0]],
     "tree": ["l2", 2, ["var", 0]], "kink": 1e-9, "big": 1e12},
    {"kind": "rat", "vars": [[8388608.0, 0.0, 0.0, 0.0, 0.0, 2.384185791015625e-07], [1.0, 2.0]],
     "tree": ["mul", ["l2", 3, ["var", 0]], ["var", 1]], "kink": 1e-9, "big": 1e12},
    {"kind": "rat", "vars": [[8388608.0, -1.1920928955078125e-07, 2.0], [1.0, -4194304.0, 2.384185791015625e-07]],
     "tree": ["mul", ["fun", "abs", None, ["var", 0]], ["max", ["var", 0], ["var", 1]]], "kink": 1e-12, "big": 1e16},
    # l2_norm: vectors in the band (1e-12, 1e-8], just above / below the 1e-12 switch, 2^-60
    {"kind": "rat", "vars": [[3 * 2.0 ** -31, 4 * 2.0 ** -31, 1048576.0, 0.0], [1.0, 2.0]],
     "tree": ["l2", 2, ["var", 0]], "kink": 1.2e-12, "big": 1e12},
    {"kind": "rat", "vars": [[2.0 ** -34, 2 * 2.0 ** -34, 2 * 2.0 ** -34, 0.0, 2.0 ** -38, 0.0], [1.0, 2.0]],
     "tree": ["mul", ["l2", 3, ["var", 0]], ["var", 1]], "kink": 1.2e-12, "big": 1e12},
    {"kind": "rat", "vars": [[3 * 2.0 ** -43, 4 * 2.0 ** -43, 3 * 2.0 ** -60, 4 * 2.0 ** -60, 3 * 2.0 ** -42, 4 * 2.0 ** -42], [1.0, 2.0, 3.0]],
     "tree": ["l2", 2, ["var", 0]], "kink": 1.2e-12, "big": 1e12},
    # safe_power: the Jacobian defect repaired in 7cefac836 (power -1 at 2.0 gave -4)
    {"kind": "sp", "x": [2.0, 0.5, 0.0, -1.5], "power": -1, "int_type": True, "zero_val": 7.0, "tol": 1e-8},
    {"kind": "sp", "x": [2.0, 0.5, 0.0625, 3.0], "power": 0.5, "int_type": False, "zero_val": 1.0, "tol": 0.125},
    {"kind": "trans", "vars": [[2.0, 0.5, -1.5]],
     "tree": ["mul", ["fun", "safe_power", [3, 0.0, 1e-8, "int"], ["var", 0]], ["var", 0]]},
    {"kind": "set", "vars": [[1.0, 2.0, 3.0], [4.0, 5.0, 6.0]], "a": ["mul", ["var", 0], ["var", 1]],
     "b": ["slice", ["idx", [2, 0]], ["var", 1]], "key": ["idx", [0, 2]]},
    # transcendental composition
    {"kind": "trans", "vars": [[0.5, 1.25], [2.0, 0.75]],
     "tree": ["pow", ["var", 1], ["fun", "sin", None, ["var", 0]]]},
    {"kind": "trans", "vars": [[0.5, 1.25], [2.0, 0.75]],
     "tree": ["rpowk", ["fun", "tanh", None, ["mul", ["var", 0], ["var", 1]]], ["s", 2, "int"]]},
    {"kind": "trans", "vars": [[0.5, 1.25, -1.0, 2.0]],
     "tree": ["l2", 2, ["fun", "exp", None, ["var", 0]]]},
    {"kind": "trans", "vars": [[0.5, 0.25], [2.0, 1.75]],
     "tree": ["fun", "arccosh", None, ["rdivk", ["fun", "arctanh", None, ["var", 0]], ["a", [1.0, 2.0]]]]},
]


# ----------------------------------------------------------------------------------------
# Coq emission (rational fragment)
# ----------------------------------------------------------------------------------------
def _qc(c):
    if c[0] == "s":
        return f"(CS {cq(c[1])})"
    return f"(CA {clist(c[1], cq)})"


def _pexp(p):
    pf = float(p)
    if pf == int(pf):
        return f"(PZ {cz(int(pf))})"
    return f"(PR {cq(pf)})"


def _pc(c):
    if c[0] == "s":
        return f"(PS {_pexp(c[1])})"
    return f"(PA {clist(c[1], _pexp)})"


def emit(t, sizes):
    """Coq term (expr Q) and the length of the result, for the rational fragment."""
    op = t[0]
    if op == "var":
        return f"(Var {t[1]}%nat)", sizes[t[1]]
    if op == "neg":
        a, n = emit(t[1], sizes)
        return f"(Neg {a})", n
    if op in BIN:
        a, n = emit(t[1], sizes)
        b, _ = emit(t[2], sizes)
        name = {"add": "Add", "sub": "Sub", "mul": "Mul", "div": "Div", "pow": "Pow",
                "rdiv": "RDiv", "rpow": "RPow", "max": "Max"}[op]
        return f"({name} {a} {b})", n
    if op in KOPS:
        a, n = emit(t[1], sizes)
        name = {"addk": "AddK", "raddk": "RAddK", "subk": "SubK", "rsubk": "RSubK",
                "mulk": "MulK", "rmulk": "RMulK", "divk": "DivK", "rdivk": "RDivK",
                "rpowk": "RPowK", "maxkr": "MaxKR"}[op]
        return f"({name} {a} {_qc(t[2])})", n
    if op == "maxkl":
        a, n = emit(t[2], sizes)
        return f"(MaxKL {_qc(t[1])} {a})", n
    if op == "powk":
        a, n = emit(t[1], sizes)
        return f"(PowK {a} {_pc(t[2])})", n
    if op == "matmul":
        a, _ = emit(t[2], sizes)
        rows = clist(t[1]["rows"], lambda row: clist(row, lambda ja: f"({ja[0]}%nat, {cq(ja[1])})"))
        return f"(MatMul {rows} {a})", t[1]["shape"][0]
    if op == "slice":
        a, m = emit(t[2], sizes)
        idx = resolve_idx(t[1], m)
        return f"(Slice {clist(idx, lambda j: f'{j}%nat')} {a})", len(idx)
    if op == "fun":
        a, n = emit(t[3], sizes)
        name = t[1]
        if name == "heaviside":
            f = f"(Fheaviside {cq(t[2])})"
        elif name == "characteristic":
            f = f"(Fcharacteristic {cq(t[2])})"
        elif name == "heaviside_smooth":
            f = f"(Fheaviside_smooth {cq(t[2])})"
        else:
            f = COQ_FN[name]
        return f"(Fun {f} {a})", n
    if op == "l2":
        a, n = emit(t[2], sizes)
        return f"(L2 {int(t[1])}%nat {a})", n // int(t[1])
    raise ValueError(op)


# ----------------------------------------------------------------------------------------
# tie part (b): transcendental rules against the real-number instance, by Interval
# ----------------------------------------------------------------------------------------
TIE_B_PREAMBLE = """From Coq Require Import Reals ZArith List Lra.
From Interval Require Import Tactic.
From PP Require Import Model.C01 Model.C01R Model.C01X Proofs.C01 Proofs.C01_fun.
Import ListNotations.
Open Scope R_scope.
(* expose the real-number expression the model's definitions denote, then let the
   Interval tactic bound it *)
Ltac unf_all :=
  cbv [l2_dual l2_val sumsq l2_tol fold_right map
       d_add_ad d_add_k d_neg d_sub_ad d_sub_k d_rsub_k d_mul_s d_mul_a d_mul_ad
       d_powz_k d_powr_k d_pow_k d_pow_ad d_rpow_k d_div_s d_div_a d_div_ad d_rdiv_s
       d_rdiv_a d_rdiv_ad d_rpow_ad d_fun d_max fval ffac half np_abs np_sign
       np_heaviside np_isclose0 max_plain pow_plain
       ROps o0 o1 oadd osub omul odiv oopp opowz orpow oofZ oltb oprim opi primR
       fst snd].
Ltac tie_b :=
  unfold d_safe_power, sp_val, sp_fac; rewrite ?np_abs_Rabs;
  unf_all; unfold acoshR, atanhR, arcsinh, tanh, sinh, cosh;
  rewrite ?acos_asin by lra; rewrite ?asin_atan by lra; unfold Rsqr;
  repeat first [rewrite ltbR_true by interval | rewrite ltbR_ge by interval]; cbv beta iota;
  interval.
"""


def rlit(x):
    """Exact real literal of a float / Fraction."""
    fr = Fraction(x)
    n, d = fr.numerator, fr.denominator
    s = f"{abs(n)}" if d == 1 else f"({abs(n)} / {d})"
    return f"(- {s})" if n < 0 else s


def _eps(c):
    return Fraction(1, 10 ** 9) * (1 + abs(Fraction(c)))


def goal(term, c):
    return f"Goal Rabs ({term} - {rlit(c)}) <= {rlit(_eps(c))}.\nProof. tie_b. Qed.\n"


def tie_b_points(rng, per):
    """(description, model term for value, impl value, model term for factor, impl factor)"""
    out = []

    def unary(fname, coqf, call, lo, hi, den=64):
        xs = [dy(rng, lo, hi, den) for _ in range(per)]
        n = len(xs)
        a = pp.ad.AdArray(np.array(xs), sps.identity(n, format="csr"))
        r = call(a)
        J = r.jac.toarray()
        for i, x in enumerate(xs):
            off = [J[i, j] for j in range(n) if j != i]
            out.append((f"{fname}({x})",
                        f"fst (d_fun ROps {coqf} ({rlit(x)}, 1))", float(r.val[i]),
                        f"snd (d_fun ROps {coqf} ({rlit(x)}, 1))", float(J[i, i]),
                        all(v == 0 for v in off)))

    unary("exp", "Fexp", F.exp, -3, 3)
    unary("log", "Flog", F.log, 0.1, 6)
    unary("sin", "Fsin", F.sin, -4, 4)
    unary("cos", "Fcos", F.cos, -4, 4)
    unary("tan", "Ftan", F.tan, -1.3, 1.3)
    unary("arcsin", "Farcsin", F.arcsin, -0.95, 0.95)
    unary("arccos", "Farccos", F.arccos, -0.95, 0.95)
    unary("arctan", "Farctan", F.arctan, -5, 5)
    unary("sinh", "Fsinh", F.sinh, -3, 3)
    unary("cosh", "Fcosh", F.cosh, -3, 3)
    unary("tanh", "Ftanh", F.tanh, -3, 3)
    unary("arcsinh", "Farcsinh", F.arcsinh, -5, 5)
    unary("arccosh", "Farccosh", F.arccosh, 1.1, 6)
    unary("arctanh", "Farctanh", F.arctanh, -0.95, 0.95)
    for eps in (Fraction(1, 1024), Fraction(1, 8)):
        unary(f"heaviside_smooth[eps={float(eps)}]", f"(Fheaviside_smooth {rlit(eps)})",
              lambda a, e=float(eps): F.heaviside_smooth(a, e), -1, 1, 256)

    # powers with a transcendental ingredient
    for _ in range(per):
        x = dy(rng, 0.25, 4, 16)
        y = dy(rng, -2, 2, 16)
        p = rng.choice([0.5, -0.5, 1.5, 2.25, -1.75])
        c = rng.choice([2.0, 0.5, 1.5, 3.0])
        I2 = sps.identity(2, format="csr")
        a = pp.ad.AdArray(np.array([x]), I2[0])
        b = pp.ad.AdArray(np.array([y]), I2[1])
        r = a ** b
        J = r.jac.toarray()
        out.append((f"{x}**{y} d/dbase", f"fst (d_pow_ad ROps ({rlit(x)}, 1) ({rlit(y)}, 0))",
                    float(r.val[0]), f"snd (d_pow_ad ROps ({rlit(x)}, 1) ({rlit(y)}, 0))",
                    float(J[0, 0]), True))
        out.append((f"{x}**{y} d/dexp", f"fst (d_pow_ad ROps ({rlit(x)}, 0) ({rlit(y)}, 1))",
                    float(r.val[0]), f"snd (d_pow_ad ROps ({rlit(x)}, 0) ({rlit(y)}, 1))",
                    float(J[0, 1]), True))
        a1 = pp.ad.AdArray(np.array([x]), sps.identity(1, format="csr"))
        r = a1 ** p
        out.append((f"{x}**{p}", f"fst (d_powr_k ROps ({rlit(x)}, 1) {rlit(p)})", float(r.val[0]),
                    f"snd (d_powr_k ROps ({rlit(x)}, 1) {rlit(p)})", float(r.jac.toarray()[0, 0]), True))
        r = a1 ** np.array([p])
        out.append((f"{x}**[{p}]", f"fst (d_powr_k ROps ({rlit(x)}, 1) {rlit(p)})", float(r.val[0]),
                    f"snd (d_powr_k ROps ({rlit(x)}, 1) {rlit(p)})", float(r.jac.toarray()[0, 0]), True))
        b1 = pp.ad.AdArray(np.array([y]), sps.identity(1, format="csr"))
        r = c ** b1
        out.append((f"{c}**{y}", f"fst (d_rpow_k ROps ({rlit(y)}, 1) {rlit(c)})", float(r.val[0]),
                    f"snd (d_rpow_k ROps ({rlit(y)}, 1) {rlit(c)})", float(r.jac.toarray()[0, 0]), True))
        r = b1.__rpow__(np.array([c]))
        out.append((f"[{c}]**{y}", f"fst (d_rpow_k ROps ({rlit(y)}, 1) {rlit(c)})", float(r.val[0]),
                    f"snd (d_rpow_k ROps ({rlit(y)}, 1) {rlit(c)})", float(r.jac.toarray()[0, 0]), True))

    # safe_power with real and integer powers, above and below the switch
    for _ in range(per):
        tol = rng.choice([Fraction(1, 8), Fraction(1, 2), Fraction(1, 10 ** 8)])
        zv = rng.choice([0.0, 1.0, 0.75])
        p = rng.choice([0.5, -0.5, 1.5, -1.0, 2.0, 3.0, -2.0])
        x = dy(rng, 0.0625, 4, 16)
        if abs(x - float(tol)) < MARGIN:
            x += 0.25
        a1 = pp.ad.AdArray(np.array([x]), sps.identity(1, format="csr"))
        r = F.safe_power(p, zv, float(tol), a1)
        pe = f"(PZ ({int(p)}))" if p == int(p) else f"(PR {rlit(p)})"
        t = f"d_safe_power ROps {pe} {rlit(zv)} {rlit(tol)} ({rlit(x)}, 1)"
        out.append((f"safe_power({p},{zv},{float(tol)})({x})", f"fst ({t})", float(r.val[0]),
                    f"snd ({t})", float(r.jac.toarray()[0, 0]), True))

    # l2_norm blocks, dim 2 and 3
    for _ in range(per):
        dim = rng.choice([2, 3])
        nb = rng.choice([1, 2, 2, 3])
        scales = [2.0 ** rng.choice(SCALE_EXPS + L2_EXPS) for _ in range(nb)]
        if nb >= 2 and rng.random() < 0.7:
            scales[0], scales[1] = 2.0 ** 20, 2.0 ** rng.choice([-23, -28, -30, -33, -35])
            rng.shuffle(scales)
        blks = [[(dy(rng, -3, 3, 8, nonzero=True) if rng.random() < 0.65 else 0.0) * sc
                 for _ in range(dim)] for sc in scales]
        flat = [v for b in blks for v in b]
        a = pp.ad.AdArray(np.array(flat), sps.identity(dim * nb, format="csr"))
        r = F.l2_norm(dim, a)
        J = r.jac.toarray()
        for bi, blk in enumerate(blks):
            off = [J[bi, j] for j in range(dim * nb) if not (bi * dim <= j < (bi + 1) * dim)]
            for k in range(dim):
                duals = "; ".join(f"({rlit(b)}, {1 if j == k else 0})" for j, b in enumerate(blk))
                out.append((f"l2_norm block {bi} of {blks} d/d{k}", f"fst (l2_dual ROps [{duals}])",
                            float(r.val[bi]), f"snd (l2_dual ROps [{duals}])",
                            float(J[bi, bi * dim + k]), all(v == 0 for v in off)))
    return out


def run_tie_b(seed, tier):
    """Generate and check the Interval goal files.  Returns (ok, log, stats)."""
    # the goal files import Proofs/C01.vo: build it first (regenerate runs before the
    # driver's own proof step)
    rc, mlog, _ = core.make_targets(["Proofs/C01_fun.vo", "Model/C01X.vo"])
    if rc != 0:
        return False, "make Proofs/C01_fun.vo failed:\n" + mlog[-2000:], {}
    rng = random.Random(seed * 7919 + 17)
    per = 5 if tier == "quick" else 25
    pts = tie_b_points(rng, per)
    gdir = os.path.join(core.GEN, "C01")
    os.makedirs(gdir, exist_ok=True)
    for f in glob.glob(os.path.join(gdir, "tieb_*")):
        os.remove(f)
    bad_struct = [p[0] for p in pts if not p[5]]
    nshard = 4 if tier == "quick" else 12
    shards = [[] for _ in range(nshard)]
    for i, p in enumerate(pts):
        shards[i % nshard].append(p)
    files = []
    for k, sh in enumerate(shards):
        fn = os.path.join(gdir, f"tieb_{k:02d}.v")
        with open(fn, "w") as f:
            f.write(TIE_B_PREAMBLE)
            for (desc, tv, cv, tf, cf, _ok) in sh:
                f.write(f"(* {desc} *)\n")
                f.write(goal(tv, cv))
                f.write(goal(tf, cf))
        files.append(fn)
    procs = [subprocess.Popen(["timeout", "1500", "coqc", "-Q", core.COQ, "PP", "-w", "-all", fn],
                              stdout=subprocess.PIPE, stderr=subprocess.PIPE, text=True, cwd=gdir)
             for fn in files]
    logs = []
    for fn, p in zip(files, procs):
        out, err = p.communicate()
        if p.returncode != 0:
            m = re.search(r"line (\d+)", err)
            ctx = ""
            if m:
                lines = open(fn).read().split("\n")
                ln = int(m.group(1))
                ctx = "\n".join(lines[max(0, ln - 3):ln + 1])
            logs.append(f"{os.path.basename(fn)}: rc={p.returncode}\n{err[-1200:]}\n{ctx}")
    stats = {"rule_instances": len(pts), "interval_goals": 2 * len(pts), "files": len(files),
             "failed_files": len(logs), "off_diagonal_nonzero": bad_struct}
    ok = not logs and not bad_struct
    log = "\n".join(logs)
    if bad_struct:
        log += "\nJacobian of an elementwise function has off-diagonal entries: " + str(bad_struct[:5])
    return ok, log, stats


# ----------------------------------------------------------------------------------------
# the property
# ----------------------------------------------------------------------------------------
class C01(Prop):
    id = "C01"
    props_file = "Props/C01.v"
    preamble = ("From Coq Require Import List ZArith QArith.\nImport ListNotations.\n"
                "From PP Require Import Model.C01 Model.C01Q Model.C01X.\nOpen Scope Q_scope.\n")
    n_cases = (400, 6000)
    design_ref = "DESIGN.md §5 C01 (pragmatic version: hand-transcribed rule table instead of the ast translator)"
    technique = ("Coq proof (Coquelicot is_derive: per-rule derivative lemmas + induction over "
                 "expression trees) tied to the code by vm_compute execution over Q and Interval-checked "
                 "transcendental rules")
    level_text = (
        "Coq theorems over a transcription of every arithmetic overload/branch of AdArray and every "
        "function of pp.ad.functions as (value expression, Jacobian expression) on dual numbers over "
        "the reals: C01_value (for EVERY tree the AD value is the plain evaluation) and C01_jacobian "
        "(for every tree composed of + - * / ** incl. all reflected variants, scalar/array/AdArray "
        "operands, sparse left products, row slicing, exp log abs sin cos tan arcsin arccos arctan "
        "sinh cosh tanh arcsinh arccosh arctanh heaviside heaviside_smooth characteristic_function "
        "l2_norm maximum, to any depth, every point inside the smooth domain of the rules used and "
        "every direction v, the rule table's derivative is the derivative of the plain evaluation "
        "along v), C01_jacobian_linear / C01_jacobian_matrix (the derivative part is linear in v: "
        "a Jacobian matrix), C01_rule_safe_power, C01_setitem_rows, plus per-rule theorems.  The table is tied to the code on every run: (a) random "
        "trees of the rational fragment are built on real AdArrays and Coq recomputes val and the "
        "dense jac with the same definitions over Q; (b) for every transcendental rule the factor "
        "the implementation applied and the value are checked against the real-number instance of "
        "the same definitions by the Interval tactic at random sample points.")
    level_note = (
        "Deviations from DESIGN.md: no ast translator; the rule table is transcribed by hand "
        "(Model/C01.v) and tied by execution (a) and Interval goals (b).  Arrays are modelled as "
        "index->entry functions; shape checks and the ValueError branches of the overloads are not "
        "modelled (generated trees are well-shaped).  numpy's float ** is modelled by the integer power "
        "(powerRZ) for integer-valued exponents and by exp(p ln x) (Rpower) for positive bases; "
        "np.arccosh/np.arctanh by their log formulas (agreement with numpy checked numerically in "
        "(b)); np.arcsin/arccos/arcsinh/sinh/... by the Coq standard library functions.  Smooth domain "
        "excluded by hypothesis: zero denominators, x**n with n<=0 at x=0 (the code yields nan for "
        "x**0 at 0), non-positive bases of real powers / log, |x|>=1 for arcsin/arccos/arctanh, x<=1 "
        "for arccosh, cos x = 0 for tan, x=0 for abs/heaviside, |x|=tol for characteristic_function, "
        "ties of maximum, l2_norm blocks with norm <= 1e-12 (where the code substitutes 1).  Not "
        "proved: IEEE rounding; scipy's sparse product and numpy indexing themselves (modelled as exact "
        "finite sums / selection); RegularizedHeaviside (its Jacobian is by design that of a different, "
        "regularised function); a[key] = number/ndarray (keeps the old Jacobian rows by design, only "
        "a[key] = AdArray is modelled).  safe_power and a[key] = AdArray are stand-alone rules "
        "(C01_rule_safe_power, C01_setitem_rows) outside the tree language of the composition theorem; "
        "trees containing safe_power are covered by the oracle and by Interval instances.  The "
        "Jacobian theorem is per direction plus linearity in the direction (C01_jacobian_linear, "
        "C01_jacobian_matrix: derivative along any finite combination of directions = Jacobian row "
        "times coefficients); Frechet differentiability (uniform o(|h|)) is not stated.  The Q "
        "instance executed in the tie and the R instance of the theorems are the same polymorphic "
        "definitions; a transfer lemma Q->R is not proved.")
    rule = ("70% trees of the rational fragment (+ - * /, integer **, neg, scalar/int/array operands, all "
            "reflected variants, sparse left products (general dyadic / integer matrices and 0/1 selection, "
            "summation, stored-entries==rows-but-not-a-restriction matrices; wide/square/tall, empty rows, "
            "explicit zeros, duplicates, unsorted indices, raw csr/canonical csr/csc/coo), row slicing by int/slice/index array, abs, heaviside, characteristic, maximum) "
            "-> Coq tie (a) + oracle; 30% trees that also contain transcendental functions, real powers, "
            "AdArray**AdArray, c**AdArray, l2_norm -> oracle; depth <= 4 (quick) / 5 (thorough), 1-3 "
            "variables of size 1-4, dyadic data; a directed list of corner trees is always included; "
            "12% of the rational trees are l2_norm(dim 2/3) on blocks with exact zero components, "
            "axis-aligned, Pythagorean and all-zero blocks (executed exactly over Q); 5% safe_power "
            "vectors (entries above/below the switch and exactly 0; integer powers to the Coq tie) and "
            "3% a[key] = AdArray row assignments (Coq tie on the row semantics + aliasing probe); "
            "10% multi-statement histories (let / y[key] = z / reuse; after every statement all "
            "earlier AdArrays and the variables must be unchanged; every still-pure array goes to the Coq "
            "tie and the oracle); 8% magnitude-sensitive functions (abs, heaviside, characteristic, "
            "maximum, l2_norm) on arrays whose entries/blocks span 2^-23..2^23 (exact power-of-two "
            "scalings, kink margin 1e-9..1e-12 there); "
            "points are rejected unless every node is inside its smooth domain with margin 0.05 "
            "(decided by an independent float evaluation); non-trivial = at least 3 nodes")
    trusted = [
        "Interval tactic (coq-interval) for the transcendental sample goals",
        "numpy float ** modelled as powerRZ (integer-valued exponent) / Rpower (positive base); "
        "numpy indexing resolved by the harness into entry lists",
        "comparison tolerance 1e-9*(1+|model|) inside Coq on dyadic, well-conditioned inputs",
    ]
    assumptions = ["well-shaped trees (operand sizes agree)",
                   "points inside the smooth domain of every rule used"]

    def __init__(self):
        self._tie_b_stats = {}
        self._V = None

    # -- tie part (b) runs here; a failure is reported as a broken tie by the driver
    def regenerate(self):
        tier = "thorough" if "thorough" in sys.argv else os.environ.get("VERIF_TIER", "quick")
        if "--replay" in sys.argv:
            return True, ""
        seed = int(os.environ.get("VERIF_SEED", "20260921"))
        t0 = time.time()
        ok, log, stats = run_tie_b(seed, tier)
        stats["wall_s"] = round(time.time() - t0, 1)
        self._tie_b_stats = stats
        return ok, ("tie (b): transcendental rule(s) of the implementation disagree with the "
                    "model's real-number instance (Interval proof failed):\n" + log) if not ok else ""

    def extra_evidence(self):
        return {"tie_b_interval": self._tie_b_stats}

    def generate(self, rng, n, tier):
        for c in DIRECTED:
            yield c
        for i in range(max(0, n - len(DIRECTED))):
            u = rng.random()
            if u < 0.05:
                yield gen_sp_case(rng)
            elif u < 0.08:
                yield gen_set_case(rng)
            elif u < 0.18:
                yield gen_hist_case(rng)
            elif u < 0.26:
                for _ in range(50):
                    c = gen_scaled_case(rng)
                    if q_executable(c["tree"], c["vars"]) and \
                            in_domain(c["tree"], c["vars"], c["kink"], c["big"]):
                        break
                yield c
            else:
                kind = "rat" if rng.random() < 0.7 else "trans"
                yield gen_case(rng, kind, tier)

    @staticmethod
    def _dense(ad):
        J = ad.jac.toarray() if hasattr(ad.jac, "toarray") else np.asarray(ad.jac)
        return {"val": [float(v) for v in ad.val],
                "jac": [[float(v) for v in row] for row in np.atleast_2d(J)]}

    def _run_hist(self, case):
        """Execute the statements on real AdArrays.  After every statement every AdArray
        created earlier (and every variable) is compared with its snapshot from before the
        statement; only the target of an assignment may change."""
        X = [np.array(v, dtype=float) for v in case["vars"]]
        V = pp.ad.initAdArrays(X)
        arrays, defs, lets, alias = [], [], [], []
        _REFS.clear()
        try:
            for si, st in enumerate(case["stmts"]):
                before_v = [self._dense(a) for a in V]
                before_a = [self._dense(a) for a in arrays]
                if st[0] == "let":
                    r = build(st[1], V)
                    arrays.append(r)
                    _REFS.append(r)
                    d = expand_refs(st[1], defs)
                    defs.append(d)
                    entry = {"stmt": si, "res": self._dense(r), "tree": d}
                    if d is not None:
                        entry["plain"] = [float(v) for v in np.atleast_1d(build(d, X))]
                    lets.append(entry)
                    target = None
                else:
                    _, tgt, key, src = st
                    b = build(src, V)
                    arrays[tgt][_key(key)] = b
                    defs[tgt] = None          # not a pure expression any more
                    target = tgt
                for k, (a, snap) in enumerate(zip(V, before_v)):
                    if self._dense(a) != snap:
                        alias.append([si, "var", k])
                for k, snap in enumerate(before_a):
                    if k != target and self._dense(arrays[k]) != snap:
                        alias.append([si, "array", k])
        finally:
            _REFS.clear()
        return {"lets": lets, "alias": alias}

    def run_impl(self, case):
        if case["kind"] == "sp":
            x = np.array(case["x"], dtype=float)
            pw = case["power"]
            pw = int(pw) if (float(pw) == int(pw) and case.get("int_type")) else float(pw)
            a = pp.ad.AdArray(x.copy(), sps.identity(x.size, format="csr"))
            r = F.safe_power(pw, float(case["zero_val"]), float(case["tol"]), a)
            out = self._dense(r)
            out["plain"] = [float(v) for v in F.safe_power(pw, float(case["zero_val"]),
                                                           float(case["tol"]), x.copy())]
            return out
        if case["kind"] == "hist":
            return self._run_hist(case)
        if case["kind"] == "set":
            X = [np.array(v, dtype=float) for v in case["vars"]]
            V = pp.ad.initAdArrays(X)
            A = build(case["a"], V).copy()
            B = build(case["b"], V)
            before, bb = self._dense(A), self._dense(B)
            bval = B.val.copy()
            A[_key(case["key"])] = B
            B.val[:] = 977.0                  # aliasing probe: the result must not share b
            after = self._dense(A)
            B.val[:] = bval
            return {"a": before, "b": bb, "res": after, "res_again": self._dense(A)}
        X = [np.array(v, dtype=float) for v in case["vars"]]
        V = pp.ad.initAdArrays(X)
        r = build(case["tree"], V)
        rp = build(case["tree"], X)
        jac = r.jac
        J = jac.toarray() if hasattr(jac, "toarray") else np.asarray(jac)
        return {"val": [float(v) for v in r.val],
                "jac": [[float(v) for v in row] for row in np.atleast_2d(J)],
                "plain": [float(v) for v in np.atleast_1d(rp)]}

    def _oracle_sp(self, case, res):
        pw, zv, tol = float(case["power"]), float(case["zero_val"]), float(case["tol"])
        xs = case["x"]
        if len(res["val"]) != len(xs) or len(res["jac"]) != len(xs):
            return "safe_power changed the array length"
        for i, x in enumerate(xs):
            if abs(abs(x) - tol) < 1e-12 and not (x == 0.0):
                continue                                   # on the switch
            xm = mp.mpf(x)
            if abs(x) > tol:
                if pw != int(pw) and x <= 0:
                    continue
                if pw <= 0 and x == 0:
                    continue
                val = xm ** (int(pw) if pw == int(pw) else mp.mpf(pw))
                der = mp.mpf(pw) * xm ** ((int(pw) - 1) if pw == int(pw) else mp.mpf(pw) - 1)
            else:
                val, der = mp.mpf(zv), mp.mpf(0)
            if abs(mp.mpf(res["val"][i]) - val) > mp.mpf(1e-9) * (1 + abs(val)):
                return f"safe_power value[{i}]={res['val'][i]!r}, expected {mp.nstr(val, 15)}"
            if abs(res["val"][i] - res["plain"][i]) > 1e-12 * (1 + abs(res["plain"][i])):
                return f"safe_power value[{i}] differs between AdArray and ndarray input"
            for j, g in enumerate(res["jac"][i]):
                want = der if j == i else mp.mpf(0)
                if abs(mp.mpf(g) - want) > mp.mpf(1e-9) * (1 + abs(want)):
                    return (f"safe_power(power={case['power']}, zero_val={zv}, tol={tol}) at "
                            f"x={x}: jac[{i}][{j}]={g!r}, derivative is {mp.nstr(want, 15)}")
        return None

    def _oracle_set(self, case, res):
        n = len(res["a"]["val"])
        idx = resolve_idx(case["key"], n)
        if res["res"] != res["res_again"]:
            return "a[key] = b left the result aliased to b (changes when b is overwritten)"
        for i in range(n):
            ks = [k for k, j in enumerate(idx) if j == i]
            if ks:
                want = (res["b"]["val"][ks[-1]], res["b"]["jac"][ks[-1]])
            else:
                want = (res["a"]["val"][i], res["a"]["jac"][i])
            if (res["res"]["val"][i], res["res"]["jac"][i]) != want:
                return f"row {i} after a[key] = b is {res['res']['val'][i]}, {res['res']['jac'][i]}; expected {want}"
        return None

    def _oracle_hist(self, case, res):
        if res["alias"]:
            si, what, k = res["alias"][0]
            return (f"statement {si} ({json.dumps(case['stmts'][si])[:160]}) changed the value or "
                    f"Jacobian of the earlier {what} {k}, which it does not assign to")
        for e in res["lets"]:
            if e["tree"] is None:
                continue
            sub = {"kind": "trans", "vars": case["vars"], "tree": e["tree"]}
            r = dict(e["res"], plain=e["plain"])
            why = self.oracle(sub, r)
            if why:
                return f"statement {e['stmt']}: {why}"
        return None

    def oracle(self, case, res):
        if case["kind"] == "hist":
            return self._oracle_hist(case, res)
        if case["kind"] == "sp":
            return self._oracle_sp(case, res)
        if case["kind"] == "set":
            return self._oracle_set(case, res)
        tree, X = case["tree"], case["vars"]
        if not in_domain(tree, X, case.get("kink"), case.get("big")):
            return None          # the property speaks about the smooth domain only
        flat = res["val"] + [v for row in res["jac"] for v in row]
        if not all(math.isfinite(v) for v in flat):
            return "non-finite value/Jacobian entry inside the smooth domain"
        L = Lib("mp")
        Xm = [[L.c(Fraction(v)) for v in x] for x in X]
        ref = plain(tree, Xm, L, False)
        if len(ref) != len(res["val"]):
            return f"result has {len(res['val'])} entries, plain evaluation {len(ref)}"
        if len(res["plain"]) != len(res["val"]):
            return "value and plain numpy evaluation differ in length"
        for i, (a, b, c) in enumerate(zip(res["val"], ref, res["plain"])):
            if abs(a - c) > 1e-10 * (1 + abs(c)):
                return f"val[{i}]={a!r} differs from the plain numpy evaluation {c!r}"
            if abs(mp.mpf(a) - b) > mp.mpf(1e-8) * (1 + abs(b)):
                return f"val[{i}]={a!r} differs from the exact evaluation {mp.nstr(b, 17)}"
        h = mp.mpf(10) ** (-25)
        col = 0
        ncols = sum(len(x) for x in X)
        for row in res["jac"]:
            if len(row) != ncols:
                return f"Jacobian has {len(row)} columns, expected {ncols}"
        if len(res["jac"]) != len(ref):
            return "Jacobian row count differs from the value length"
        for k, x in enumerate(X):
            for j in range(len(x)):
                Xp = [list(r) for r in Xm]
                Xn = [list(r) for r in Xm]
                Xp[k][j] = Xp[k][j] + h
                Xn[k][j] = Xn[k][j] - h
                fp = plain(tree, Xp, L, False)
                fn = plain(tree, Xn, L, False)
                for i in range(len(ref)):
                    d = (fp[i] - fn[i]) / (2 * h)
                    got = res["jac"][i][col]
                    if abs(mp.mpf(got) - d) > mp.mpf(1e-6) * (1 + abs(d)):
                        return (f"jac[{i}][{col}]={got!r} but d(entry {i})/d(var {k}[{j}]) = "
                                f"{mp.nstr(d, 15)} (50-digit central difference)")
                col += 1
        return None

    def coq_case(self, case, res):
        if case["kind"] == "hist":
            sizes = [len(x) for x in case["vars"]]
            xs = clist(case["vars"], lambda x: clist(x, cq))
            terms = ["true" if not res["alias"] else "false"]
            for e in res["lets"]:
                if e["tree"] is None or not q_executable(e["tree"], case["vars"]):
                    continue
                flat = e["res"]["val"] + [v for row in e["res"]["jac"] for v in row]
                if not all(math.isfinite(v) for v in flat):
                    terms.append("false")
                    continue
                t, _ = emit(e["tree"], sizes)
                terms.append(f"agreeS {t} {xs} {clist(e['res']['val'], cq)} "
                             f"{clist(e['res']['jac'], lambda row: clist(row, cq))}")
            return "forallb (fun b : bool => b) " + clist(terms, lambda t: f"({t})")
        if case["kind"] == "sp":
            pw = float(case["power"])
            if pw != int(pw):
                return None
            n = len(case["x"])
            flat = res["val"] + [v for row in res["jac"] for v in row]
            if not all(math.isfinite(v) for v in flat) or len(res["jac"]) != n:
                return "false"
            if any(res["jac"][i][j] != 0 for i in range(n) for j in range(n) if i != j):
                return "false"
            diag = [res["jac"][i][i] for i in range(n)]
            return (f"agree_sp (PZ {cz(int(pw))}) {cq(case['zero_val'])} {cq(case['tol'])} "
                    f"{clist(case['x'], cq)} {clist(res['val'], cq)} {clist(diag, cq)}")
        if case["kind"] == "set":
            def rows(d):
                return clist(list(zip(d["val"], d["jac"])),
                             lambda vr: f"({cq(vr[0])}, {clist(vr[1], cq)})")
            idx = resolve_idx(case["key"], len(res["a"]["val"]))
            return (f"agree_set {clist(idx, lambda j: f'{j}%nat')} {rows(res['a'])} "
                    f"{rows(res['b'])} {rows(res['res'])}")
        if case["kind"] != "rat":
            return None
        flat = res["val"] + [v for row in res["jac"] for v in row]
        if not all(math.isfinite(v) for v in flat):
            return "false"
        sizes = [len(x) for x in case["vars"]]
        e, _ = emit(case["tree"], sizes)
        xs = clist(case["vars"], lambda x: clist(x, cq))
        val = clist(res["val"], cq)
        jac = clist(res["jac"], lambda row: clist(row, cq))
        return f"agreeS {e} {xs} {val} {jac}"

    def coq_diag(self, case, res):
        if case["kind"] in ("sp", "set", "hist"):
            return None
        sizes = [len(x) for x in case["vars"]]
        e, n = emit(case["tree"], sizes)
        xs = clist(case["vars"], lambda x: clist(x, cq))
        return f"model_outS {e} {xs} {n}%nat"

    def nontrivial(self, case, res):
        if case["kind"] in ("sp", "set", "hist"):
            return True
        return sum(1 for _ in subtrees(case["tree"])) >= 3

    def finding_key(self, case, res, why):
        return "ad-value-or-jacobian-mismatch"

    def shrink(self, case, still_fails):
        """Failing sub-trees first, then splice out single elementwise nodes."""
        if case["kind"] == "hist":
            stmts = list(case["stmts"])
            for _ in range(40):              # drop trailing / single statements
                done = True
                for i in range(len(stmts) - 1, 0, -1):
                    cand = stmts[:i] + stmts[i + 1:]
                    c = dict(case, stmts=cand)
                    try:
                        if still_fails(c):
                            stmts, done = cand, False
                            break
                    except Exception:
                        continue
                if done:
                    break
            return dict(case, stmts=stmts)
        if case["kind"] in ("sp", "set"):
            return case
        cur = case

        def spliced(t):
            """Trees obtained by replacing one elementwise node by one of its operands."""
            op = t[0]
            kids = []          # (position, child) of the sub-expressions
            if op == "neg" or op in KOPS or op == "powk":
                kids = [(1, t[1])]
                yield t[1]
            elif op in BIN:
                kids = [(1, t[1]), (2, t[2])]
                yield t[1]
                yield t[2]
            elif op == "maxkl":
                kids = [(2, t[2])]
                yield t[2]
            elif op == "fun":
                kids = [(3, t[3])]
                yield t[3]
            elif op in ("matmul", "slice", "l2"):
                kids = [(2, t[2])]
            for pos, k in kids:
                for k2 in spliced(k):
                    yield t[:pos] + [k2] + t[pos + 1:]

        for _ in range(200):
            changed = False
            cands = list(subtrees(cur["tree"]))[1:] + list(spliced(cur["tree"]))
            for s in cands:
                c = dict(cur, tree=s)
                try:
                    if still_fails(c):
                        cur, changed = c, True
                        break
                except Exception:
                    continue
            if not changed:
                break
        return cur

    def search(self, rng, seeds, budget_s):
        t0 = time.time()
        n = 0
        while time.time() - t0 < budget_s:
            for c in DIRECTED + [gen_sp_case(rng) for _ in range(15)] + \
                    [gen_set_case(rng) for _ in range(5)] + \
                    [gen_hist_case(rng) for _ in range(25)] + \
                    [gen_scaled_case(rng) for _ in range(15)] + \
                    [gen_case(rng, rng.choice(["rat", "trans", "trans"]), "thorough")
                     for _ in range(100)]:
                n += 1
                try:
                    res = self.run_impl(c)
                    why = self.oracle(c, res)
                except Exception:
                    why = None
                if why:
                    small = self.shrink(c, lambda cc: bool(self.oracle(cc, self.run_impl(cc))))
                    r2 = self.run_impl(small)
                    return small, r2, self.oracle(small, r2) or why, n
                if time.time() - t0 > budget_s:
                    break
        return None, None, None, n


PROP = C01()
