"""C31 — geometric predicates and point orderings against exact oracles."""
import itertools
import math
from fractions import Fraction as F

import numpy as np

from harness.core import Prop, cq, cz, cnat, cbool, clist

import porepy as pp
from porepy.geometry import geometry_property_checks as gpc
from porepy.geometry import half_space, sort_points
from harness.props.c28 import exact_isect

KEY_POLYH = "point_in_polyhedron: interior point coplanar with a far face plane reported outside"

TOL5 = F(1, 100000)


# ------------------------------------------------------------------ exact helpers
def cross2(o, a, b):
    return (a[0] - o[0]) * (b[1] - o[1]) - (a[1] - o[1]) * (b[0] - o[0])


def on_segment(p, a, b):
    if cross2(a, b, p) != 0:
        return False
    return (min(a[0], b[0]) <= p[0] <= max(a[0], b[0])
            and min(a[1], b[1]) <= p[1] <= max(a[1], b[1]))


def exact_pip(poly, p):
    """'boundary' | True | False by the even-odd crossing number (simple polygons)."""
    n = len(poly)
    for i in range(n):
        if on_segment(p, poly[i], poly[(i + 1) % n]):
            return "boundary"
    inside = False
    for i in range(n):
        a, b = poly[i], poly[(i + 1) % n]
        if (a[1] > p[1]) != (b[1] > p[1]):
            # x-coordinate of the edge at height p.y, compared exactly
            t = F(p[1] - a[1], b[1] - a[1])
            if a[0] + t * (b[0] - a[0]) > p[0]:
                inside = not inside
    return inside


def is_simple(poly):
    n = len(poly)
    if len(set(map(tuple, poly))) != n:
        return False
    for i in range(n):
        a, b = poly[i], poly[(i + 1) % n]
        for j in range(i + 1, n):
            c, d = poly[j], poly[(j + 1) % n]
            r = exact_isect(a, b, c, d)
            adjacent = j == i + 1 or (i == 0 and j == n - 1)
            if adjacent:
                if r[0] != "pt":
                    return False
            elif r[0] != "none":
                return False
    return True


def area2(poly):
    n = len(poly)
    return sum(poly[i][0] * poly[(i + 1) % n][1] - poly[(i + 1) % n][0] * poly[i][1]
               for i in range(n))


def v3sub(a, b):
    return [a[i] - b[i] for i in range(3)]


def v3cross(a, b):
    return [a[1] * b[2] - a[2] * b[1], a[2] * b[0] - a[0] * b[2], a[0] * b[1] - a[1] * b[0]]


def v3dot(a, b):
    return sum(x * y for x, y in zip(a, b))


# ------------------------------------------------------------------ Coq literals
def p2(p):
    return f"({cq(p[0])}, {cq(p[1])})"


def p3(p):
    return f"({cq(p[0])}, {cq(p[1])}, {cq(p[2])})"


def zline(l):
    return f"({cz(l[0])}, {cz(l[1])})"


SHAPES = {
    "L": [(0, 0), (4, 0), (4, 4), (2, 4), (2, 2), (0, 2)],
    "U": [(0, 0), (6, 0), (6, 4), (4, 4), (4, 2), (2, 2), (2, 4), (0, 4)],
    "comb": [(0, 0), (6, 0), (6, 3), (5, 3), (5, 1), (4, 1), (4, 3), (3, 3), (3, 1), (2, 1),
             (2, 3), (0, 3)],
    "arrow": [(0, 0), (3, 1), (6, 0), (3, 5)],
    "zig": [(0, 0), (2, 2), (4, 0), (6, 2), (6, 4), (4, 2), (2, 4), (0, 2)],
}


def _box_prism(lo, hi):
    x0, y0, z0 = lo
    x1, y1, z1 = hi
    return [
        [(x0, y0, z0), (x1, y0, z0), (x1, y1, z0), (x0, y1, z0)],
        [(x0, y0, z1), (x1, y0, z1), (x1, y1, z1), (x0, y1, z1)],
        [(x0, y0, z0), (x1, y0, z0), (x1, y0, z1), (x0, y0, z1)],
        [(x0, y1, z0), (x1, y1, z0), (x1, y1, z1), (x0, y1, z1)],
        [(x0, y0, z0), (x0, y1, z0), (x0, y1, z1), (x0, y0, z1)],
        [(x1, y0, z0), (x1, y1, z0), (x1, y1, z1), (x1, y0, z1)],
    ]


PLANE_NORMALS = [((0, 0, 1), 1), ((0, 0, -1), 1), ((1, 0, 0), 1), ((0, 1, 0), 1), ((-1, 0, 0), 1),
                 ((0, -1, 0), 1), ((3, 4, 12), 13), ((0, 3, 4), 5), ((3, 0, 4), 5), ((3, 4, 0), 5),
                 ((-3, 4, 12), 13), ((4, -3, 12), 13), ((0, -3, 4), 5), ((4, 0, -3), 5)]
PLANE_DIRS = [(1, 0), (-1, 0), (0, 1), (0, -1), (1, 1), (-1, 1), (1, -1), (-1, -1), (2, 1), (-1, 2),
              (1, -2), (-2, -1), (3, 1), (-1, 3), (-3, -1), (1, -3)]


def _plane_basis(N):
    a, b, c = N
    u = (b, -a, 0) if (a or b) else (1, 0, 0)
    w = tuple(v3cross(N, u))
    return u, w


def exact_cyclic_order(pts, centre, N, start):
    """Indices in counter-clockwise order (seen against N) around centre, starting at `start`;
    None if two points share a direction or a point sits on the centre."""
    d = [v3sub(p, centre) for p in pts]
    if any(not any(x) for x in d):
        return None
    ref = d[start]

    def crossn(x, y):
        return v3dot(N, v3cross(x, y))

    def half(x):
        c = crossn(ref, x)
        return 0 if (c > 0 or (c == 0 and v3dot(ref, x) > 0)) else 1
    import functools

    def cmp(i, j):
        hi, hj = half(d[i]), half(d[j])
        if hi != hj:
            return hi - hj
        c = crossn(d[i], d[j])
        return -1 if c > 0 else (1 if c < 0 else 0)
    order = sorted(range(len(pts)), key=functools.cmp_to_key(cmp))
    for k in range(len(order) - 1):
        if cmp(order[k], order[k + 1]) == 0:
            return None
    return order


def with_hanging_nodes(poly, rng, every_edge=False):
    """Insert collinear intermediate integer vertices on the edges (the polygon is doubled
    first so that every edge has an integer midpoint)."""
    poly = [[2 * p[0], 2 * p[1]] for p in poly]
    out = []
    n = len(poly)
    for i in range(n):
        a, b = poly[i], poly[(i + 1) % n]
        out.append(a)
        if every_edge or rng.random() < 0.6:
            g = math.gcd(abs(b[0] - a[0]), abs(b[1] - a[1]))
            ks = sorted(rng.sample(range(1, g), min(g - 1, rng.choice([1, 1, 2]))))
            for k in ks:
                out.append([a[0] + (b[0] - a[0]) * k // g, a[1] + (b[1] - a[1]) * k // g])
    return out


def all_listings(poly):
    """Every rotation of the vertex list, in both orientations."""
    res = []
    for q in (poly, poly[::-1]):
        for k in range(len(q)):
            res.append(q[k:] + q[:k])
    return res


HANGING_FIXED = [
    [[0, 0], [2, 0], [4, 0], [4, 2], [4, 4], [2, 4], [0, 4], [0, 2]],          # square, a node on every edge
    [[0, 0], [4, 0], [4, 4], [0, 4], [0, 3], [0, 1]],                          # two nodes on the left edge
    [[0, 0], [4, 0], [4, 4], [2, 4], [2, 2], [1, 2], [0, 2], [0, 1]],          # L with hanging nodes
    [[0, 0], [3, -1], [6, 0], [6, 2], [6, 5], [3, 6], [0, 5], [0, 3]],         # hexagon, vertical sides
]


def _quad_tris(q):
    return [[q[0], q[1], q[2]], [q[0], q[2], q[3]]]


def _tri_surface(kind, rng):
    """Closed, conforming triangulated surface + the convex pieces of its interior."""
    if kind == "box":
        lo = [rng.randint(-2, 0) for _ in range(3)]
        hi = [lo[i] + rng.choice([2, 4]) for i in range(3)]
        tris = [t for q in _box_prism(lo, hi) for t in _quad_tris(q)]
        return tris, [["box", lo, hi]]
    if kind == "tet":
        s = rng.choice([3, 4, 6])
        o, a, b, c = (0, 0, 0), (s, 0, 0), (0, s, 0), (0, 0, s)
        return [[o, a, b], [o, a, c], [o, b, c], [a, b, c]], [["tet", s]]
    h = rng.choice([2, 3])
    ring = [(0, 0), (2, 0), (4, 0), (4, 2), (4, 4), (2, 4), (2, 2), (0, 2)]
    tris = []
    for i in range(len(ring)):
        a, b = ring[i], ring[(i + 1) % len(ring)]
        tris += _quad_tris([(a[0], a[1], 0), (b[0], b[1], 0), (b[0], b[1], h), (a[0], a[1], h)])
    for z in (0, h):
        for (x0, y0) in ((0, 0), (2, 0), (2, 2)):
            tris += _quad_tris([(x0, y0, z), (x0 + 2, y0, z), (x0 + 2, y0 + 2, z), (x0, y0 + 2, z)])
    pieces = [["box", [0, 0, 0], [4, 2, h]], ["box", [2, 2, 0], [4, 4, h]], ["box", [2, 1, 0], [4, 3, h]]]
    return tris, pieces


class C31(Prop):
    id = "C31"
    props_file = "Props/C31.v"
    preamble = ("From Coq Require Import List QArith ZArith.\nImport ListNotations.\n"
                "From PP Require Import Model.C28 Model.C31.\nOpen Scope Q_scope.\n")
    n_cases = (1500, 20000)
    design_ref = "DESIGN.md §5 C31"
    level_text = (
        "Coq theorems over an executable Q/Z transcription of is_ccw_polygon, is_ccw_polyline, "
        "point_in_polygon (repaired), points_are_collinear (repaired), points_are_planar, "
        "point_inside_half_space_intersection, sort_point_pairs, the sort key of "
        "sort_points_on_line and the degeneracy decision logic of point_in_polyhedron: "
        "ccw <=> shoelace area positive (any polygon); polyline side test with tolerance band; "
        "half-space membership <=> all inequalities (and the ValueError); collinearity test; "
        "point_in_polygon: strictly left of all edges => inside, separated from all vertices "
        "by a line => outside (any vertex list), hence both directions for convex ccw "
        "polygons (C31_pip_convex), and equality with the exact even-odd crossing test on ALL "
        "integer points of [-2,8]^2 for seven fixed non-convex simple polygons (finite-domain "
        "vm_compute proofs); sort_point_pairs: whenever the call succeeds the index list is a "
        "permutation, every column is an input pair up to flipping, consecutive columns chain "
        "and the cycle closes (C31_chain_valid), and in circular mode every input that is a "
        "single cycle with distinct labels, in any storage order and orientation, succeeds and "
        "yields its traversal (C31_chain_complete_cycle); sort_points_on_line: permutation, keys "
        "non-decreasing, and for collinear input a + s_i v the line parameter is monotone "
        "along the output (C31_sort_on_line_monotone); sort_point_plane (rotation onto the "
        "xy-plane transcribed exactly, arctan2 keys compared exactly by sectors and cross "
        "products): a permutation along which the angle key never decreases (C31_sort_plane); "
        "points_are_planar with the normal from "
        "a modelled compute_normal accepts every coplanar set (C31_planar_auto); "
        "point_in_polyhedron: a point in the "
        "supporting plane of ANY triangle is answered 'outside' (C31_polyhedron_coplanar_"
        "outside), which refutes exactness on a triangulated L-prism (C31_polyhedron_refuted, "
        "open finding).  Every modelled function is tied to /repo on each run (Coq recomputes "
        "the model on the generated inputs and compares, including raised errors and, for "
        "triangulated polyhedra, whether solid_angle raised and the exact ray-parity answer).")
    level_note = (
        "Trusted: Coq kernel + vm_compute; harness generator/emitter/oracle; squared forms of "
        "the norm tests; sort_point_plane is tied with an explicitly given normal whose unit "
        "vector and rotation sine are rational (axis-aligned and Pythagorean tilted planes; "
        "exact permutation in the identity frame, up to a cyclic shift in rotated frames where "
        "float noise can move a point across the +-pi cut) and checked by the oracle as a valid "
        "cyclic angular ordering; sort_points_on_line "
        "is compared through its sort key (the rotation is not modelled; orientation rule "
        "taken from rotation_matrix's zero-axis case); pip_ref / pih_ref are exact reference "
        "routines written in Coq.  NOT proved: point_in_polygon for ALL simple non-convex "
        "polygons (finite-domain proofs + oracle instead); completeness of sort_point_pairs "
        "in the non-circular (chain) mode (tie + oracle); the solid-angle sum of point_in_polyhedron "
        "(arctan2; exact ray-parity reference in the tie, oracle; one open finding).")
    technique = ("Coq proof (induction over polygons/loops, nra over Q, finite-domain vm_compute) + "
                 "vm_compute execution correspondence + exact rational oracles")
    rule = ("per case one function: integer polygons (convex hulls, star-shaped, fixed "
            "non-convex families under symmetries/translations) with every integer point of "
            "the surrounding box; polygons with hanging (collinear) vertices on every edge, all "
            "rotations and both orientations of fixed hanging-node polygons in every run; "
            "collinear/planar point sets exact and clearly off; half-space "
            "systems of boxes/tetrahedra, with repeated normals at different offsets in both "
            "orders, exact duplicates, scaled normals and slabs, and test points between the "
            "parallel planes; chains and cycles of labelled pairs shuffled and "
            "flipped, plus broken inputs; planar point sets around a centre in axis-aligned and "
            "tilted planes with points exactly on the half-axes through the centre; polyhedra (boxes, tetrahedra, L-prisms) with grid "
            "points; non-trivial = the answer is not constant by construction (both outcomes "
            "occur in the case or the structure is non-degenerate); distinct by (case, output)")
    trusted = ["squared-form tolerance tests (|v| <= tol*d  as  v.v <= tol^2 d^2)",
               "np.argsort/np.roll/np.bincount semantics as transcribed"]
    assumptions = ["integer coordinates, |coord| <= ~12; tolerances 0, 1e-5 (collinear/planar) "
                   "with inputs either exactly degenerate or far (>= 10x) from the band; 30% of "
                   "the collinear/planar cases use a random tolerance in [0.002, 1.5] (in-band "
                   "behaviour: tie only, oracle silent)",
                   "simple polygons for the inside test (checked exactly by the generator)"]

    def __init__(self):
        self.stats = {}

    # -------------------------------------------------------------- generators
    def _polygon(self, rng):
        r = rng.random()
        if r < 0.4:
            name = rng.choice(sorted(SHAPES))
            poly = [list(p) for p in SHAPES[name]]
            k = rng.randint(0, 3)
            for _ in range(k):
                poly = [[-p[1], p[0]] for p in poly]
            if rng.random() < 0.5:
                poly = [[-p[0], p[1]] for p in poly]
            if rng.random() < 0.5:
                poly = poly[::-1]
            s = rng.randint(0, len(poly) - 1)
            poly = poly[s:] + poly[:s]
            dx, dy = rng.randint(-3, 3), rng.randint(-3, 3)
            return [[p[0] + dx, p[1] + dy] for p in poly], name
        for _ in range(30):
            n = rng.randint(3, 8)
            pts = list({(rng.randint(-4, 4), rng.randint(-4, 4)) for _ in range(n + 3)})
            if len(pts) < 3:
                continue
            if r < 0.7:
                # convex hull (Andrew), keeping only strict turns
                pts.sort()

                def half(ps):
                    h = []
                    for p in ps:
                        while len(h) >= 2 and cross2(h[-2], h[-1], p) <= 0:
                            h.pop()
                        h.append(p)
                    return h
                lo, up = half(pts), half(pts[::-1])
                poly = lo[:-1] + up[:-1]
                kind = "convex"
            else:
                cx = F(sum(p[0] for p in pts), len(pts)) + F(1, 7)
                cy = F(sum(p[1] for p in pts), len(pts)) + F(1, 11)
                pts.sort(key=lambda p: math.atan2(float(p[1] - cy), float(p[0] - cx)))
                poly = pts
                kind = "star"
            poly = [list(p) for p in poly]
            if len(poly) >= 3 and area2(poly) != 0 and is_simple(poly):
                if rng.random() < 0.5:
                    poly = poly[::-1]
                return poly, kind
        return [[0, 0], [4, 0], [0, 4]], "convex"

    def _line_pts(self, rng, n, exact=True):
        a = [rng.randint(-4, 4) for _ in range(3)]
        v = [rng.randint(-3, 3) for _ in range(3)]
        while not any(v):
            v = [rng.randint(-3, 3) for _ in range(3)]
        ks = rng.sample(range(-4, 5), n)
        return [[a[i] + k * v[i] for i in range(3)] for k in ks], v

    def generate(self, rng, n, tier):
        fixed = [
            {"fn": "pip", "poly": [list(p) for p in SHAPES["L"]], "pts": [[3, 2], [1, 1], [3, 3], [1, 3]],
             "default": False},
            {"fn": "collinear", "pts": [[0, 0, 0], [1, 0, 0], [0, 1, 0]]},
            {"fn": "collinear", "pts": [[0, 0, 0], [1, 0, 0], [2, 0, 0], [0, 5, 0]]},
            {"fn": "sort_line", "pts": [[0, 0, 0], [0, 0, 2], [0, 0, 1]]},
            {"fn": "sort_pairs", "lines": [[1, 2], [5, 1], [2, 7], [9, 8]], "check": True,
             "circ": True, "valid": False},
            {"fn": "halfspace", "n": [[0, 1, 0]], "x0": [[0, 0, 0], [1, 0, 0]], "pts": [[0, 0, 0]]},
        ]
        for poly in HANGING_FIXED:
            for q in all_listings(poly):
                fixed.append({"fn": "ccw_polygon", "poly": q})
        along = [[0, 0, t] for t in range(-2, 7)] + [[1, -1, 2], [3, 2, 3]]
        for planes in (
                [([0, 0, 1], [0, 0, 4]), ([0, 0, 1], [0, 0, 1])],               # weaker first
                [([0, 0, 1], [0, 0, 1]), ([0, 0, 1], [0, 0, 4])],               # tighter first
                [([0, 0, 1], [0, 0, 4]), ([0, 0, 1], [5, 5, 4])],               # same plane twice
                [([0, 0, 1], [0, 0, 3]), ([0, 0, 1], [0, 0, 3])],               # exact duplicate
                [([0, 0, 1], [0, 0, 4]), ([0, 0, -1], [0, 0, 1])],              # slab 1 <= z <= 4
                [([0, 0, 2], [0, 0, 4]), ([0, 0, 1], [0, 0, 1]), ([0, 0, -1], [0, 0, -1])],
        ):
            fixed.append({"fn": "halfspace", "n": [p[0] for p in planes],
                          "x0": [p[1] for p in planes], "pts": along})
        for c in fixed:
            yield c
        for _ in range(n - len(fixed)):
            r = rng.random()
            if r < 0.30:
                poly, kind = self._polygon(rng)
                if rng.random() < 0.3:
                    poly = with_hanging_nodes(poly, rng)
                    kind += "+hanging"
                xs = [p[0] for p in poly]
                ys = [p[1] for p in poly]
                allpts = [[x, y] for x in range(min(xs) - 1, max(xs) + 2)
                          for y in range(min(ys) - 1, max(ys) + 2)]
                if len(allpts) > 60:
                    allpts = rng.sample(allpts, 60)
                case = {"fn": "pip", "poly": poly, "pts": allpts, "default": rng.random() < 0.5,
                        "shape": kind}
                if rng.random() < 0.1:
                    case["pts"] = [rng.choice(allpts)]
                    case["p1d"] = True                 # a single point passed as shape (2,)
                yield case
            elif r < 0.36:
                poly, kind = self._polygon(rng)
                if rng.random() < 0.7:
                    poly = with_hanging_nodes(poly, rng, every_edge=rng.random() < 0.5)
                yield {"fn": "ccw_polygon", "poly": rng.choice(all_listings(poly))}
            elif r < 0.44:
                p1, p2, p3 = ([rng.randint(-5, 5), rng.randint(-5, 5)] for _ in range(3))
                if rng.random() < 0.3:
                    k = rng.randint(-2, 3)
                    p3 = [p1[0] + k * (p2[0] - p1[0]), p1[1] + k * (p2[1] - p1[1])]
                yield {"fn": "ccw_polyline", "p": [p1, p2, p3],
                       "tol": rng.choice([0, 0, 0.5, 2]), "default": rng.random() < 0.5}
            elif r < 0.54:
                m = rng.randint(1, 5)
                pts, v = self._line_pts(rng, m)
                mode = rng.choice(["exact", "exact", "off-last", "off-any", "random"])
                if mode == "off-last" and m >= 3:
                    pts[-1] = [x + y for x, y in zip(pts[-1], rng.choice([[1, 0, 0], [0, 2, 0], [0, 0, -1]]))]
                elif mode == "off-any" and m >= 3:
                    i = rng.randrange(m)
                    pts[i] = [x + y for x, y in zip(pts[i], rng.choice([[1, 0, 0], [0, 2, 0], [0, 0, -1]]))]
                elif mode == "random":
                    pts = [[rng.randint(-3, 3) for _ in range(3)] for _ in range(m)]
                case = {"fn": "collinear", "pts": pts}
                if rng.random() < 0.3:
                    case["tol"] = round(rng.uniform(0.002, 1.5), 4)
                yield case
            elif r < 0.62:
                nrm = rng.choice([[0, 0, 1], [1, 2, 2], [1, 0, 0], [1, 1, 0], [2, -1, 3], [0, 3, 4]])
                u = v3cross(nrm, [1, 0, 0]) if (nrm[1] or nrm[2]) else v3cross(nrm, [0, 1, 0])
                w = v3cross(nrm, u)
                base = [rng.randint(-3, 3) for _ in range(3)]
                m = rng.randint(3, 6)
                pts = [[base[i] + a * u[i] + b * w[i] for i in range(3)]
                       for a, b in ((rng.randint(-2, 2), rng.randint(-2, 2)) for _ in range(m))]
                if rng.random() < 0.4:
                    i = rng.randrange(m)
                    k = rng.choice([-1, 1, 2])
                    pts[i] = [pts[i][j] + k * nrm[j] for j in range(3)]
                scale = rng.choice([1, 1, 2, -3])
                if rng.random() < 0.5:
                    mode = rng.random()
                    if mode < 0.12:
                        pts, _ = self._line_pts(rng, rng.randint(3, 5))     # collinear: RuntimeError
                    elif mode < 0.2:
                        pts = pts[:rng.randint(1, 2)]                        # too few: ValueError
                    case = {"fn": "planar_auto", "pts": pts}
                else:
                    case = {"fn": "planar", "pts": pts, "normal": [scale * x for x in nrm]}
                if rng.random() < 0.3:
                    case["tol"] = round(rng.uniform(0.002, 1.5), 4)
                yield case
            elif r < 0.72:
                if rng.random() < 0.5:
                    lo = [rng.randint(-3, 0) for _ in range(3)]
                    hi = [lo[i] + rng.randint(1, 4) for i in range(3)]
                    ns = [[1, 0, 0], [-1, 0, 0], [0, 1, 0], [0, -1, 0], [0, 0, 1], [0, 0, -1]]
                    x0 = [hi, lo, hi, lo, hi, lo]
                else:
                    ns = [[-1, 0, 0], [0, -1, 0], [0, 0, -1], [1, 1, 1]]
                    s = rng.randint(1, 5)
                    x0 = [[0, 0, 0], [0, 0, 0], [0, 0, 0], [s, 0, 0]]
                pts = [[rng.randint(-4, 5) for _ in range(3)] for _ in range(rng.randint(1, 12))]
                if rng.random() < 0.5:
                    # repeated / opposite normals at different offsets, in either order
                    nv = rng.choice([[1, 0, 0], [0, 1, 0], [0, 0, 1], [1, 1, 0], [1, -2, 2], [0, 3, 4]])
                    base = [rng.randint(-2, 2) for _ in range(3)]
                    offs = rng.sample(range(-3, 5), 3)

                    def at(t):
                        return [base[i] + t * nv[i] for i in range(3)]
                    mode = rng.choice(["two", "two", "dup", "slab", "three", "scaled"])
                    if mode == "two":
                        extra = [(nv, at(offs[0])), (nv, at(offs[1]))]
                    elif mode == "dup":
                        extra = [(nv, at(offs[0])), (nv, at(offs[0]))]
                    elif mode == "slab":
                        lo_, hi_ = sorted(offs[:2])
                        extra = [(nv, at(hi_)), ([-x for x in nv], at(lo_))]
                    elif mode == "three":
                        extra = [(nv, at(offs[0])), (nv, at(offs[1])), (nv, at(offs[2]))]
                    else:
                        extra = [([2 * x for x in nv], at(offs[0])), (nv, at(offs[1]))]
                    rng.shuffle(extra)
                    if rng.random() < 0.5:
                        ns, x0 = [], []
                    pos = rng.randint(0, len(ns))
                    ns = ns[:pos] + [e[0] for e in extra] + ns[pos:]
                    x0 = x0[:pos] + [e[1] for e in extra] + x0[pos:]
                    # test points between / beyond the parallel planes
                    pts = pts[:4] + [[base[i] + t * nv[i] + d[i] for i in range(3)]
                                     for t in range(-4, 6)
                                     for d in ([0, 0, 0], rng.choice([[1, 0, 0], [0, -1, 0], [0, 0, 1]]))]
                if rng.random() < 0.08:
                    x0 = x0[:-1]
                yield {"fn": "halfspace", "n": ns, "x0": x0, "pts": pts}
            elif r < 0.84:
                m = rng.randint(2, 8)
                labels = rng.sample(range(0, 20), m + 1)
                circ = rng.random() < 0.5
                if circ:
                    lines = [[labels[i], labels[(i + 1) % m]] for i in range(m)] if m >= 3 else \
                        [[labels[0], labels[1]], [labels[1], labels[0]]]
                else:
                    lines = [[labels[i], labels[i + 1]] for i in range(m)]
                lines = [l[::-1] if rng.random() < 0.5 else l for l in lines]
                rng.shuffle(lines)
                valid = True
                mode = rng.random()
                is_circ, check = circ, rng.random() < 0.7
                if mode < 0.12:
                    lines[rng.randrange(len(lines))] = [rng.randint(30, 40), rng.randint(41, 50)]
                    valid = False
                elif mode < 0.2:
                    is_circ = not circ
                    valid = False
                case = {"fn": "sort_pairs", "lines": lines, "check": check, "circ": is_circ,
                        "valid": valid}
                if rng.random() < 0.55:
                    # 3-5 rows: extra rows carry integer tags that must follow their line
                    # (tags kept disjoint from the labels: the code bincounts the whole array)
                    case["extra"] = [[rng.randint(100, 400) for _ in lines]
                                     for _ in range(rng.randint(1, 3))]
                yield case
            elif r < 0.885:
                N, L = rng.choice(PLANE_NORMALS + PLANE_NORMALS[:2])
                u, w = _plane_basis(N)
                c0 = [rng.randint(-3, 3) for _ in range(3)]
                dirs = rng.sample(PLANE_DIRS, rng.randint(3, 8))
                if rng.random() < 0.5 and (0, -1) not in dirs:
                    dirs[0] = (0, -1)
                pts = []
                for (al, be) in dirs:
                    k = rng.randint(1, 3)
                    pts.append([c0[i] + k * (al * u[i] + be * w[i]) for i in range(3)])
                rng.shuffle(pts)
                if all(v3dot(v3cross(v3sub(p, pts[0]), v3sub(q, pts[0])), N) == 0
                       for p in pts for q in pts):
                    pts.append([c0[i] + u[i] + 2 * w[i] for i in range(3)])
                sc = rng.choice([1, 1, 2, 5])
                case = {"fn": "sort_plane", "pts": pts, "centre": c0, "N": list(N), "L": L,
                        "normal": [sc * x for x in N]}
                if N[0] == 0 and N[1] == 0 and rng.random() < 0.4:
                    case["normal"] = None            # compute_normal gives +-e_z: same frame
                yield case
            elif r < 0.92:
                m = rng.randint(1, 6)
                pts, v = self._line_pts(rng, m)
                if rng.random() < 0.3:
                    axis = rng.randrange(3)
                    ks = rng.sample(range(-4, 5), m)
                    pts = [[k if i == axis else 1 for i in range(3)] for k in ks]
                yield {"fn": "sort_line", "pts": pts}
            elif r < 0.96:
                tris, pieces = _tri_surface(rng.choice(["box", "tet", "Lprism", "Lprism"]), rng)
                pts = [[F(rng.randint(-1, 10), 2) for _ in range(3)] for _ in range(6)]
                yield {"fn": "polyh_tri", "tris": [[list(q) for q in t] for t in tris],
                       "pieces": pieces, "pts": [[str(x) for x in q] for q in pts]}
            else:
                kind = rng.choice(["box", "tet", "Lprism"])
                if kind == "box":
                    lo = [rng.randint(-2, 0) for _ in range(3)]
                    hi = [lo[i] + rng.choice([2, 4]) for i in range(3)]
                    faces = _box_prism(lo, hi)
                    pieces = [["box", lo, hi]]
                elif kind == "tet":
                    s = rng.choice([3, 4, 6])
                    o, a, b, c = (0, 0, 0), (s, 0, 0), (0, s, 0), (0, 0, s)
                    faces = [[o, a, b], [o, a, c], [o, b, c], [a, b, c]]
                    pieces = [["tet", s]]
                else:
                    L = SHAPES["L"]
                    h = rng.choice([2, 3])
                    faces = []
                    for i in range(len(L)):
                        a, b = L[i], L[(i + 1) % len(L)]
                        faces.append([(a[0], a[1], 0), (b[0], b[1], 0), (b[0], b[1], h), (a[0], a[1], h)])
                    for z in (0, h):
                        faces.append([(0, 0, z), (4, 0, z), (4, 2, z), (0, 2, z)])
                        faces.append([(2, 2, z), (4, 2, z), (4, 4, z), (2, 4, z)])
                    pieces = [["box", [0, 0, 0], [4, 2, h]], ["box", [2, 2, 0], [4, 4, h]],
                              ["box", [2, 1, 0], [4, 3, h]]]
                pts = [[F(rng.randint(-1, 10), 2) for _ in range(3)] for _ in range(10)]
                yield {"fn": "polyhedron", "faces": [[list(p) for p in f] for f in faces],
                       "pieces": pieces, "pts": [[str(x) for x in p] for p in pts]}

    # -------------------------------------------------------------- implementation
    def run_impl(self, case):
        fn = case["fn"]
        if fn == "ccw_polygon":
            return bool(gpc.is_ccw_polygon(np.array(case["poly"], dtype=float).T))
        if fn == "ccw_polyline":
            p1, p2, p3 = (np.array(p, dtype=float) for p in case["p"])
            r = gpc.is_ccw_polyline(p1, p2, p3, tol=case["tol"], default=case["default"])
            return bool(r[0])
        if fn == "pip":
            pp_ = np.array(case["pts"], dtype=float).T
            if case.get("p1d"):
                pp_ = pp_[:, 0]
            r = gpc.point_in_polygon(np.array(case["poly"], dtype=float).T, pp_,
                                     default=case["default"])
            return [bool(x) for x in r]
        if fn == "collinear":
            return bool(gpc.points_are_collinear(np.array(case["pts"], dtype=float).T,
                                                 **({"tol": case["tol"]} if "tol" in case else {})))
        if fn == "planar":
            return bool(gpc.points_are_planar(np.array(case["pts"], dtype=float).T,
                                              normal=np.array(case["normal"], dtype=float),
                                              **({"tol": case["tol"]} if "tol" in case else {})))
        if fn == "planar_auto":
            try:
                return {"ok": bool(gpc.points_are_planar(
                    np.array(case["pts"], dtype=float).T,
                    **({"tol": case["tol"]} if "tol" in case else {})))}
            except ValueError:
                return {"err": "PValueErr"}
            except RuntimeError:
                return {"err": "PRuntimeErr"}
        if fn == "halfspace":
            try:
                r = half_space.point_inside_half_space_intersection(
                    np.array(case["n"], dtype=float).T, np.array(case["x0"], dtype=float).T,
                    np.array(case["pts"], dtype=float).T)
            except ValueError:
                return {"err": "ValueErr"}
            return {"ok": [bool(x) for x in r]}
        if fn == "sort_pairs":
            lines = np.array(case["lines"], dtype=int).T
            if case.get("extra"):
                lines = np.vstack([lines, np.array(case["extra"], dtype=int)])
            try:
                s, ind = sort_points.sort_point_pairs(lines, check_circular=case["check"],
                                                      is_circular=case["circ"])
            except AssertionError:
                return {"err": "AssertErr"}
            except IndexError:
                return {"err": "IndexErr"}
            assert s.shape == lines.shape
            out = {"sorted": [[int(s[0, j]), int(s[1, j])] for j in range(s.shape[1])],
                   "ind": [int(i) for i in ind]}
            if case.get("extra"):
                out["extra"] = [[int(x) for x in s[r]] for r in range(2, s.shape[0])]
            return out
        if fn == "sort_line":
            r = sort_points.sort_points_on_line(np.array(case["pts"], dtype=float).T)
            return [int(i) for i in r]
        if fn == "polyhedron":
            faces = [np.array(f, dtype=float).T for f in case["faces"]]
            pts = np.array([[float(F(x)) for x in p] for p in case["pts"]]).T
            return [bool(x) for x in gpc.point_in_polyhedron(faces, pts)]
        if fn == "sort_plane":
            nrm = None if case["normal"] is None else np.array(case["normal"], dtype=float)
            r = sort_points.sort_point_plane(np.array(case["pts"], dtype=float).T,
                                             np.array(case["centre"], dtype=float), nrm)
            return [int(i) for i in r]
        if fn == "polyh_tri":
            faces = [np.array(t, dtype=float).T for t in case["tris"]]
            pts = np.array([[float(F(x)) for x in q] for q in case["pts"]]).T
            cls = pp.point_in_polyhedron.PointInPolyhedron
            orig = cls.winding_number
            raised = []

            def wrapped(self_, point):
                try:
                    v = orig(self_, point)
                except ValueError:
                    raised.append(True)
                    raise
                raised.append(False)
                return v
            cls.winding_number = wrapped
            try:
                r = gpc.point_in_polyhedron(faces, pts)
            finally:
                cls.winding_number = orig
            assert len(raised) == pts.shape[1]
            return {"inside": [bool(x) for x in r], "raised": raised}
        raise ValueError(fn)

    # -------------------------------------------------------------- oracle
    def _stat(self, k):
        self.stats[k] = self.stats.get(k, 0) + 1

    def _piece_state(self, pieces, p):
        """'in' (strictly inside the union), 'out' (outside the closed union) or 'bd'."""
        closed = False
        for pc in pieces:
            if pc[0] == "box":
                lo, hi = pc[1], pc[2]
                if all(lo[i] < p[i] < hi[i] for i in range(3)):
                    return "in"
                if all(lo[i] <= p[i] <= hi[i] for i in range(3)):
                    closed = True
            else:
                s = pc[1]
                if min(p) > 0 and sum(p) < s:
                    return "in"
                if min(p) >= 0 and sum(p) <= s:
                    closed = True
        return "bd" if closed else "out"

    def oracle(self, case, res):
        fn = case["fn"]
        self._stat(fn)
        if fn == "ccw_polygon":
            a = area2(case["poly"])
            if a != 0 and res != (a > 0):
                return f"is_ccw_polygon={res} but twice the signed area is {a}"
        elif fn == "ccw_polyline":
            p1, p2, p3 = case["p"]
            c = cross2(p1, p2, p3)
            tol = F(case["tol"])
            if c > tol and res is not True:
                return f"point strictly left (cross {c} > tol) but result {res}"
            if c < -tol and res is not False:
                return f"point strictly right (cross {c}) but result {res}"
        elif fn == "pip":
            for p, r in zip(case["pts"], res):
                e = exact_pip(case["poly"], p)
                self._stat("pip-point-" + str(e))
                if e != "boundary" and e != r:
                    return (f"point {p}: exact inside test {e}, point_in_polygon returned {r} "
                            f"(polygon {case['poly']})")
        elif fn in ("collinear", "planar", "planar_auto") and "tol" in case:
            self._stat(fn + "-large-tol")          # in-band: tie only
        elif fn == "collinear":
            pts = case["pts"]
            if len(pts) >= 3:
                crs = [v3cross(v3sub(p, pts[0]), v3sub(pts[1], pts[0])) for p in pts[2:]]
                exact = all(not any(c) for c in crs)
                if exact != res:
                    return f"points_are_collinear={res}, exact collinearity {exact}: {pts}"
            elif res is not True:
                return "fewer than three points must be collinear"
        elif fn == "planar":
            pts, nrm = case["pts"], case["normal"]
            c = [F(sum(p[i] for p in pts), len(pts)) for i in range(3)]
            exact = all(v3dot(nrm, v3sub(p, c)) == 0 for p in pts)
            if exact != res:
                return f"points_are_planar={res}, exact coplanarity {exact}: {pts} normal {nrm}"
        elif fn == "planar_auto":
            pts = case["pts"]
            if len(pts) >= 3:
                crs = [v3cross(v3sub(p, pts[0]), v3sub(q, pts[0])) for p in pts for q in pts]
                nrm = next((c for c in crs if any(c)), None)
                if nrm is not None:          # not all collinear
                    if "ok" not in res:
                        return f"non-collinear points raised {res}"
                    exact = all(v3dot(nrm, v3sub(p, pts[0])) == 0 for p in pts)
                    if exact != res["ok"]:
                        return f"points_are_planar(normal=None)={res['ok']}, exact coplanarity {exact}: {pts}"
        elif fn == "halfspace":
            if len(case["n"]) == len(case["x0"]):
                if "ok" not in res:
                    return f"raised {res}"
                for p, r in zip(case["pts"], res["ok"]):
                    e = all(v3dot(v3sub(p, x), nn) <= 0 for nn, x in zip(case["n"], case["x0"]))
                    if e != r:
                        return f"point {p}: all inequalities {e}, returned {r}"
        elif fn == "sort_pairs":
            if case.get("extra"):
                self._stat("sort_pairs-extra-rows")
            if case["valid"] and "err" in res:
                return (f"a single {'cycle' if case['circ'] else 'chain'} {case['lines']} "
                        f"(extra rows {case.get('extra')}) raised {res['err']}")
            if "err" not in res:
                lines = case["lines"]
                s, ind = res["sorted"], res["ind"]
                if sorted(ind) == list(range(len(lines))) and case.get("extra"):
                    for r, (row_in, row_out) in enumerate(zip(case["extra"], res["extra"])):
                        for k, i in enumerate(ind):
                            if row_out[k] != row_in[i]:
                                return (f"extra row {r + 2}, column {k}: {row_out[k]} does not follow "
                                        f"its line {lines[i]} (tag {row_in[i]}); input {lines} + "
                                        f"{case['extra']}, output {s} + {res['extra']}")
                if sorted(ind) != list(range(len(lines))):
                    return f"sort_ind {ind} is not a permutation"
                for k, i in enumerate(ind):
                    if s[k] != lines[i] and s[k] != lines[i][::-1]:
                        return f"sorted column {k} = {s[k]} is not input pair {lines[i]}"
                for k in range(len(s) - 1):
                    if s[k][1] != s[k + 1][0]:
                        return f"columns {k},{k + 1} do not chain: {s}"
                if case["valid"] and case["circ"] and s[0][0] != s[-1][1]:
                    return f"cycle not closed: {s}"
        elif fn == "sort_plane":
            pts = case["pts"]
            if sorted(res) != list(range(len(pts))):
                return f"{res} is not a permutation"
            ccw = exact_cyclic_order(pts, case["centre"], case["N"], res[0])
            if ccw is not None:
                cw = [ccw[0]] + ccw[:0:-1]
                if res != ccw and res != cw:
                    return (f"order {res} is not an angular ordering around the centre "
                            f"(exact counter-clockwise order from its first point: {ccw}); "
                            f"points {pts}, centre {case['centre']}, normal {case['N']}")
        elif fn == "sort_line":
            pts = case["pts"]
            if sorted(res) != list(range(len(pts))):
                return f"{res} is not a permutation"
            if len(pts) >= 2:
                d = v3sub(pts[res[-1]], pts[res[0]])
                ks = [v3dot(v3sub(pts[i], pts[res[0]]), d) for i in res]
                if any(ks[i] > ks[i + 1] for i in range(len(ks) - 1)):
                    return f"order {res} is not monotone along the line: {pts}"
        elif fn in ("polyhedron", "polyh_tri"):
            faces_key = "faces" if fn == "polyhedron" else "tris"
            for p, r in zip(case["pts"], res if fn == "polyhedron" else res["inside"]):
                pf = [F(x) for x in p]
                st = self._piece_state(case["pieces"], pf)
                self._stat("polyhedron-point-" + st)
                if st == "in" and not r:
                    return f"interior point {p} reported outside; faces {case[faces_key]}"
                if st == "out" and r:
                    return f"exterior point {p} reported inside; faces {case[faces_key]}"
        return None

    def finding_key(self, case, res, why):
        if case["fn"] in ("polyhedron", "polyh_tri") and "interior point" in why:
            # is the point coplanar with the supporting plane of some face?
            p = [F(x) for x in why.split("interior point ")[1].split(" reported")[0]
                 .strip("[]").replace("'", "").split(", ")]
            for f in case["faces" if case["fn"] == "polyhedron" else "tris"]:
                nrm = v3cross(v3sub(f[1], f[0]), v3sub(f[2], f[0]))
                if v3dot(nrm, v3sub(p, f[0])) == 0:
                    return KEY_POLYH
        return "unclassified: " + case["fn"]

    # -------------------------------------------------------------- tie
    def coq_case(self, case, res):
        fn = case["fn"]
        if fn == "ccw_polygon":
            return f"Bool.eqb {cbool(res)} (is_ccw_polygon {clist(case['poly'], p2)})"
        if fn == "ccw_polyline":
            p = case["p"]
            return (f"Bool.eqb {cbool(res)} (is_ccw_polyline {cq(case['tol'])} {cbool(case['default'])} "
                    f"{p2(p[0])} {p2(p[1])} {p2(p[2])})")
        if fn == "pip":
            return (f"bools_eqb {clist(res, cbool)} (map (point_in_polygon {cbool(case['default'])} "
                    f"{clist(case['poly'], p2)}) {clist(case['pts'], p2)})")
        if fn == "collinear":
            return (f"Bool.eqb {cbool(res)} (points_are_collinear {cq(case.get('tol', TOL5))} "
                    f"{clist(case['pts'], p3)})")
        if fn == "planar":
            return (f"Bool.eqb {cbool(res)} (points_are_planar {cq(case.get('tol', TOL5))} "
                    f"{p3(case['normal'])} {clist(case['pts'], p3)})")
        if fn == "planar_auto":
            impl = res["err"] if "err" in res else f"(POk {cbool(res['ok'])})"
            return (f"agree_pres {impl} (points_are_planar_auto {cq(TOL5)} "
                    f"{cq(case.get('tol', TOL5))} {clist(case['pts'], p3)})")
        if fn == "halfspace":
            impl = f"(HErr {res['err']})" if "err" in res else f"(HOk {clist(res['ok'], cbool)})"
            return (f"agree_hres {impl} (half_space_int {clist(case['n'], p3)} "
                    f"{clist(case['x0'], p3)} {clist(case['pts'], p3)})")
        if fn == "sort_pairs":
            impl = (f"(SErr {res['err']})" if "err" in res else
                    f"(SOk {clist(res['sorted'], zline)} {clist(res['ind'], cnat)})")
            return (f"agree_sres {impl} (sort_point_pairs {clist(case['lines'], zline)} "
                    f"{cbool(case['check'])} {cbool(case['circ'])})")
        if fn == "sort_line":
            return f"agree_line_sort {clist(res, cnat)} {clist(case['pts'], p3)}"
        if fn == "sort_plane":
            if exact_cyclic_order(case["pts"], case["centre"], case["N"], 0) is None:
                return None                      # equal directions: np.argsort ties
            nh = [F(x, case["L"]) for x in case["N"]]
            s2 = nh[0] * nh[0] + nh[1] * nh[1]
            sn, sd = math.isqrt(s2.numerator), math.isqrt(s2.denominator)
            assert sn * sn == s2.numerator and sd * sd == s2.denominator
            return (f"agree_plane {clist(res, cnat)} {p3(nh)} {cq(F(sn, sd))} "
                    f"{clist(case['pts'], p3)} {p3(case['centre'])}")
        if fn == "polyh_tri":
            tris = clist(case["tris"], lambda t: f"({p3(t[0])}, {p3(t[1])}, {p3(t[2])})")
            terms = [f"agree_pih {cbool(ra)} {cbool(ins)} tol10 tris {p3([F(x) for x in q])}"
                     for q, ins, ra in zip(case["pts"], res["inside"], res["raised"])]
            return f"(let tris := {tris} in forallb (fun b : bool => b) {clist(terms)})"
        return None

    def coq_diag(self, case, res):
        t = self.coq_case(case, res)
        if t is None:
            return None
        if case["fn"] == "sort_plane":
            nh = [F(x, case["L"]) for x in case["N"]]
            s2 = nh[0] * nh[0] + nh[1] * nh[1]
            sv = F(math.isqrt(s2.numerator), math.isqrt(s2.denominator))
            return (f"(sort_point_plane {p3(nh)} {cq(sv)} {clist(case['pts'], p3)} {p3(case['centre'])}, "
                    f"plane_keys {p3(nh)} {cq(sv)} {clist(case['pts'], p3)} {p3(case['centre'])})")
        if case["fn"] == "polyh_tri":
            tris = clist(case["tris"], lambda t_: f"({p3(t_[0])}, {p3(t_[1])}, {p3(t_[2])})")
            pts = clist([[F(x) for x in q] for q in case["pts"]], p3)
            return (f"(let tris := {tris} in map (fun p => (pih_decision tol10 tris p, "
                    f"pih_ref tris p)) {pts})")
        # the model side is the last parenthesised argument
        return t[t.index("(", t.index(" ")):] if case["fn"] != "sort_line" else \
            f"line_keys {clist(case['pts'], p3)}"

    def nontrivial(self, case, res):
        fn = case["fn"]
        if fn == "polyh_tri":
            return len(set(res["inside"])) == 2 or any(res["raised"])
        if fn in ("pip", "polyhedron"):
            return isinstance(res, list) and len(set(res)) == 2
        if fn == "halfspace":
            return "ok" in res and len(case["pts"]) > 0
        if fn == "sort_pairs":
            return len(case["lines"]) >= 3
        if fn in ("collinear", "sort_line", "sort_plane"):
            return len(case["pts"]) >= 3
        return True

    def shrink(self, case, still_fails):
        if case["fn"] in ("pip", "polyhedron", "polyh_tri"):
            for i in range(len(case["pts"])):
                c = dict(case, pts=[case["pts"][i]])
                if still_fails(c):
                    return c
        return case

    def extra_evidence(self):
        return {"function_and_class_distribution": dict(sorted(self.stats.items()))}


PROP = C31()
