"""C04 — discrete conservation of the mass and energy balance equations on fractured
md-grids (pp.SinglePhaseFlow, pp.MassAndEnergyBalance)."""
import os
import shutil
import time
from fractions import Fraction as F

import numpy as np
import scipy.sparse as sps

from harness import core
from harness.core import Prop, clist

import porepy as pp
from porepy.applications.md_grids.model_geometries import (
    CubeDomainOrthogonalFractures,
    NonMatchingSquareDomainOrthogonalFractures,
    RectangularDomainThreeFractures,
    SquareDomainOrthogonalFractures,
)

TOL = F(1, 10 ** 9)
AD_KEY = "AdTpfaFlux.diffusive_flux: interface flux not applied on internal boundary faces"


# ------------------------------------------------------------------------------------------
# model set-up: closed (zero Neumann) boundaries for every flux, no external sources
# ------------------------------------------------------------------------------------------
class ClosedBoundaries:
    def _neu(self, sd):
        return pp.BoundaryCondition(sd, sd.get_boundary_faces(), "neu")

    def bc_type_darcy_flux(self, sd):
        return self._neu(sd)

    def bc_type_fluid_flux(self, sd):
        return self._neu(sd)

    def bc_type_fourier_flux(self, sd):
        return self._neu(sd)

    def bc_type_enthalpy_flux(self, sd):
        return self._neu(sd)


class RemeshedInterfaces:
    """Non-matching grids as the library's own tests build them (tests/models/
    test_fluid_mass_balance.py): every 1-d mortar grid and the fracture grid are re-meshed with
    their own numbers of nodes (update_mortar / replace_subdomains_and_interfaces /
    update_secondary)."""

    def set_geometry(self):
        super().set_geometry()
        nm, n1 = self.params["num_nodes_mortar"], self.params["num_nodes_1d"]
        for intf in self.mdg.interfaces(dim=1):
            new_side = {s: pp.refinement.remesh_1d(g, num_nodes=nm)
                        for s, g in intf.side_grids.items()}
            intf.update_mortar(new_side, tol=1e-4)
            _, old = self.mdg.interface_to_subdomain_pair(intf)
            new = pp.refinement.remesh_1d(old, num_nodes=n1)
            new.compute_geometry()
            self.mdg.replace_subdomains_and_interfaces({old: new})
            intf.update_secondary(new, tol=1e-4)
        self.mdg.compute_geometry()


class RemeshedSquare(RemeshedInterfaces, SquareDomainOrthogonalFractures):
    pass


GEOMETRIES = {
    "square": SquareDomainOrthogonalFractures,
    "square_remeshed": RemeshedSquare,
    "square_nonmatching": NonMatchingSquareDomainOrthogonalFractures,
    "rect3": RectangularDomainThreeFractures,
    "cube": CubeDomainOrthogonalFractures,
}
_CLASSES = {}


#: constitutive-law variants: the default (Mpfa-based DarcysLaw / FouriersLaw) and the
#: differentiable Tpfa-type laws of constitutive_laws.AdTpfaFlux mixed in before the model
LAWS = {
    "default": (),
    "darcy_ad": (pp.constitutive_laws.DarcysLawAd,),
    "fourier_ad": (pp.constitutive_laws.FouriersLawAd,),
    "both_ad": (pp.constitutive_laws.DarcysLawAd, pp.constitutive_laws.FouriersLawAd),
}


def model_class(geometry, physics, laws="default"):
    key = (geometry, physics, laws)
    if key not in _CLASSES:
        base = pp.SinglePhaseFlow if physics == "flow" else pp.MassAndEnergyBalance
        _CLASSES[key] = type(f"C04_{geometry}_{physics}_{laws}",
                             (ClosedBoundaries, GEOMETRIES[geometry]) + LAWS[laws] + (base,), {})
    return _CLASSES[key]


def build_model(case):
    fl, so = case["fluid"], case["solid"]
    fluid = pp.FluidComponent(
        compressibility=fl["compressibility"], thermal_expansion=fl["thermal_expansion"],
        specific_heat_capacity=fl["specific_heat_capacity"],
        thermal_conductivity=fl["thermal_conductivity"], viscosity=fl["viscosity"],
        density=fl["density"])
    solid = pp.SolidConstants(
        porosity=so["porosity"], permeability=so["permeability"],
        residual_aperture=so["residual_aperture"], normal_permeability=so["normal_permeability"],
        specific_heat_capacity=so["specific_heat_capacity"],
        thermal_conductivity=so["thermal_conductivity"], density=so["density"])
    if case.get("history") is None:
        tm = pp.TimeManager(schedule=[0.0, 8.0], dt_init=case["dt"], constant_dt=True)
    else:
        # time-step history: adaptive time manager (dt changes after prepare_simulation)
        tm = pp.TimeManager(schedule=case.get("schedule", [0.0, 64.0]), dt_init=case["dt"],
                            constant_dt=False, dt_min_max=(2.0 ** -12, 8.0))
    params = {
        "fracture_indices": list(case["fractures"]),
        "material_constants": {"fluid": fluid, "solid": solid},
        "times_to_export": [],
        "time_manager": tm,
    }
    for k in ("num_nodes_mortar", "num_nodes_1d", "fracture_refinement_ratio",
              "interface_refinement_ratio"):
        if k in case:
            params[k] = case[k]
    if case["geometry"] == "rect3":
        params["cartesian"] = case["grid_type"] == "cartesian"
    else:
        params["grid_type"] = case["grid_type"]
        params["meshing_arguments"] = {"cell_size": case["cell_size"]}
    m = model_class(case["geometry"], case["physics"], case.get("laws", "default"))(params)
    # gmsh writes its files into the working directory
    tmp = os.path.join(core.CACHE, "tmp", "c04.%d" % os.getpid())
    os.makedirs(tmp, exist_ok=True)
    cwd = os.getcwd()
    os.chdir(tmp)
    try:
        m.prepare_simulation()
    finally:
        os.chdir(cwd)
        shutil.rmtree(tmp, ignore_errors=True)
    return m


def equations(m, physics, laws="default"):
    """name -> (equation, accumulation, flux, source, interface flux entering the source,
    interface flux entering the face fluxes) as the model classes define them.  The last two
    coincide except for the differentiable diffusive laws (constitutive_laws.AdTpfaFlux),
    whose diffusive_flux applies the projected interface flux on external Neumann faces only:
    with FouriersLawAd the interface Fourier flux is part of the energy source but not of the
    fracture-face fluxes (the advective path adds its interface flux itself)."""
    eqs = {"mass": (m.mass_balance_equation, m.fluid_mass, m.fluid_flux, m.fluid_source,
                    m.interface_fluid_flux, m.interface_fluid_flux)}
    if physics == "energy":
        lam = lambda i: m.interface_enthalpy_flux(i) + m.interface_fourier_flux(i)
        lamf = m.interface_enthalpy_flux if laws in ("fourier_ad", "both_ad") else lam
        eqs["energy"] = (
            m.energy_balance_equation,
            lambda s: m.volume_integral(m.total_internal_energy(s), s, dim=1),
            m.energy_flux, m.energy_source, lam, lamf)
    return eqs


#: names under which the balance equations are REGISTERED in the equation system (the objects
#: the solver assembles; built once in set_equations with the model's ad_time_step Scalar)
REGISTERED = {"mass": "mass_balance_equation", "energy": "energy_balance_equation"}


def end_of_step(m, h):
    """What the step cycle (NewtonSolver.solve / run_time_dependent_model) does after a time
    step before the next one starts, for one entry h of a time-step history:
      converged : after_nonlinear_convergence: time_manager.compute_time_step(iterations=k)
                  [k <= 4 relaxes dt by 1.3, k >= 7 restricts it by 0.7, the schedule truncates],
                  then update_solution (iterate -> previous time step);
      failed    : after_nonlinear_failure: compute_time_step(recompute_solution=True) [dt halved,
                  time and time index stepped back], iterate reset to the previous time step;
      assign    : the user sets time_manager.dt directly (restart with another dt), the solution
                  is stored as for a converged step."""
    tm, es = m.time_manager, m.equation_system
    if h["how"] == "converged":
        solution = es.get_variable_values(iterate_index=0)
        tm.compute_time_step(iterations=int(h["iterations"]))
        m.update_solution(solution)
    elif h["how"] == "failed":
        tm.compute_time_step(recompute_solution=True)
        es.set_variable_values(es.get_variable_values(time_step_index=0), iterate_index=0)
    elif h["how"] == "assign":
        solution = es.get_variable_values(iterate_index=0)
        tm.dt = float(h["dt"])
        m.update_solution(solution)
    else:
        raise ValueError(h["how"])


def start_of_step(m):
    """Start of a time step as in run_time_dependent_model + NewtonSolver.solve."""
    m.time_manager.increase_time()
    m.time_manager.increase_time_index()
    m.before_nonlinear_loop()


def coo(M):
    M = sps.coo_matrix(M)
    return [[int(r), int(c), float(v)] for r, c, v in zip(M.row, M.col, M.data)]


# ------------------------------------------------------------------------------------------
# Coq literals
# ------------------------------------------------------------------------------------------
def qz(x):
    fr = F(x)
    n, d = fr.numerator, fr.denominator
    return f"{n}" if (d == 1 and n >= 0) else (f"({n})" if d == 1 else f"({n}#{d})")


def qlist(v):
    return clist(v, qz)


def structure_term(st):
    assert all(float(int(t[2])) == t[2] for t in st["div"])
    zi = lambda x: f"{int(x)}" if x >= 0 else f"({int(x)})"
    div = clist(st["div"], lambda t: f"zinc {t[0]} {t[1]} {zi(t[2])}")
    pp_ = clist(st["pp"], lambda t: f"zw {t[0]}%Z {t[1]}%Z {qz(t[2])}")
    ps_ = clist(st["ps"], lambda t: f"zw {t[0]}%Z {t[1]}%Z {qz(t[2])}")
    return (f"(zstructure {st['nc']}%Z {st['nf']}%Z {st['nm']}%Z ({div})%Z {pp_} {ps_})")


def evaluation_term(e):
    return (f"{{| e_acc := {qlist(e['acc'])}; e_flux := {qlist(e['flux'])}; "
            f"e_lam := {qlist(e['lam'])}; e_lamf := {qlist(e.get('lamf', e['lam']))}; "
            f"e_src := {qlist(e['src'])}; "
            f"e_div := {qlist(e['div'])}; e_res := {qlist(e['res'])} |}}")


class C04(Prop):
    id = "C04"
    props_file = "Props/C04.v"
    preamble = ("From Coq Require Import List ZArith QArith.\nImport ListNotations.\n"
                "From PP Require Import Model.C04.\nOpen Scope Q_scope.\n")
    n_cases = (20, 20)
    design_ref = "DESIGN.md §5 C04"
    level_text = (
        "METHOD-level Coq theorems over any commutative ring plus per-instance certificates. "
        "Theorems: for a balance equation dt(acc) + Div@flux - source on a mixed-dimensional grid "
        "given by COO matrices, (1) if every face has one +-1 entry or one +1 and one -1 entry the "
        "sum over all cells of Div@q is the signed sum over boundary faces (C04_div_telescopes); "
        "(2) with fracture-face flux sgn_div*(P_primary_int lam) and lower-dimensional source "
        "P_secondary_int lam, projections supported on boundary faces with equal (unit) column "
        "sums, every interface flux lam contributes zero to the sum over all cells of all "
        "subdomains (C04_interface_cancels); (3) closed boundary + no external source => sum of "
        "residuals = sum of accumulation rates for every state (C04_conservation); (4) the boolean "
        "certificate cert_ok evaluated on real matrices implies these hypotheses "
        "(C04_certificate_sound; for non-matching grids, whose projection entries are not binary "
        "fractions, C04_certificate_tol_sound: supports exact, column sums within 1e-12, exact "
        "balance with those column sums); (5) C04_deficit: when the interface flux entering the face fluxes "
        "differs from the one entering the lower-dimensional source, sum residual = sum acc + "
        "(received by faces) - (handed out by sources); (6) C04_adflux_conservation_refuted: the "
        "faithful model of the differentiable diffusive laws (AdTpfaFlux: interface flux applied on "
        "external Neumann faces only) does NOT conserve (concrete witness), (7) "
        "C04_adflux_conservation_partial: it does when both interface fluxes have the same total.  Tie (certificate correspondence): for generated fractured "
        "md-grids (0-3 intersecting fractures; Cartesian 2-D quick; simplex and 3-D thorough) of "
        "pp.SinglePhaseFlow and pp.MassAndEnergyBalance (standard laws and the variants with "
        "DarcysLawAd / FouriersLawAd mixed in) with zero-Neumann boundaries, Coq "
        "evaluates cert_ok on the REAL pp.ad.Divergence, mortar_to_primary_int and "
        "mortar_to_secondary_int matrices and, at random unconverged states (random primary "
        "variables at the previous time step and the current iterate, random interface fluxes, "
        "upwind directions refreshed), recomputes in exact rationals flux on every face, source, "
        "Div@flux and the full residual of the model from the real accumulation rate, interior "
        "face fluxes and interface fluxes, and compares with what the real AD operators "
        "(fluid_flux/energy_flux, fluid_source/energy_source, Divergence@flux) and the balance "
        "equations REGISTERED in the equation system (mass_balance_equation / "
        "energy_balance_equation as EquationSystem.assemble evaluates them, i.e. the operator "
        "objects built once in set_equations) evaluate to, plus the conservation "
        "identity sum(residual) = sum(accumulation rate) [+ the deficit predicted by (5) for the "
        "FouriersLawAd variants], all within 1e-9 relative to the magnitude of the terms.  "
        "TIME-STEP HISTORIES (4 directed cases in every run + ~1/4 of the others): the states are "
        "the iterates of consecutive time steps of the real step cycle (increase_time, "
        "before_nonlinear_loop; compute_time_step(iterations) + update_solution after a converged "
        "step, compute_time_step(recompute_solution=True) after a failed one, or direct assignment "
        "of time_manager.dt), so the time step differs from the one at prepare_simulation; the "
        "oracle demands sum(registered residual) = (accumulated now - accumulated at the previous "
        "time step) / CURRENT time_manager.dt.  OPEN "
        "FINDING (genuine, reproduced): with FouriersLawAd on a fractured domain the energy balance "
        "is not conservative; the oracle reports it as KNOWN-FINDING on every run.")
    level_note = (
        "NOT proved: that the Python model classes compose their equations from exactly these "
        "operators (checked numerically per configuration and state by the tie); that the "
        "intrinsic flux vanishes on closed boundaries (checked numerically: the real flux on "
        "every one-neighbour face must equal sgn_div*(P_primary_int lam)); well (codimension-2) "
        "couplings (no wells are generated); floating-point rounding (theorems are exact; the "
        "comparison band is 1e-9*(1+sum|acc|+sum|flux|+sum|lam|)); the time derivative itself is "
        "not part of the Coq model (the accumulation rate per cell is an input of the model; that "
        "the registered equations use the CURRENT time step after dt changed - adaptive stepping, "
        "recomputed step, step truncated by the schedule, dt assigned by the user - is checked by "
        "the exact-fractions oracle on the time-step histories only, for histories of 3 (quick) / "
        "5 (thorough) steps).  The theorems are about the "
        "model; the implementation is covered on the generated configurations and states only.  "
        "Trusted: Coq kernel + vm_compute, the harness, exact float->rational conversion.")
    technique = ("Coq proof (regrouping of COO sums by key, induction over entry lists, over any "
                 "commutative ring) + per-instance certificate checked by vm_compute on the real "
                 "matrices + exact-fractions conservation oracle on the real residuals")
    rule = ("random configurations: physics in {SinglePhaseFlow, MassAndEnergyBalance}; geometry in "
            "{unit square with 0-2 orthogonal (intersecting) fractures, 2x1 rectangle with 0-3 "
            "fractures meeting in one point, unit cube with 0-3 orthogonal fractures (thorough), and "
            "NON-MATCHING 2-D grids (~1/3 of the cases, standard laws): unit square with one fracture "
            "whose mortar grids and fracture grid are re-meshed with their own numbers of nodes "
            "(update_mortar / replace_subdomains_and_interfaces / update_secondary), or the library's "
            "non-matching square with 1-2 fractures and random refinement ratios}; "
            "Cartesian (quick) / simplex (thorough); constitutive laws: standard (1/2), DarcysLawAd, "
            "FouriersLawAd, both (energy); compressible and incompressible fluid; random "
            "dyadic material constants and time step; 3 (quick) / 5 (thorough) random states per "
            "configuration incl. an all-zero-interface-flux state; TIME-STEP HISTORIES: the first 4 "
            "cases of every run (compressible fluid, standard/DarcysLawAd laws; directed: adaptive "
            "growth compute_time_step(iterations<=4), direct assignment of time_manager.dt, "
            "restriction iterations>=7 + failed step recompute_solution=True, step truncated by a "
            "scheduled time) and ~1/4 of the remaining cases (random mix) use an adaptive "
            "TimeManager and treat the states as iterates of consecutive time steps: "
            "increase_time, increase_time_index, before_nonlinear_loop, random iterate; between "
            "steps dt changes and update_solution shifts the iterate to the previous time step; "
            "the REGISTERED equations (EquationSystem.assemble) are evaluated at every step and "
            "compared with the change of the accumulated quantity over the CURRENT dt; "
            "non-trivial = at least one "
            "fracture and a non-zero interface flux; distinct by (case, output)")
    trusted = ["float -> exact rational conversion of the evaluated AD operators; tolerance band "
               "1e-9*(1+sum|acc|+sum|flux|+sum|lam|) evaluated inside Coq"]
    assumptions = ["zero-Neumann conditions on the outer boundary for every flux; no external sources; "
                   "no wells (codimension-2 interfaces)"]

    def __init__(self):
        self.stats = {}

    # ------------------------------------------------------------------ generator
    def _materials(self, rng, incompressible):
        d = lambda lo, hi: rng.randint(lo, hi) / 8.0
        fluid = {"compressibility": 0.0 if incompressible else d(1, 8),
                 "thermal_expansion": 0.0 if incompressible else d(0, 4),
                 "specific_heat_capacity": d(4, 24), "thermal_conductivity": d(1, 16),
                 "viscosity": d(4, 16), "density": d(4, 16)}
        solid = {"porosity": d(1, 6), "permeability": d(1, 16),
                 "residual_aperture": d(1, 4) / 4.0, "normal_permeability": d(1, 16),
                 "specific_heat_capacity": d(4, 24), "thermal_conductivity": d(1, 16),
                 "density": d(4, 24)}
        return fluid, solid

    #: directed time-step histories (present in EVERY run, first cases of the stream); each is
    #: cycled/truncated to the number of transitions; every entry changes dt, so the last time
    #: step never equals the initial one (factors 1.3, 0.7, 0.5 have no non-trivial product 1)
    DIRECTED_HISTORIES = [
        # adaptive growth (cheap steps), as in run_time_dependent_model with constant_dt=False
        [{"how": "converged", "iterations": 1}, {"how": "converged", "iterations": 3},
         {"how": "converged", "iterations": 2}, {"how": "converged", "iterations": 4}],
        # direct assignment of time_manager.dt (restart with another step size)
        [{"how": "assign", "dt": None}, {"how": "assign", "dt": None},
         {"how": "converged", "iterations": 9}, {"how": "assign", "dt": None}],
        # restriction after expensive steps and a failed (recomputed) step
        [{"how": "converged", "iterations": 8}, {"how": "failed"},
         {"how": "converged", "iterations": 12}, {"how": "failed"}],
        # step truncated by a scheduled time (schedule [0, 1.75 dt, 64]), then growth again
        [{"how": "converged", "iterations": 2}, {"how": "converged", "iterations": 2},
         {"how": "failed"}, {"how": "assign", "dt": None}],
    ]

    def _history(self, rng, nstates, dt, directed=None):
        """nstates-1 changes of the time step between consecutive states."""
        dts = [x for x in (0.125, 0.25, 0.375, 0.5, 0.75, 1.0, 1.5, 2.0, 3.0) if x != dt]
        out = []
        for j in range(nstates - 1):
            if directed is not None:
                h = dict(self.DIRECTED_HISTORIES[directed][j % 4])
            else:
                u = rng.random()
                if u < 0.45:
                    h = {"how": "converged", "iterations": rng.choice([1, 2, 3, 4, 5, 7, 8, 12])}
                elif u < 0.6:
                    h = {"how": "failed"}
                else:
                    h = {"how": "assign", "dt": None}
            if h["how"] == "assign":
                h["dt"] = rng.choice(dts)
            out.append(h)
        return out

    def generate(self, rng, n, tier):
        quick = tier == "quick"
        nstates = 3 if quick else 5
        n_directed = min(n, len(self.DIRECTED_HISTORIES))
        for i in range(n):
            physics = "flow" if i % 2 == 0 else "energy"
            r = rng.random()
            if quick:
                geometry = "square" if r < 0.6 else "rect3"
            else:
                geometry = "square" if r < 0.4 else ("rect3" if r < 0.75 else "cube")
            extra = {}
            if rng.random() < (0.35 if quick else 0.3):
                # NON-MATCHING mortar / fracture grids (2-D, Cartesian matrix grid)
                if rng.random() < 0.6:
                    geometry = "square_remeshed"
                    fr = rng.choice([[0], [1]])
                    extra = {"num_nodes_mortar": rng.randint(3, 8), "num_nodes_1d": rng.randint(3, 7)}
                else:
                    geometry = "square_nonmatching"
                    fr = rng.choice([[0], [1], [0, 1]])
                    extra = {"fracture_refinement_ratio": rng.choice([1, 2, 3]),
                             "interface_refinement_ratio": rng.choice([2, 3, 5])}
                grid_type = "cartesian"
                cell_size = rng.choice([0.5, 0.25])
            elif geometry == "square":
                fr = rng.choice([[], [0], [1], [0, 1], [0, 1]])
                grid_type = "cartesian" if (quick or rng.random() < 0.5) else "simplex"
                cell_size = rng.choice([0.5, 0.25] if quick else [0.5, 0.25, 0.25])
                if grid_type == "simplex":
                    cell_size = rng.choice([0.5, 0.25])
            elif geometry == "rect3":
                if quick:
                    fr = rng.choice([[0], [1], [0, 1], [0, 1]])
                    grid_type = "cartesian"
                else:
                    fr = rng.choice([[], [0], [2], [0, 1], [0, 2], [1, 2], [0, 1, 2], [0, 1, 2]])
                    grid_type = "simplex" if (2 in fr or rng.random() < 0.5) else "cartesian"
                cell_size = None
            else:
                fr = rng.choice([[], [0], [1, 2], [0, 1, 2]])
                grid_type = "cartesian"
                cell_size = 0.5
            directed = i if i < n_directed else None
            # the directed histories need a non-zero accumulation term (compressible fluid)
            incompressible = rng.random() < 0.25 and directed is None
            fluid, solid = self._materials(rng, incompressible=incompressible)
            laws = (rng.choice(["default", "default", "darcy_ad"]) if physics == "flow" else
                    rng.choice(["default", "default", "darcy_ad", "fourier_ad", "both_ad"]))
            if extra:
                laws = "default"     # the non-matching stream uses the standard laws
            if directed is not None and laws in ("fourier_ad", "both_ad"):
                laws = "darcy_ad"    # keep the directed histories clear of the open finding
            dt = rng.choice([0.125, 0.5, 1.0, 2.0])
            if directed is not None or rng.random() < 0.25:
                # TIME-STEP HISTORY: the states are the iterates of consecutive time steps and
                # the time step size changes between them
                extra = dict(extra, history=self._history(rng, nstates, dt, directed))
                if directed == 3:
                    extra["schedule"] = [0.0, 1.75 * dt, 64.0]
            yield {
                **extra,
                "physics": physics, "laws": laws, "geometry": geometry, "fractures": fr,
                "grid_type": grid_type, "cell_size": cell_size,
                "dt": dt,
                "fluid": fluid, "solid": solid,
                "states": [{"seed": rng.randrange(2 ** 31),
                            "zero_interface": (k == nstates - 1 and rng.random() < 0.5)}
                           for k in range(nstates)],
            }

    # ------------------------------------------------------------------ implementation
    def run_impl(self, case):
        m = build_model(case)
        mdg, es = m.mdg, m.equation_system
        sds = mdg.subdomains()
        intfs = mdg.interfaces(codim=1)
        div = pp.ad.Divergence(sds, dim=1)
        proj = pp.ad.MortarProjections(mdg, sds, intfs, dim=1)
        D = sps.coo_matrix(div.parse(mdg))
        nc, nf = D.shape
        nm = int(sum(i.num_cells for i in intfs))
        structure = {
            "nc": int(nc), "nf": int(nf), "nm": nm,
            "dims": [int(sd.dim) for sd in sds], "cells": [int(sd.num_cells) for sd in sds],
            "div": coo(D),
            "pp": coo(proj.mortar_to_primary_int().value(es)) if nm else [],
            "ps": coo(proj.mortar_to_secondary_int().value(es)) if nm else [],
        }
        eqs = equations(m, case["physics"], case.get("laws", "default"))
        ops = {}
        for name, (eq, acc, flux, src, lam, lamf) in eqs.items():
            ops[name] = {
                "mass": acc(sds), "mass_prev": acc(sds).previous_timestep(),
                "acc": pp.ad.time_derivatives.dt(acc(sds), m.ad_time_step),
                "flux": flux(sds), "src": src(sds), "div": div @ flux(sds),
                "lam": lam(intfs) if nm else None,
                "lamf": lamf(intfs) if nm else None,
            }
        ndof = es.num_dofs()
        # interface variables: zeroed in the "zero interface flux" states
        intf_dofs = np.zeros(ndof, dtype=bool)
        for var in es.variables:
            if isinstance(var.domain, pp.MortarGrid):
                intf_dofs[es.dofs_of([var])] = True
        evals = []
        hist = case.get("history")
        assert hist is None or len(hist) >= len(case["states"]) - 1
        for k, st in enumerate(case["states"]):
            r = np.random.default_rng(st["seed"])
            prev = r.uniform(0.0, 1.0, ndof)
            cur = r.uniform(-0.5, 1.5, ndof)
            if st["zero_interface"]:
                prev[intf_dofs] = 0.0
                cur[intf_dofs] = 0.0
            if hist is not None:
                # time-step history: state k is the iterate of time step k; between two steps
                # the time step size changes and the cycle of the real time loop is run
                if k > 0:
                    end_of_step(m, hist[k - 1])
                start_of_step(m)
            if hist is None or k == 0:
                es.set_variable_values(prev, time_step_index=0)
            es.set_variable_values(cur, iterate_index=0)
            # refresh stored Darcy fluxes (upwind directions) and discretisations
            m.update_derived_quantities()
            for name, o in ops.items():
                val = lambda k_: [float(x) for x in np.asarray(es.evaluate(o[k_])).ravel()]
                e = {"eq": name, "dt": float(m.time_manager.dt)}
                # the residual of the REGISTERED equation, as the equation system assembles it
                # (assemble returns the right-hand side, i.e. minus the residual)
                rhs = es.assemble(evaluate_jacobian=False, equations=[REGISTERED[name]])
                e["res"] = [float(-x) for x in np.asarray(rhs).ravel()]
                for key_ in ("mass", "mass_prev", "acc", "flux", "src", "div"):
                    e[key_] = val(key_)
                e["lam"] = val("lam") if nm else []
                e["lamf"] = val("lamf") if nm else []
                evals.append(e)
        key = (f"{case['physics']}/{case.get('laws', 'default')}/{case['geometry']}/{case['grid_type']}/"
               f"{len(case['fractures'])}frac" + ("/dt-history" if hist is not None else ""))
        self.stats[key] = self.stats.get(key, 0) + 1
        return {"structure": structure, "evals": evals}

    # ------------------------------------------------------------------ oracle
    def oracle(self, case, res):
        for k, e in enumerate(res["evals"]):
            fr = lambda v: [F(x) for x in v]
            r, acc, q, lam = fr(e["res"]), fr(e["acc"]), fr(e["flux"]), fr(e["lam"])
            scale = 1 + sum(abs(x) for x in acc) + sum(abs(x) for x in q) + sum(abs(x) for x in lam)
            total = sum(r)
            # the accumulated quantity itself, at the current iterate and the previous time step
            rate = (sum(fr(e["mass"])) - sum(fr(e["mass_prev"]))) / F(e["dt"])
            mscale = scale + (sum(abs(x) for x in fr(e["mass"]))
                              + sum(abs(x) for x in fr(e["mass_prev"]))) / F(e["dt"])
            if abs(total - rate) > TOL * mscale:
                return (f"{e['eq']} balance, state {k // max(1, len(res['evals']) // len(case['states']))}: "
                        f"residuals of the registered equation sum to {float(total)!r} but the "
                        f"accumulated quantity changes at the rate {float(rate)!r} with the "
                        f"current time step {e['dt']!r} (initial {case['dt']!r}; difference "
                        f"{float(total - rate):.3e})")
            if abs(total - sum(acc)) > TOL * scale:
                return (f"{e['eq']} balance: residuals sum to {float(total)!r}, accumulation term "
                        f"sums to {float(sum(acc))!r}")
        return None

    # ------------------------------------------------------------------ Coq tie
    def coq_case(self, case, res):
        s = structure_term(res["structure"])
        exact = "false" if case["geometry"] in ("square_remeshed", "square_nonmatching") else "true"
        return f"agree {exact} {s} {clist(res['evals'], evaluation_term)}"

    def coq_diag(self, case, res):
        s = structure_term(res["structure"])
        if not res["evals"]:
            return f"(cert_ok {s}, cert_ok_tol {s})"
        e = evaluation_term(res["evals"][0])
        return f"(cert_ok {s}, cert_ok_tol {s}, model_src {s} {e}, model_res {s} {e})"

    def nontrivial(self, case, res):
        return len(case["fractures"]) > 0 and any(any(x != 0 for x in e["lam"])
                                                  for e in res["evals"])

    def finding_key(self, case, res, why):
        if (why.startswith("energy") and case.get("laws") in ("fourier_ad", "both_ad")
                and len(case["fractures"]) > 0):
            return AD_KEY
        return "conservation-" + why.split(" ")[0]

    def shrink(self, case, still_fails):
        cur = case
        if case.get("history") is not None:
            # the states of a time-step history are consecutive: shortest failing prefix
            for k in range(1, len(case["states"])):
                c = dict(cur, states=case["states"][:k], history=case["history"][:k - 1])
                if still_fails(c):
                    cur = c
                    break
        else:
            for st in case["states"]:
                c = dict(cur, states=[st])
                if still_fails(c):
                    cur = c
                    break
        for fr in ([], cur["fractures"][:1], cur["fractures"][1:]):
            if len(fr) < len(cur["fractures"]):
                c = dict(cur, fractures=fr)
                if still_fails(c):
                    cur = c
        if cur.get("laws", "default") != "default":
            c = dict(cur, laws="default")
            if still_fails(c):
                cur = c
        if cur["physics"] == "energy" and cur.get("laws", "default") in ("default", "darcy_ad"):
            c = dict(cur, physics="flow")
            if still_fails(c):
                cur = c
        return cur

    def search(self, rng, seeds, budget_s):
        t0 = time.time()
        n = 0
        while time.time() - t0 < budget_s:
            for case in self.generate(rng, 2, "quick"):
                n += 1
                try:
                    res = self.run_impl(case)
                    why = self.oracle(case, res)
                except Exception:
                    why = None
                if why:
                    return case, res, why, n
        return None, None, None, n

    def describe(self, case):
        return case

    def extra_evidence(self):
        return {"input_distribution": dict(sorted(self.stats.items()))}


PROP = C04()
