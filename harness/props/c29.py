"""C29 — split_intersecting_segments_2d: non-crossing covering subdivision."""
import warnings
from fractions import Fraction as F

import numpy as np

from harness.core import Prop, cq, cz, clist

from porepy.geometry.intersections import split_intersecting_segments_2d


# ------------------------------------------------------------------ exact helpers
def _cross(u, v):
    return u[0] * v[1] - u[1] * v[0]


def _sub(a, b):
    return (a[0] - b[0], a[1] - b[1])


def on_seg(p, a, b):
    """exact: p on the closed segment ab (a may equal b)"""
    d = _sub(b, a)
    w = _sub(p, a)
    if _cross(d, w) != 0:
        return False
    dot = w[0] * d[0] + w[1] * d[1]
    return 0 <= dot <= d[0] * d[0] + d[1] * d[1] and (d != (0, 0) or w == (0, 0))


def param(p, a, b):
    d = _sub(b, a)
    w = _sub(p, a)
    return F(w[0] * d[0] + w[1] * d[1], 1) / (d[0] * d[0] + d[1] * d[1])


def exact_isect(a, b, c, d):
    """Exact intersection of closed proper segments: None | (p,) | (p, q)."""
    d1, d2, ds = _sub(b, a), _sub(d, c), _sub(c, a)
    D = _cross(d1, d2)
    if D == 0:
        if _cross(ds, d1) != 0:
            return None
        ts, te = param(c, a, b), param(d, a, b)
        lo, hi = max(min(ts, te), 0), min(max(ts, te), 1)
        if lo > hi:
            return None
        p = (a[0] + lo * d1[0], a[1] + lo * d1[1])
        q = (a[0] + hi * d1[0], a[1] + hi * d1[1])
        return (p,) if lo == hi else (p, q)
    t1 = F(_cross(ds, d2)) / D
    t2 = F(_cross(ds, d1)) / D
    if 0 <= t1 <= 1 and 0 <= t2 <= 1:
        return ((a[0] + t1 * d1[0], a[1] + t1 * d1[1]),)
    return None


def snap(x, den):
    """the rational with denominator <= den nearest to the float x, None if further
    than 1e-9 away (output coordinates of integer input are such rationals + rounding)"""
    fr = F(x).limit_denominator(den)
    if abs(float(fr) - x) > 1e-9 * (1 + abs(x)):
        return None
    return fr


# ------------------------------------------------------------------ Coq literals
def _pt(p):
    return f"({cq(p[0])}, {cq(p[1])})"


def _seg(s):
    return f"({_pt(s[0])}, {_pt(s[1])}, {clist(s[2], cz)})"


def _edge(e):
    return f"({_pt(e[0])}, {_pt(e[1])}, {clist(e[2], cz)}, {int(e[3])}%nat)"


class C29(Prop):
    id = "C29"
    props_file = "Props/C29.v"
    preamble = ("From Coq Require Import List QArith ZArith.\nImport ListNotations.\n"
                "From PP Require Import Model.C28 Model.C29.\nOpen Scope Q_scope.\n")
    n_cases = (160, 2500)
    design_ref = "DESIGN.md §5 C29"
    level_text = (
        "Coq theorems over an executable Q-transcription of split_intersecting_segments_2d "
        "(bounding-box candidates, side filter with its vectorised scalar-distance quirk, "
        "segments_2d = the C28 model, point uniquification, per-segment np.unique + sort by "
        "distance from the start, children with the parent's tags, edge uniquification keeping "
        "the first child per point pair).  For ARBITRARY rational segment sets and any tol, "
        "under the decidable guard 'away from the tolerance bands' (tol>0, no zero-length "
        "segment, every executed segments_2d call answers like its exact counterpart, points "
        "handed to the uniquification equal or >= tol apart; guard2 adds: the two scalar "
        "distance tests of the side filter answer exactly): C29_no_exception; "
        "C29_children_inside_parent (both ends of every output edge on the segment it is mapped "
        "to, same tags); C29_covering (every point of every input segment on some output edge "
        "— induction over the chain sorted by parameter — and every point of every output edge "
        "on its input segment); C29_no_duplicates (no zero-length edge, no two edges with the "
        "same end points in either orientation — unconditional); C29_noncrossing (FULL: any point "
        "common to two output edges is an end point of both; proved via completeness of the "
        "bounding-box and side filters, shared split points inside collinear overlaps incl. "
        "those induced by third segments, and the unchanged-input branch).  The model is tied "
        "to /repo on every run: Coq recomputes the pipeline on every generated segment set, "
        "checks guard2 and compares the children before uniquification (geometry, tags, order) "
        "and the final edge set (geometry, tags, parent) with the implementation's output; the "
        "exact-rational oracle checks the full property independently.")
    level_note = (
        "P-full on the model under the guard.  NOT proved: behaviour inside the tolerance bands; "
        "that integer inputs satisfy the guard (evaluated in Coq per case instead); floating-"
        "point rounding.  Trusted: Coq kernel + vm_compute; harness generator/emitter; floats "
        "converted exactly to Q and compared within 1e-9*(1+|x|) in Coq; abstractions of the "
        "model named under 'trusted' (bounding-box sweep by its result, uniquify_point_set by "
        "greedy clustering, output point numbering not modelled).  Depends on C28's 2-D theorem "
        "(seg2d_correct_separated, separated_exact).  C29_no_duplicates_partial / "
        "C29_noncrossing_partial are kept but superseded by the full theorems.")
    technique = ("Coq proof (convex-combination / sorted-parameter induction over Q on the "
                 "transcribed splitting pipeline) + vm_compute execution correspondence")
    rule = ("sets of 2-8 integer segments in small boxes built from directed streams "
            "(crossings, T-junctions, collinear overlap/containment, shared endpoints, exact "
            "and reversed duplicates, stars through one point, grids, near-vertical fans) "
            "plus uniform random ones, 1-2 tag rows, points shared by index or repeated; a few "
            "sets contain a zero-length segment (error / degenerate behaviour, tie only); about a "
            "third of the sets are translated far from the origin (up to 4096) and scaled by a power "
            "of two (1/4 .. 1024), int or float dtype; one case in ten is a LARGE-RATIO set: a segment of "
            "length 2^16..2^22 (horizontal, vertical, oblique) with 1-3 segments of length 1-4 near its "
            "start, middle and far end — collinear inside or overhanging, crossing through a lattice "
            "point, or ending on it — in both index orders; "
            "non-trivial = at least one segment is split or one child is removed as duplicate")
    trusted = ["tol = 1e-8 taken as the rational 1/10^8; implementation floats converted exactly "
               "to Q and compared with the exact model within 1e-9*(1+|x|) inside Coq",
               "the bounding-box sweep (_identify_overlapping_rectangles) is represented by its "
               "result (closed-interval overlap on both axes); uniquify_point_set by greedy "
               "first-occurrence clustering (equal whenever points are equal or >= tol apart: "
               "the guard, evaluated in Coq on every case); output point numbering not modelled"]
    assumptions = ["segments of non-zero length; input away from the tolerance bands (decidable "
                   "guard2 of the theorems, true for integer coordinates in small boxes and "
                   "checked in Coq on every generated case)"]

    # ---------------------------------------------------------------- generator
    def _rand_seg(self, rng, lo, hi):
        while True:
            a = (rng.randint(lo, hi), rng.randint(lo, hi))
            b = (rng.randint(lo, hi), rng.randint(lo, hi))
            if a != b:
                return [list(a), list(b)]

    def _directed(self, rng, lo, hi):
        """a small configuration with a planted relation"""
        k = rng.randrange(9)
        r = lambda: rng.randint(lo, hi)
        s = self._rand_seg(rng, lo, hi)
        a, b = s
        d = [b[0] - a[0], b[1] - a[1]]
        if k == 0:       # exact / reversed duplicate
            return [s, [list(b), list(a)] if rng.random() < 0.5 else [list(a), list(b)]]
        if k == 1:       # shared end point
            c = [r(), r()]
            return [s, [list(rng.choice([a, b])), c]] if c not in (a, b) else [s]
        if k == 2:       # T-junction: ends on an integer point of s when there is one
            m = [a[0] + b[0], a[1] + b[1]]
            if m[0] % 2 == 0 and m[1] % 2 == 0:
                m = [m[0] // 2, m[1] // 2]
                c = [r(), r()]
                if c != m:
                    return [s, [m, c]]
            return [s, self._rand_seg(rng, lo, hi)]
        if k == 3:       # collinear overlap / containment / touching
            t0, t1 = rng.randint(-1, 2), rng.randint(0, 3)
            if t0 == t1:
                t1 += 1
            return [s, [[a[0] + t0 * d[0], a[1] + t0 * d[1]], [a[0] + t1 * d[0], a[1] + t1 * d[1]]]]
        if k == 4:       # star through one point
            c = [r(), r()]
            out = []
            for _ in range(rng.randint(2, 4)):
                v = [rng.randint(-2, 2), rng.randint(-2, 2)]
                if v != [0, 0]:
                    out.append([[c[0] - v[0], c[1] - v[1]], [c[0] + v[0], c[1] + v[1]]])
            return out or [s]
        if k == 5:       # axis-aligned grid lines
            out = []
            for _ in range(rng.randint(2, 4)):
                if rng.random() < 0.5:
                    y = r()
                    out.append([[lo, y], [hi, y]])
                else:
                    x = r()
                    out.append([[x, lo], [x, hi]])
            return out
        if k == 6:       # near-vertical fan crossed by near-horizontal lines
            out = []
            x = r()
            for _ in range(rng.randint(1, 3)):
                out.append([[x, lo], [x + rng.choice([-1, 0, 1]), hi]])
            for _ in range(rng.randint(1, 2)):
                y = r()
                out.append([[lo, y], [hi, y + rng.choice([-1, 0, 1])]])
            return out
        if k == 7:       # parallel, not collinear
            n = [-d[1], d[0]]
            return [s, [[a[0] + n[0], a[1] + n[1]], [b[0] + n[0], b[1] + n[1]]]]
        return [s, self._rand_seg(rng, lo, hi)]   # plain pair (mostly a crossing or disjoint)

    def _large_ratio(self, rng):
        """a long segment (length 2^16..2^22 times a small direction) with short segments of
        length 1-4 near its start, its middle and its far end: collinear (inside / overhanging the
        end), crossing through a lattice point of the long one, or ending on it; both index
        orders.  All true vertices are lattice points (den = 1 in the oracle)."""
        k = rng.choice([16, 18, 19, 20, 21, 22, 22])
        L = 2 ** k
        d = rng.choice([(1, 0), (0, 1), (1, 1), (1, -1), (2, 1), (1, 2), (-1, 0), (0, -1)])
        A = (rng.randint(-3, 3), rng.randint(-3, 3))
        pt = lambda m: [A[0] + m * d[0], A[1] + m * d[1]]
        segs = [[pt(0), pt(L)]]
        zones = [rng.randint(1, 8), L // 2 + rng.randint(-8, 8), L - rng.randint(1, 8)]
        rng.shuffle(zones)
        for m in zones[:rng.randint(1, 3)]:
            kind = rng.choice(["col", "col", "col", "col", "cross", "tee"])
            if kind == "col":
                ln = rng.randint(1, 4)
                lo = m if rng.random() < 0.7 else m - ln
                a, b = pt(max(lo, -2)), pt(max(lo, -2) + ln)     # may overhang either end a little
                segs.append([a, b] if rng.random() < 0.5 else [b, a])
            else:
                while True:
                    v = (rng.randint(-2, 2), rng.randint(-2, 2))
                    if v[0] * d[1] - v[1] * d[0] != 0:
                        break
                P = pt(m)
                a = [P[0] - v[0], P[1] - v[1]] if kind == "cross" else P
                segs.append([a, [P[0] + v[0], P[1] + v[1]]])
        r = rng.random()
        if r < 0.3:
            segs = segs[1:] + segs[:1]          # the long one last: it is the "other" of every pair
        elif r < 0.6:
            rng.shuffle(segs)                   # (else: the long one first, the "main" of every pair)
        ntag = rng.choice([0, 1])
        return {"segs": [[s[0], s[1], [rng.randint(0, 9) for _ in range(ntag)]] for s in segs],
                "share": rng.random() < 0.5, "float": rng.random() < 0.5, "den": 1}

    def generate(self, rng, n, tier):
        for it in range(n):
            if it % 10 == 3:
                yield self._large_ratio(rng)
                continue
            box = rng.choice([(0, 4), (0, 4), (-3, 3), (0, 6)] + ([(-8, 8)] if tier != "quick" else []))
            lo, hi = box
            nseg = rng.randint(2, 8)
            segs = []
            while len(segs) < nseg:
                if rng.random() < 0.6:
                    segs += self._directed(rng, lo, hi)
                else:
                    segs.append(self._rand_seg(rng, lo, hi))
            segs = segs[:max(2, nseg)]
            rng.shuffle(segs)
            if rng.random() < 0.04:      # zero-length segment (error / degenerate input)
                k = rng.randrange(len(segs))
                p = rng.choice([segs[rng.randrange(len(segs))][0], [rng.randint(lo, hi), rng.randint(lo, hi)]])
                segs[k] = [list(p), list(p)]
            ntag = rng.choice([0, 1, 1, 2])
            tags = [[rng.randint(0, 9) for _ in range(ntag)] for _ in segs]
            case = {"segs": [[s[0], s[1], t] for s, t in zip(segs, tags)],
                    "share": rng.random() < 0.5, "float": rng.random() < 0.5}
            if rng.random() < 0.35:
                # the same lattice configuration translated far away and scaled by a power of two
                # (coordinates stay exact in binary64; tol = 1e-8 is absolute, so scales stay
                # well above it)
                case["scale"] = rng.choice([0.25, 0.5, 1.0, 2.0, 16.0, 1024.0])
                case["shift"] = [rng.choice([0, 0, -7, 100, -1000, 4096]), rng.choice([0, 3, -250, 1000])]
                case["float"] = case["float"] or case["scale"] < 1
            yield case

    # ---------------------------------------------------------------- implementation
    @staticmethod
    def _xf(case, p):
        """lattice point -> actual coordinates"""
        sc = case.get("scale", 1)
        sh = case.get("shift", [0, 0])
        v = [(p[0] + sh[0]) * sc, (p[1] + sh[1]) * sc]
        return [int(x) if float(x).is_integer() and not case.get("float") else float(x) for x in v] \
            if sc >= 1 else [float(x) for x in v]

    def _arrays(self, case):
        pts, e = [], []
        index = {}
        for a, b, t in case["segs"]:
            col = []
            for p in (a, b):
                key = tuple(p)
                if case["share"] and key in index:
                    col.append(index[key])
                else:
                    index[key] = len(pts)
                    col.append(len(pts))
                    pts.append(self._xf(case, p))
            e.append(col + list(t))
        p = np.array(pts, dtype=float if case["float"] else int).T.reshape(2, -1)
        e = np.array(e, dtype=int).T.reshape(-1, len(case["segs"]))
        return p, e

    def run_impl(self, case):
        p, e = self._arrays(case)
        ntag = e.shape[0] - 2
        try:
            with warnings.catch_warnings():
                warnings.simplefilter("ignore")
                with np.errstate(all="ignore"):
                    up, ne, (tags, a2u), argsort = split_intersecting_segments_2d(
                        p.copy(), e.copy(), return_argsort=True)
        except AssertionError:
            return {"err": "AssertErr"}
        except ValueError:
            return {"err": "ValueErr"}
        up = np.asarray(up, dtype=float)
        ne = np.asarray(ne)
        out = []
        for k in range(ne.shape[1]):
            a, b = int(ne[0, k]), int(ne[1, k])
            out.append([[float(up[0, a]), float(up[1, a])], [float(up[0, b]), float(up[1, b])],
                        [int(x) for x in ne[2:, k]], int(argsort[k])])
        a2u = np.asarray(a2u, dtype=int).ravel()
        tags = np.asarray(tags, dtype=int).reshape(ntag, -1) if ntag else np.zeros((0, a2u.size), dtype=int)
        pre = []
        for m in range(a2u.size):
            o = out[int(a2u[m])]
            pre.append([o[0], o[1], [int(x) for x in tags[:, m]], 0])
        return {"out": out, "pre": pre}

    # ---------------------------------------------------------------- oracle
    def oracle(self, case, res):
        segs = [(tuple(a), tuple(b), list(t)) for a, b, t in case["segs"]]
        if any(a == b for a, b, _ in segs):
            return None            # zero-length input: outside the property (tie only)
        if "err" in res:
            return f"raised {res['err']} on proper integer segments"
        span = max(max(abs(c) for s in segs for p in s[:2] for c in p), 1)
        den = case.get("den") or 2 * (2 * span) ** 2
        edges = []
        sc = F(case.get("scale", 1))
        sh = case.get("shift", [0, 0])

        def back(pt):       # actual float coordinates -> exact lattice-local rational
            out = []
            for x, d in zip(pt, sh):
                y = F(x) / sc - d
                fr = y.limit_denominator(den)
                out.append(fr if abs(fr - y) <= F(1, 10**9) * (1 + abs(F(x) / sc)) else None)
            return tuple(out)

        for a, b, t, par in res["out"]:
            qa = back(a)
            qb = back(b)
            if None in qa or None in qb:
                return f"output point {a if None in qa else b} is not an intersection point of the input"
            edges.append((qa, qb, t, par))
        # inside the parent, with its tags; proper
        for qa, qb, t, par in edges:
            if not (0 <= par < len(segs)):
                return f"edge mapped to segment {par} which does not exist"
            s = segs[par]
            if qa == qb:
                return f"zero-length output edge at {qa}"
            if not (on_seg(qa, s[0], s[1]) and on_seg(qb, s[0], s[1])):
                return f"edge {qa}-{qb} is not inside segment {par} it is mapped to"
            if t != s[2]:
                return f"edge {qa}-{qb} carries tags {t}, its segment {par} has {s[2]}"
        # no duplicates
        keys = [tuple(sorted((qa, qb))) for qa, qb, _, _ in edges]
        if len(set(keys)) != len(keys):
            dup = [k for k in keys if keys.count(k) > 1][0]
            return f"duplicate output edge {dup}"
        # meet only at shared end points
        for i in range(len(edges)):
            for j in range(i + 1, len(edges)):
                x = exact_isect(edges[i][0], edges[i][1], edges[j][0], edges[j][1])
                if x is None:
                    continue
                if len(x) == 2:
                    return f"edges {keys[i]} and {keys[j]} overlap along {x}"
                if x[0] not in edges[i][:2] or x[0] not in edges[j][:2]:
                    return f"edges {keys[i]} and {keys[j]} meet at {x[0]}, not a shared end point"
        # cover: the edges lying on an input segment cover it
        for k, s in enumerate(segs):
            iv = sorted((min(param(qa, s[0], s[1]), param(qb, s[0], s[1])),
                         max(param(qa, s[0], s[1]), param(qb, s[0], s[1])))
                        for qa, qb, _, _ in edges
                        if on_seg(qa, s[0], s[1]) and on_seg(qb, s[0], s[1]))
            reach = F(0)
            for lo, hi in iv:
                if lo > reach:
                    break
                reach = max(reach, hi)
            if reach < 1:
                return f"segment {k} is not covered beyond parameter {reach}"
        return None

    # ---------------------------------------------------------------- tie
    def _actual_segs(self, case):
        return [[self._xf(case, a), self._xf(case, b), t] for a, b, t in case["segs"]]

    def coq_case(self, case, res):
        segs = clist(self._actual_segs(case), _seg)
        if "err" in res:
            io = f"(IRaised {res['err']})"
        else:
            io = f"(IEdges {clist(res['pre'], _edge)} {clist(res['out'], _edge)})"
        proper = all(tuple(a) != tuple(b) for a, b, _ in case["segs"])
        return f"{'agree_guarded2' if proper else 'agree'} {segs} {io}"

    def coq_diag(self, case, res):
        sg = clist(self._actual_segs(case), _seg)
        return f"(guard2 tol8 {sg}, split tol8 {sg})"

    def nontrivial(self, case, res):
        return "out" in res and (len(res["pre"]) != len(case["segs"]) or len(res["out"]) != len(res["pre"]))

    def finding_key(self, case, res, why):
        return "split-" + why.split(" ")[0]

    def shrink(self, case, still_fails):
        segs = list(case["segs"])
        changed = True
        while changed and len(segs) > 1:
            changed = False
            for i in range(len(segs)):
                c = dict(case, segs=segs[:i] + segs[i + 1:])
                if still_fails(c):
                    segs = c["segs"]
                    changed = True
                    break
        return dict(case, segs=segs)


PROP = C29()
