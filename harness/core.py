"""Shared driver for the per-property checks (see DESIGN.md §2).

A property module (harness/props/cXX.py) defines a subclass of ``Prop`` and the
module-level name ``PROP`` bound to an instance.  ``run_check`` executes the pipeline

  1. proof step     : make the .vo closure of coq/Props/CXX.v, re-run coqc on the Props
                      file to collect ``Print Assumptions`` (the theorems of this property)
  2. cases          : corpus + generated (one PRNG seeded from VERIF_SEED)
  3. implementation : ``run_impl`` on every case (real porepy from /repo/src)
  4. oracle         : the property evaluated directly on the implementation's behaviour
  5. tie            : Coq evaluates, by vm_compute, whether the model reproduces the
                      implementation's output on every case (``coq_case`` terms)
  6. decision       : known-findings filter, replay files, evidence, exit code
"""

from __future__ import annotations

import fcntl
import glob
import hashlib
import json
import os
import random
import re
import subprocess
import sys
import time
import traceback
from fractions import Fraction

VERIF = os.path.dirname(os.path.dirname(os.path.abspath(__file__)))
COQ = os.path.join(VERIF, "coq")
CACHE = os.path.join(VERIF, ".cache")
REPO = os.environ.get("VERIF_REPO", "/repo")
#: where evidence / replays / generated case files go.  Default: /verif itself.  A
#: different directory is used only for trial runs against scratch worktrees (mutation
#: testing), so that they do not disturb the registered checks' outputs.
OUT = os.environ.get("VERIF_OUT", VERIF)
GEN = os.path.join(OUT, ".cache", "gen") if OUT != VERIF else os.path.join(CACHE, "gen")

FORBIDDEN = re.compile(
    r"\b(Admitted|admit|Axiom|Axioms|Parameter|Parameters|Conjecture|Abort All)\b"
    r"|Unset\s+Guard|bypass_check|type-in-type|impredicative-set|Admit\s+Obligations"
    r"|Unset\s+Positivity|Unset\s+Universe"
)


# --------------------------------------------------------------------------------------
# Coq literal emission
# --------------------------------------------------------------------------------------
def cz(n) -> str:
    n = int(n)
    return f"({n})%Z"


def cnat(n) -> str:
    n = int(n)
    assert 0 <= n < 5000, "nat literal too large"
    return f"{n}%nat"


def cbool(b) -> str:
    return "true" if b else "false"


def cq(x) -> str:
    """Exact rational literal (Q) from int / Fraction / float (floats are dyadic)."""
    fr = Fraction(x)
    return f"({fr.numerator} # {fr.denominator})%Q"


def cfloat(x: float) -> str:
    """PrimFloat literal, bit exact."""
    x = float(x)
    if x != x:
        return "nan%float"
    if x == float("inf"):
        return "infinity%float"
    if x == float("-inf"):
        return "neg_infinity%float"
    h = x.hex()
    if h.startswith("-"):
        return f"(- {h[1:]})%float"
    return f"({h})%float"


def clist(items, f=lambda s: s) -> str:
    return "[" + "; ".join(f(i) for i in items) + "]"


def coption(x, f=lambda s: s) -> str:
    return "None" if x is None else f"(Some {f(x)})"


def cpair(a, b) -> str:
    return f"({a}, {b})"


def cstring(s: str) -> str:
    assert '"' not in s
    return f'"{s}"%string'


# --------------------------------------------------------------------------------------
# Running Coq
# --------------------------------------------------------------------------------------
def sh(cmd, timeout, cwd=None, env=None):
    t0 = time.time()
    try:
        p = subprocess.run(
            cmd, cwd=cwd, env=env, timeout=timeout, capture_output=True, text=True
        )
        return p.returncode, p.stdout, p.stderr, time.time() - t0
    except subprocess.TimeoutExpired as e:
        out = e.stdout.decode() if isinstance(e.stdout, bytes) else (e.stdout or "")
        err = e.stderr.decode() if isinstance(e.stderr, bytes) else (e.stderr or "")
        return 124, out, err + "\nTIMEOUT", time.time() - t0


def ensure_project():
    """(Re)generate _CoqProject + Makefile when the file set changed."""
    files = []
    for sub in ("Lib", "Model", "Proofs", "Props", "Gen"):
        for f in sorted(glob.glob(os.path.join(COQ, sub, "*.v"))):
            # scratch/debug files (names not starting with the property id) are ignored
            if sub in ("Model", "Proofs", "Props") and not re.match(
                    r"^C\d{2,3}[A-Za-z0-9_]*\.v$", os.path.basename(f)):
                continue
            files.append(f)
    rel = [os.path.relpath(f, COQ) for f in files]
    text = "-Q . PP\n-arg -w -arg -all\n" + "\n".join(rel) + "\n"
    proj = os.path.join(COQ, "_CoqProject")
    old = open(proj).read() if os.path.exists(proj) else None
    if old != text or not os.path.exists(os.path.join(COQ, "Makefile")):
        with open(proj, "w") as f:
            f.write(text)
        rc, out, err, _ = sh(
            ["coq_makefile", "-f", "_CoqProject", "-o", "Makefile"], 120, cwd=COQ
        )
        if rc != 0:
            raise RuntimeError("coq_makefile failed: " + err)


class CoqLock:
    def __enter__(self):
        os.makedirs(CACHE, exist_ok=True)
        self.f = open(os.path.join(CACHE, "coq.lock"), "w")
        fcntl.flock(self.f, fcntl.LOCK_EX)
        return self

    def __exit__(self, *a):
        fcntl.flock(self.f, fcntl.LOCK_UN)
        self.f.close()


def make_targets(targets, timeout=1500, jobs=8):
    with CoqLock():
        ensure_project()
        rc, out, err, dt = sh(
            ["make", f"-j{jobs}", "-k"] + targets, timeout, cwd=COQ
        )
        if rc != 0 and "No rule to make target" in (out + err):
            # a source file listed in the project vanished meanwhile: regenerate, retry once
            for f in ("_CoqProject", ".Makefile.d"):
                try:
                    os.remove(os.path.join(COQ, f))
                except OSError:
                    pass
            ensure_project()
            rc, out, err, dt2 = sh(
                ["make", f"-j{jobs}", "-k"] + targets, timeout, cwd=COQ
            )
            dt += dt2
    return rc, out + "\n" + err, dt


def gate_grep(paths=None):
    """Forbidden constructs anywhere in the development (comments are stripped)."""
    bad = []
    files = paths or glob.glob(os.path.join(COQ, "**", "*.v"), recursive=True)
    for f in files:
        txt = open(f).read()
        txt = strip_coq_comments(txt)
        for m in FORBIDDEN.finditer(txt):
            bad.append(f"{os.path.relpath(f, VERIF)}: {m.group(0)}")
    return bad


def strip_coq_comments(txt: str) -> str:
    out = []
    depth = 0
    i = 0
    n = len(txt)
    instr = False
    while i < n:
        if depth == 0 and txt[i] == '"':
            instr = not instr
            out.append(txt[i])
            i += 1
            continue
        if not instr and txt.startswith("(*", i):
            depth += 1
            i += 2
            continue
        if not instr and depth > 0 and txt.startswith("*)", i):
            depth -= 1
            i += 2
            continue
        if depth == 0:
            out.append(txt[i])
        i += 1
    return "".join(out)


def closure(props_file):
    """The .v files of this project that ``props_file`` transitively requires."""
    seen, todo = [], [props_file]
    while todo:
        f = todo.pop()
        if f in seen or not os.path.exists(f):
            continue
        seen.append(f)
        txt = strip_coq_comments(open(f).read())
        for m in re.finditer(r"From\s+PP\s+Require\s+(?:Import\s+|Export\s+)?(.*?)\.(?=\s|$)",
                             txt, flags=re.S):
            for name in m.group(1).split():
                todo.append(os.path.join(COQ, *name.split(".")) + ".v")
        for m in re.finditer(r"Require\s+(?:Import\s+|Export\s+)?(.*?)\.(?=\s|$)", txt, flags=re.S):
            for name in m.group(1).split():
                if name.startswith("PP."):
                    todo.append(os.path.join(COQ, *name.split(".")[1:]) + ".v")
    return seen


def theorem_names(props_file):
    txt = strip_coq_comments(open(props_file).read())
    return re.findall(r"^\s*Theorem\s+([A-Za-z0-9_']+)", txt, flags=re.M)


def check_proofs(pid, props_rel, extra_targets=(), tier="quick"):
    """Build the closure of the Props file and collect Print Assumptions.

    Returns dict(obligations, discharged, theorems, axioms, ok, log, checker_cmd).
    """
    props_file = os.path.join(COQ, props_rel)
    names = theorem_names(props_file)
    res = {
        "obligations": len(names),
        "discharged": 0,
        "theorems": names,
        "axioms": {},
        "ok": False,
        "log": "",
        "checker_cmd": f"make -C coq {props_rel}o && coqc -Q coq PP coq/{props_rel}"
        + " (Print Assumptions under every theorem)",
    }
    bad = gate_grep(closure(props_file))
    res["closure"] = [os.path.relpath(f, COQ) for f in closure(props_file)]
    if bad:
        res["log"] = "forbidden constructs: " + "; ".join(bad)
        return res
    target = props_rel + "o"
    rc, log, dt = make_targets([target] + list(extra_targets))
    res["make_s"] = round(dt, 1)
    if rc != 0:
        res["log"] = "make failed:\n" + log[-4000:]
    # Re-run coqc on the Props file alone to get the Print Assumptions output, also
    # when make failed (to count how many theorems still check).
    outdir = os.path.join(os.path.dirname(GEN), "props")
    os.makedirs(outdir, exist_ok=True)
    rc2, out, err, dt2 = sh(
        [
            "coqc", "-Q", COQ, "PP", "-w", "-all",
            "-o", os.path.join(outdir, pid + ".vo"), props_file,
        ],
        900,
    )
    res["props_s"] = round(dt2, 1)
    ax = parse_assumptions(out, names)
    res["axioms"] = ax
    res["discharged"] = len(ax) if rc2 != 0 else len(names)
    if rc2 != 0:
        res["log"] += "\ncoqc Props failed:\n" + (out + err)[-4000:]
    res["ok"] = rc == 0 and rc2 == 0 and res["discharged"] == res["obligations"]
    if tier == "thorough" and res["ok"]:
        res["coqchk"] = run_coqchk(pid, props_rel)
        if not res["coqchk"]["ok"]:
            res["ok"] = False
            res["log"] += "\ncoqchk failed:\n" + res["coqchk"]["log"]
    return res


def parse_assumptions(out, names):
    """Split coqc stdout into one assumption block per ``Print Assumptions``."""
    blocks = re.split(r"(?=^(?:Closed under the global context|Axioms:))", out, flags=re.M)
    blocks = [b for b in blocks if b.startswith(("Closed under", "Axioms:"))]
    ax = {}
    for name, b in zip(names, blocks):
        if b.startswith("Closed under"):
            ax[name] = []
        else:
            ax[name] = sorted(
                set(re.findall(r"^([A-Za-z_][A-Za-z0-9_.']*)\s*:", b, flags=re.M))
                - {"Axioms"}
            )
    return ax


def run_coqchk(pid, props_rel):
    mod = "PP." + props_rel[:-2].replace("/", ".")
    rc, out, err, dt = sh(
        ["coqchk", "-silent", "-o", "-Q", COQ, "PP", mod], 3000, cwd=COQ
    )
    txt = out + err
    axioms = re.findall(r"^\s+([A-Za-z_][A-Za-z0-9_.']*)\s*$", txt, flags=re.M)
    return {"ok": rc == 0, "wall_s": round(dt, 1), "axioms": sorted(set(axioms)),
            "log": txt[-3000:]}


def coq_eval_bools(pid, preamble, terms, shard=400, timeout=900, jobs=8, _depth=0):
    """Evaluate boolean Coq terms by vm_compute; returns list[bool|None] (None = coqc
    error for the shard) and a log."""
    gdir = os.path.join(GEN, pid)
    os.makedirs(gdir, exist_ok=True)
    for f in glob.glob(os.path.join(gdir, "cases_*")):
        os.remove(f)
    shards = [terms[i:i + shard] for i in range(0, len(terms), shard)]
    files = []
    for k, sh_terms in enumerate(shards):
        fn = os.path.join(gdir, f"cases_{k:03d}.v")
        with open(fn, "w") as f:
            f.write(preamble + "\n")
            for j, t in enumerate(sh_terms):
                f.write(f"Definition case_{j} : bool := {t}.\n")
                f.write(f"Eval vm_compute in case_{j}.\n")
        files.append(fn)
    procs = []
    results = [None] * len(shards)
    logs = []

    def launch(k):
        return subprocess.Popen(
            ["timeout", str(timeout), "coqc", "-Q", COQ, "PP", "-w", "-all", files[k]],
            stdout=subprocess.PIPE, stderr=subprocess.PIPE, text=True, cwd=gdir,
        )

    pending = list(range(len(shards)))
    running = {}
    while pending or running:
        while pending and len(running) < jobs:
            k = pending.pop(0)
            running[k] = launch(k)
        for k, p in list(running.items()):
            if p.poll() is not None:
                out, err = p.communicate()
                results[k] = (p.returncode, out, err)
                del running[k]
        time.sleep(0.05)
    flat = []
    for k, (rc, out, err) in enumerate(results):
        vals = re.findall(r"^\s+= (true|false)\s*$", out, flags=re.M)
        n = len(shards[k])
        if rc == 124 and n > 1 and _depth < 3:
            # the shard ran out of time (loaded machine or a few very heavy cases): that is
            # a resource matter, not evidence about the model - evaluate it again in smaller
            # pieces with a longer limit before declaring the correspondence broken
            sub, sublog = coq_eval_bools(pid + f"/retry{_depth}_{k}", preamble, shards[k],
                                         shard=max(1, (n + 7) // 8), timeout=timeout * 2,
                                         jobs=jobs, _depth=_depth + 1)
            logs.append(f"shard {k}: timed out after {timeout}s, re-evaluated in pieces"
                        + (("\n" + sublog) if sublog else ""))
            flat += sub
        elif rc != 0 or len(vals) != n:
            logs.append(f"shard {k}: rc={rc} got {len(vals)}/{n}\n{(out + err)[-2000:]}")
            flat += [None] * n
        else:
            flat += [v == "true" for v in vals]
    return flat, "\n".join(logs)


def coq_eval_raw(pid, preamble, terms, timeout=300):
    """Evaluate arbitrary terms and return the raw printed text (diagnostics only)."""
    gdir = os.path.join(GEN, pid)
    os.makedirs(gdir, exist_ok=True)
    fn = os.path.join(gdir, "diag.v")
    with open(fn, "w") as f:
        f.write(preamble + "\n")
        for t in terms:
            f.write(f"Eval vm_compute in ({t}).\n")
    rc, out, err, _ = sh(["coqc", "-Q", COQ, "PP", "-w", "-all", fn], timeout, cwd=gdir)
    return (out + err)[-6000:]


# --------------------------------------------------------------------------------------
# Property interface
# --------------------------------------------------------------------------------------
class Prop:
    id = "C00"
    props_file = "Props/C00.v"
    level = "proof"
    technique = ""
    #: Coq preamble of generated case files
    preamble = ""
    #: (quick, thorough) number of generated cases
    n_cases = (200, 4000)
    trusted = []
    assumptions = []
    rule = ""

    # -- translator hook (T-tie): regenerate coq/Gen/*.v from /repo; returns (ok, log)
    def regenerate(self):
        return True, ""

    extra_targets = ()

    def generate(self, rng: random.Random, n: int, tier: str):
        raise NotImplementedError

    def run_impl(self, case):
        raise NotImplementedError

    def oracle(self, case, result):
        """Return None if the property holds on this case, else a short reason."""
        return None

    def coq_case(self, case, result):
        """Coq term : bool — the model reproduces ``result`` on ``case``. None = skip."""
        return None

    def coq_diag(self, case, result):
        """Optional Coq term whose value is the model's output (diagnostics)."""
        return None

    def nontrivial(self, case, result) -> bool:
        return True

    def finding_key(self, case, result, why) -> str:
        """Classify a violation; compared with known_findings.json keys."""
        return "unclassified"

    def shrink(self, case, still_fails):
        return case

    def search(self, rng, seeds, budget_s):
        """Search for a failing input after a broken tie/proof.  Default: generate the
        thorough volume and run the oracle."""
        t0 = time.time()
        n = 0
        while time.time() - t0 < budget_s:
            for case in self.generate(rng, 200, "thorough"):
                n += 1
                try:
                    res = self.run_impl(case)
                    why = self.oracle(case, res)
                except Exception as e:  # pragma: no cover
                    res, why = None, None
                if why:
                    return case, res, why, n
        return None, None, None, n

    def describe(self, case):
        return case

    def extra_evidence(self):
        return {}


def load_corpus(pid):
    out = []
    for f in sorted(glob.glob(os.path.join(VERIF, "corpus", pid, "*.json"))):
        try:
            d = json.load(open(f))
        except Exception:
            continue
        if isinstance(d, dict) and "case" in d:
            d = d["case"]
        out.append(d)
    return out


def load_known():
    """Known findings: one committed file per property under /verif/known_findings/
    (merged into /verif/known_findings.json by harness/mkmanifest.py)."""
    out = []
    for f in sorted(glob.glob(os.path.join(VERIF, "known_findings", "*.json"))):
        out += json.load(open(f)).get("findings", [])
    return out


def write_replay(pid, kind, payload):
    os.makedirs(os.path.join(OUT, "replays"), exist_ok=True)
    blob = json.dumps(payload, sort_keys=True, default=str)
    h = hashlib.sha1(blob.encode()).hexdigest()[:10]
    path = os.path.join(OUT, "replays", f"{pid}-{kind}-{h}.json")
    with open(path, "w") as f:
        json.dump(payload, f, indent=1, sort_keys=True, default=str)
    return path


def repo_head():
    rc, out, _, _ = sh(["git", "-C", REPO, "rev-parse", "HEAD"], 30)
    rc2, out2, _, _ = sh(["git", "-C", REPO, "status", "--porcelain", "--", "src"], 30)
    return out.strip() + ("+dirty" if out2.strip() else "")


def has_nonfinite(obj):
    """True if a (nested) JSON-able result contains a NaN or infinite float."""
    if isinstance(obj, float):
        return obj != obj or obj in (float("inf"), float("-inf"))
    if isinstance(obj, dict):
        return any(has_nonfinite(v) for v in obj.values())
    if isinstance(obj, (list, tuple)):
        return any(has_nonfinite(v) for v in obj)
    return False


def safe_key(prop, case, res, why):
    """finding key, never raising (an unclassifiable violation is simply not a known one)"""
    try:
        return str(prop.finding_key(case, res, why))
    except Exception:
        return "unclassified"


def safe_oracle(prop, case, res):
    """oracle verdict, never raising: an oracle that cannot evaluate a result is not a verdict"""
    try:
        return prop.oracle(case, res)
    except Exception:
        return None


def safe_impl(prop, case):
    try:
        return prop.run_impl(case), None
    except Exception as e:
        return None, f"{type(e).__name__}: {e}\n{traceback.format_exc()[-1500:]}"


def run_check(prop: Prop, tier: str, seed: int, replay: str | None = None):
    t0 = time.time()
    pid = prop.id
    known = [k for k in load_known() if k.get("property") == pid]
    open_keys = {k["key"]: k for k in known if k.get("status") == "open"}
    violations = []  # (kind, replay_path, suffix)
    known_hits = {}

    if replay:
        payload = json.load(open(replay))
        case = payload.get("case")
        if case is None:
            print(f"replay {replay}: no input recorded ({payload.get('kind')}); "
                  "re-running the full check instead")
        else:
            res, err = safe_impl(prop, case)
            why = err and ("harness/impl exception: " + err) or prop.oracle(case, res)
            if why:
                print(f"replay still fails: {why}")
                print(f"VIOLATION property={pid} replay={replay}")
                return 1
            print("replay passes on the current tree")
            return 0

    # 1. translator + proofs
    ok_gen, gen_log = prop.regenerate()
    proofs = check_proofs(pid, prop.props_file, prop.extra_targets, tier)
    if not ok_gen:
        proofs["ok"] = False
        proofs["log"] = "translator failed (fail-closed): " + gen_log + "\n" + proofs["log"]

    # 2. cases
    rng = random.Random(seed)
    corpus = load_corpus(pid)
    n_gen = prop.n_cases[0 if tier == "quick" else 1]
    cases = list(corpus) + list(prop.generate(rng, n_gen, tier))

    # 3/4. implementation + oracle
    results = []
    harness_errors = []
    oracle_bad = []
    for i, case in enumerate(cases):
        res, err = safe_impl(prop, case)
        results.append(res)
        if err:
            harness_errors.append((i, err))
            continue
        try:
            why = prop.oracle(case, res)
        except Exception as e:
            why = None
            harness_errors.append((i, "oracle exception: " + traceback.format_exc()[-1500:]))
        if why:
            oracle_bad.append((i, why))

    # 5. tie
    terms, idx = [], []
    unrepresentable = []
    for i, (case, res) in enumerate(zip(cases, results)):
        if res is None:
            continue
        try:
            t = prop.coq_case(case, res)
        except Exception as e:
            # the implementation's output cannot be expressed in the model's domain
            # (e.g. NaN where the model has a rational): a disagreement, not a crash
            unrepresentable.append((i, f"{type(e).__name__}: {e}"))
            continue
        if t is not None:
            terms.append(t)
            idx.append(i)
    tie_log = ""
    flags = []
    if terms:
        flags, tie_log = coq_eval_bools(pid, prop.preamble, terms)
    disagree = [idx[j] for j, f in enumerate(flags) if f is False] + [i for i, _ in unrepresentable]
    tie_errors = [idx[j] for j, f in enumerate(flags) if f is None]

    # 6. decision
    for i, why in oracle_bad:
        key = safe_key(prop, cases[i], results[i], why)
        if key in open_keys:
            known_hits.setdefault(key, (i, why))
            continue

        def still_fails(c, _prop=prop, _key=key):
            r, e = safe_impl(_prop, c)
            if e:
                return False
            w = safe_oracle(_prop, c, r)
            return bool(w) and safe_key(_prop, c, r, w) == _key

        try:
            small = prop.shrink(cases[i], still_fails)
        except Exception:
            small = cases[i]
        r2, _ = safe_impl(prop, small)
        path = write_replay(pid, "counterexample", {
            "property": pid, "kind": "counterexample", "case": small,
            "impl_output": r2, "oracle_verdict": safe_oracle(prop, small, r2) or why,
            "finding_key": key, "repo_head": repo_head(), "seed": seed,
        })
        violations.append(("counterexample", path, ""))
        break  # one replay is enough

    broken = []
    if not proofs["ok"]:
        broken.append(("broken-proof", proofs["log"][-3000:]))
    if disagree:
        i = disagree[0]
        diag = None
        try:
            d = prop.coq_diag(cases[i], results[i])
            if d:
                diag = coq_eval_raw(pid, prop.preamble, [d])
        except Exception as e:
            diag = f"(no model output: {type(e).__name__}: {e})"
        broken.append(("broken-tie", json.dumps({
            "case": cases[i], "impl_output": results[i], "model_output": diag,
            "n_disagree": len(disagree)}, default=str)))
    if tie_errors:
        broken.append(("broken-tie", "coqc failed on generated case files:\n" + tie_log[-3000:]))
    if harness_errors:
        i, err = harness_errors[0]
        broken.append(("broken-tie", "implementation run raised outside the modelled "
                       f"error enum on case {i}: {json.dumps(cases[i], default=str)[:1500]}\n{err}"))

    search_info = None
    if broken and not violations:
        # search for a concrete failing input (disagreeing cases first)
        budget = 60 if tier == "quick" else 600
        seeds = [cases[i] for i in disagree[:20]]
        found = None
        for c in seeds:
            r, e = safe_impl(prop, c)
            if not e:
                w = safe_oracle(prop, c, r)
                if w and safe_key(prop, c, r, w) not in open_keys:
                    found = (c, r, w, 0)
                    break
        if not found:
            c, r, w, n = prop.search(random.Random(seed + 1), seeds, budget)
            search_info = {"cases_searched": n}
            if c is not None and safe_key(prop, c, r, w) not in open_keys:
                found = (c, r, w, n)
        kind, detail = broken[0]
        if found:
            c, r, w, n = found
            path = write_replay(pid, "counterexample", {
                "property": pid, "kind": "counterexample", "case": c, "impl_output": r,
                "oracle_verdict": w, "broken": kind, "detail": detail,
                "repo_head": repo_head(), "seed": seed})
            violations.append(("counterexample", path, ""))
        else:
            path = write_replay(pid, kind, {
                "property": pid, "kind": kind,
                "theorem_or_tie": (proofs["theorems"] if kind == "broken-proof"
                                   else f"correspondence model~impl of {pid} "
                                        f"({prop.props_file}, harness/props/{pid.lower()}.py)"),
                "detail": detail, "all_broken": [b[0] for b in broken],
                "search": search_info, "repo_head": repo_head(), "seed": seed})
            violations.append((kind, path, " no-failing-input-found"))

    # evidence
    nontriv = set()
    for c, r in zip(cases, results):
        if r is not None and prop.nontrivial(c, r):
            nontriv.add(hashlib.sha1(json.dumps([c, r], sort_keys=True, default=str)
                                     .encode()).hexdigest())
    axioms = sorted({a for v in proofs["axioms"].values() for a in v})
    samples = [{"case": prop.describe(c), "impl_output": r}
               for c, r in list(zip(cases, results))[:3]]
    coverage = {
        "obligations": proofs["obligations"],
        "discharged": proofs["discharged"],
        "checker_cmd": proofs["checker_cmd"],
        "trusted_base": [
            "Coq 8.16.1 kernel + vm_compute (no native_compute)",
            "axioms reported by Print Assumptions on this run: "
            + (", ".join(axioms) if axioms else "none (closed under the global context)"),
            "harness: case generator, literal emitter and output parser (harness/core.py, "
            f"harness/props/{pid.lower()}.py)",
        ] + list(prop.trusted),
        "theorems": proofs["theorems"],
        "axioms_per_theorem": proofs["axioms"],
        "evaluations": len(cases),
        "distinct_nontrivial": len(nontriv),
        "rule": prop.rule,
        "samples": samples,
        "tie": {
            "kind": "execution correspondence: Coq (vm_compute) recomputes the model on "
                    "each case and compares with the implementation's output",
            "cases_compared": len(terms),
            "agree": sum(1 for f in flags if f is True),
            "disagree": len(disagree),
            "impl_output_outside_model_domain": len(unrepresentable),
            "coq_errors": len(tie_errors),
        },
        "oracle": {"cases": len(cases), "violations": len(oracle_bad),
                   "known_findings_hit": sorted(known_hits)},
        "corpus_cases": len(corpus),
        "harness_errors": len(harness_errors),
        "repo_head": repo_head(),
    }
    if "coqchk" in proofs:
        coverage["coqchk"] = {k: proofs["coqchk"][k] for k in ("ok", "wall_s", "axioms")}
    if search_info:
        coverage["search"] = search_info
    coverage.update(prop.extra_evidence())
    ev = {
        "property_id": pid, "tier": tier, "seed": seed, "level": prop.level,
        "coverage": coverage, "assumptions": list(prop.assumptions),
        "wall_s": round(time.time() - t0, 2), "violations": len(violations),
    }
    os.makedirs(os.path.join(OUT, "evidence"), exist_ok=True)
    with open(os.path.join(OUT, "evidence", pid + ".json"), "w") as f:
        json.dump(ev, f, indent=1, default=str)

    for key, (i, why) in sorted(known_hits.items()):
        print(f"KNOWN-FINDING: property={pid} {key}: {open_keys[key].get('description', why)}")
    print(f"[{pid}] tier={tier} seed={seed} theorems={proofs['discharged']}/"
          f"{proofs['obligations']} cases={len(cases)} tie_agree={coverage['tie']['agree']}/"
          f"{len(terms)} oracle_violations={len(oracle_bad)} wall={ev['wall_s']}s")
    if violations:
        for kind, path, suffix in violations:
            print(f"VIOLATION property={pid} replay={path}{suffix}")
        return 1
    return 0
